"""replay -- execute TLC-generated behaviours (hist of MCBase.tla) on the real manager."""
from __future__ import annotations

import random
from typing import Any, Dict, List, Optional

from .hub import Hub
from . import frames as F

PAYLOAD_SIZES = [8, 0, 37, 65535, 1, 1024]


class Profile:
    """Concretisation of the abstract alphabet: header layout, payload sizes, type ids, fault offsets."""

    def __init__(self, seed: int = 0, log_level: Optional[int] = None):
        r = random.Random(seed)
        self.seed = seed
        self.timecode = bool(seed % 2)
        self.salt = seed
        self.sizes = PAYLOAD_SIZES[:]
        r.shuffle(self.sizes)
        # abstract user type -> concrete id (core ids are kept)
        self.type_map = {100: r.choice([1234, 4321, 9999, 100, 5000]), 101: r.choice([101, 7777, 2000]), 102: 102}
        self.die_mode = r.choice(["hdr", "pay"])
        self.fin_partial = r.choice([0, 0, 1, 20, 47, 48, 49])
        self.timing = True
        self.chunk = r.choice([None, 1000, 100, 4096, 1000, 7])
        self.log_level = r.choice([100, 100, 20, 100, 10])   # the manager's own logging: off / INFO / DEBUG
        if log_level is not None:
            self.log_level = log_level
        self.space = r.choice([None, 60, 2000, 100])      # send-buffer room seen by NON-blocking sends only

    def mt(self, t: int) -> int:
        return self.type_map.get(t, t)

    def to_json(self):
        return {"seed": self.seed, "timecode": self.timecode, "sizes": self.sizes, "type_map": self.type_map,
                "die_mode": self.die_mode, "fin_partial": self.fin_partial, "chunk": self.chunk, "space": self.space, "log_level": self.log_level, "timing": self.timing}


def concretise(f: Dict[str, Any], prof: Profile) -> Dict[str, Any]:
    g = dict(f)
    g["t"] = prof.mt(f["t"])
    p = dict(f["p"])
    if p["k"] == "d":
        p["size"] = prof.sizes[p["id"] % len(prof.sizes)]
    if p["k"] == "sub":
        p["mt"] = prof.mt(p["mt"])
    g["p"] = p
    return g


def replay(beh: List[dict], prof: Optional[Profile] = None, log_level: Optional[int] = None) -> Hub:
    prof = prof or Profile(0)
    if log_level is None and prof.log_level < 100 and any(e["a"] in ("Die", "Rst") for e in beh):
        # log messages about a failure are themselves delivered to subscribers of the log types; a dead peer would then be
        # discovered while a LOG message is forwarded, which the specification (no logging) cannot follow: logging is only
        # switched on for behaviours without write-side faults (DESIGN 2.9)
        log_level = 100
    h = Hub(timecode=prof.timecode, timing=prof.timing, log_level=prof.log_level if log_level is None else log_level, salt=prof.salt, chunk=prof.chunk, space=prof.space)
    try:
        for e in beh:
            if not h.alive():
                break
            a = e["a"]
            if a == "Open":
                h.open(e["c"])
            elif a == "Send":
                h.send(e["c"], concretise(e["f"], prof))
            elif a == "Fin":
                part = b""
                if prof.fin_partial:
                    junk = h.frame_bytes({"t": prof.mt(100), "src": 1, "p": {"k": "d", "id": 9, "size": 64}})
                    part = junk[: prof.fin_partial]
                h.fin(e["c"], part)
            elif a == "Rst":
                h.rst(e["c"])
            elif a == "Die":
                h.die(e["c"], prof.die_mode)
            elif a == "Tick":
                h.tick(e["n"])
            elif a == "Round":
                h.round(readable=list(e["R"]), order=list(e["R"]), writable=list(e["W"]), accept=bool(e["acc"]))
            else:
                raise ValueError(a)
    finally:
        h.close()
    return h
