"""loggerctl_drv -- replay of LoggerCtl.tla behaviours on the REAL pyrtma DataLogger.run().

The control loop of the data logger (data_logger/data_logger.py) is run unmodified:

  * the object is made with DataLogger.__new__ and gets the attributes its __init__ would set -- they are read from the
    SOURCE of __init__ (every `self.x = <expr>` that does not involve the connection), so a new attribute or a changed list
    of control types follows the code;
  * `self.mod` is a ScriptedClient: a subclass of the real pyrtma.Client whose transport is replaced -- subscribe /
    unsubscribe are the REAL client methods (incl. InvalidSubscription while subscribed to ALL_MESSAGE_TYPES), what they
    send is applied to a hub-side subscription set exactly like manager.add_subscription / remove_subscription do;
    read_message hands out the scripted messages the hub would forward (type subscribed, or ALL subscribed -- the logger is
    a `logger_status` module, the destination is not looked at), send_message / send_signal / disconnect record;
  * DataCollection / DataSet / the formatters are real and write real files below a scratch directory.  Inside
    pyrtma.data_logger.data_collection the name `threading` is replaced by a shim whose Event.wait(timeout) polls quickly
    (the writer thread's 0.5 s wait would make every close() take half a second); nothing else is changed, time is real
    (the recordings are far shorter than the 15 s write period).

After run() returns the files of every recording (paths as announced in DATA_COLLECTION_STARTED) are read back with the
package's own readers and compared with the content the specification expects, the replies with the expected replies, the
flags / subscription / configuration after every message with the specification's state.

Differences are (signature, detail) pairs:
  C17/<Clause>/<fmt>:<kind>    Lost, Duplicated, Reordered, FileUnreadable, NotFinal   (property C17)
  CTL/<Clause>/<kind>[:<var>]  control protocol differences (Delivery, Replies, Flags, Subs, Config, Meta, Recordings, Path,
                               Extra, Crash, NoCrash, NoExit, ThreadLeft) -- outside the listed properties: drift notes
Harness problems raise HarnessError.
"""
from __future__ import annotations

import ast
import inspect
import json
import logging
import os
import shutil
import sys
import tempfile
import textwrap
import threading as _rt
from typing import Any, Dict, List, Optional, Tuple

SRC = os.environ.get("LOGGERCTL_SRC") or (os.environ.get("VF_REPO", "/repo") + "/src")
if os.path.realpath(SRC) != "/repo/src":
    # a scratch copy of the package (mutation sanity check): make sure that copy is the one imported
    for _k in [k for k in sys.modules if k == "pyrtma" or k.startswith("pyrtma.")]:
        del sys.modules[_k]
    sys.path[:] = [p for p in sys.path if os.path.realpath(p) != "/repo/src"]
if SRC not in sys.path:
    sys.path.insert(0, SRC)

POLL = 0.002
_counter = [0]


class HarnessError(Exception):
    pass


class _Stop(BaseException):
    """raised inside read_message to get out of a run() that does not end by itself (never a DataLoggerError, never caught)"""


# ------------------------------------------------------------------------------------------------------------
class _FastEvent:
    """threading.Event whose wait(timeout) gives up after POLL seconds at most (same return value contract)"""

    def __init__(self):
        self._e = _rt.Event()

    def set(self):
        self._e.set()

    def clear(self):
        self._e.clear()

    def is_set(self):
        return self._e.is_set()

    isSet = is_set

    def wait(self, timeout=None):
        if timeout is None:
            if not self._e.wait(20.0):
                raise HarnessError("wait() without timeout never satisfied")
            return True
        return self._e.wait(min(timeout, POLL))


class _Threading:
    """stands in for the name `threading` inside pyrtma.data_logger.data_collection"""

    def __init__(self, stand: "Stand"):
        self._st = stand

    def Event(self):
        return _FastEvent()

    def Thread(self, *a, **kw):
        t = _rt.Thread(*a, **kw)
        t.daemon = True
        self._st.threads.append((t, kw.get("target")))
        return t

    def __getattr__(self, k):
        return getattr(_rt, k)


# ------------------------------------------------------------------------------------------------------------
def _init_attributes(dlmod, DataLogger) -> List[Tuple[str, Any]]:
    """(name, compiled expression) for every `self.<name> = <expr>` of DataLogger.__init__ that does not touch self.mod"""
    src = textwrap.dedent(inspect.getsource(DataLogger.__init__))
    fn = ast.parse(src).body[0]
    out = []
    for st in fn.body:
        if isinstance(st, ast.Assign) and len(st.targets) == 1:
            tgt, val = st.targets[0], st.value
        elif isinstance(st, ast.AnnAssign) and st.value is not None:
            tgt, val = st.target, st.value
        else:
            continue
        if not (isinstance(tgt, ast.Attribute) and isinstance(tgt.value, ast.Name) and tgt.value.id == "self"):
            continue
        if tgt.attr == "mod" or any(isinstance(x, ast.Name) and x.id == "self" for x in ast.walk(val)):
            continue
        out.append((tgt.attr, compile(ast.Expression(val), "<DataLogger.__init__>", "eval")))
    names = [a for a, _ in out]
    for need in ("ctrl_msg_types", "collection", "_recording", "_paused", "_running"):
        if need not in names:
            raise HarnessError(f"DataLogger.__init__ no longer sets self.{need}")
    return out


class Stand:
    def __init__(self, beh: Dict[str, Any]):
        import pyrtma
        import pyrtma.core_defs as cd
        import pyrtma.data_logger  # noqa: F401  registers the formatters
        from pyrtma.data_logger import data_collection as dcmod
        from pyrtma.data_logger import data_logger as dlmod

        self.pyrtma, self.cd, self.dcmod, self.dlmod = pyrtma, cd, dcmod, dlmod
        self.beh = beh
        self.DS = beh["ds"]
        self.CV = beh["cv"]
        self.threads: List[Tuple[_rt.Thread, Any]] = []
        self.steps: List[Dict[str, Any]] = []
        self.cur: Optional[Dict[str, Any]] = None
        self.started: List[Dict[str, Any]] = []      # one entry per DATA_COLLECTION_STARTED: paths, snapshot at SAVED
        self.msgs: Dict[int, Tuple[str, bytes, bytes, Any]] = {}
        self.crash: Optional[BaseException] = None
        self.noexit: Optional[str] = None
        self.dir = tempfile.mkdtemp(prefix="lctl_")
        self.out = os.path.join(self.dir, "out")
        os.mkdir(self.out)
        os.mkdir(os.path.join(self.dir, "tmp"))
        self._saved = (dcmod.threading, tempfile.tempdir)
        self._lg = logging.getLogger("data_logger")
        self._lg_saved = (self._lg.level, self._lg.propagate)
        self._lg.setLevel(1000)
        self._lg.propagate = False
        dcmod.threading = _Threading(self)
        tempfile.tempdir = os.path.join(self.dir, "tmp")   # the quicklogger formatter parks data blocks in a NamedTemporaryFile
        self.client = None
        self.dl = None
        try:
            self.types = {"T1": cd.MDF_MODULE_READY, "T2": cd.MDF_DATA_LOG_TEST_2048}
            self.script = self._build_script()
            self.client = _make_client(self)
            DataLogger = dlmod.DataLogger
            dl = DataLogger.__new__(DataLogger)
            dl.mod = self.client
            ns = dict(vars(dlmod))
            for name, code in _init_attributes(dlmod, DataLogger):
                setattr(dl, name, eval(code, ns))      # noqa: S307 - expressions of the package's own __init__
            self.dl = dl
            self.client.subscribe(dl.ctrl_msg_types)   # what __init__ does after connecting
        except BaseException:
            self.restore()
            raise

    # ---------------------------------------------------------------------------------------------------
    def restore(self):
        try:
            left = []
            for t, target in self.threads:
                t.join(2.0)
                if t.is_alive():
                    left.append(t)
                    owner = getattr(target, "__self__", None)
                    if owner is not None:
                        owner._close = True
                    t.join(2.0)
            self.left = len(left)
            dl = self.dl
            col = getattr(dl, "collection", None) if dl is not None else None
            if col is not None:
                col._dead = True
                for ds in getattr(col, "datasets", []):
                    try:
                        ds.close()
                    except Exception:  # noqa: BLE001
                        pass
            if self.client is not None:
                self.client._connected = False
        finally:
            self.dcmod.threading, tempfile.tempdir = self._saved
            self._lg.setLevel(self._lg_saved[0])
            self._lg.propagate = self._lg_saved[1]
            shutil.rmtree(self.dir, ignore_errors=True)

    # ---------------------------------------------------------------------------------------------------
    def _header(self, cls, serial: int, dest: int = 0):
        from pyrtma.header import MessageHeader
        hdr = MessageHeader()
        hdr.msg_type = cls.type_id
        hdr.msg_count = serial
        hdr.send_time = 2000.0 + serial
        hdr.recv_time = 2000.5 + serial
        hdr.src_host_id = 0
        hdr.src_mod_id = 10 + (serial % 5)
        hdr.dest_host_id = 0
        hdr.dest_mod_id = dest
        hdr.num_data_bytes = cls.type_size
        hdr.version = cls.type_hash
        return hdr

    def _fill_set(self, d, tpl: str):
        cd = self.cd
        t = self.DS[tpl]
        d.name = t["name"]
        d.sub_dir_fmt = ""
        d.file_name_fmt = t["name"]
        d.formatter = t["fmt"]
        d.subdivide_interval = 0
        d.msg_types[0] = cd.ALL_MESSAGE_TYPES if t["sel"] == "ALL" else self.types[t["sel"]].type_id

    def _build_script(self) -> List[Dict[str, Any]]:
        cd = self.cd
        simple = {"START": cd.MDF_DATA_LOGGER_START, "STOP": cd.MDF_DATA_LOGGER_STOP, "PAUSE": cd.MDF_DATA_LOGGER_PAUSE,
                  "RESUME": cd.MDF_DATA_LOGGER_RESUME, "RESET": cd.MDF_DATA_LOGGER_RESET, "STATUS_REQ": cd.MDF_DATA_LOGGER_STATUS_REQUEST,
                  "CONFIG_REQ": cd.MDF_DATA_COLLECTION_CONFIG_REQUEST, "META_REQ": cd.MDF_DATA_LOGGER_METADATA_REQUEST}
        script = []
        colname = "none"
        for st in self.beh["steps"]:
            i, k, v = st["i"], st["k"], st["v"]
            dest = 0
            if k in simple:
                data = simple[k]()
            elif k == "ADDC":
                cv = self.CV[v]
                data = cd.MDF_ADD_DATA_COLLECTION()
                colname = f"col{i}"
                data.collection.name = colname
                data.collection.base_path = self.out if cv["path"] else os.path.join(self.dir, "no_such_dir")
                data.collection.dir_fmt = "rec_$(run)" if cv["naming"] == "run" else "rec"
                for j, tpl in enumerate(cv["sets"]):
                    self._fill_set(data.collection.data_sets[j], tpl)
                data.collection.num_data_sets = len(cv["sets"]) + (1 if cv["over"] else 0)
            elif k == "ADDS":
                data = cd.MDF_ADD_DATA_SET()
                data.collection_name = "some_other_collection" if v == "wrongcoll" else colname
                self._fill_set(data.data_set, "h" if v == "wrongcoll" else v)
            elif k == "RMC":
                data = cd.MDF_REMOVE_DATA_COLLECTION()
                data.collection_name = colname
            elif k == "RMS":
                data = cd.MDF_REMOVE_DATA_SET()
                data.collection_name = colname
                data.name = v
            elif k == "META_UPD":
                data = cd.MDF_DATA_LOGGER_METADATA_UPDATE()
                data.json = {"r1": '{"run": 1}', "r2": '{"run": 2}', "badjson": '{"run": ', "nonobject": "[1, 2]"}[v]
            elif k == "EXIT":
                data = cd.MDF_EXIT()
                dest = cd.MID_DATA_LOGGER if v == "me" else 33
            elif k == "DATA":
                data = self.types[v]()
                if v == "T1":
                    data.pid = 1000 + i
                else:
                    data.raw = f"payload of message {i} " * 3
            elif k in ("NONE", "UNK"):
                script.append({"i": i, "k": k, "v": v, "msg": None, "type_id": None})
                continue
            else:
                raise HarnessError(f"unknown message kind {k}")
            m = self.pyrtma.Message(self._header(type(data), i, dest), data)
            self.msgs[i] = (k, bytes(m.header), bytes(m.data), m)
            script.append({"i": i, "k": k, "v": v, "msg": m, "type_id": type(data).type_id})
        if not script or script[-1]["k"] != "EXIT" or script[-1]["v"] != "me":
            if not self.beh.get("observe") and not (self.beh["steps"] and self.beh["steps"][-1].get("crash")):
                raise HarnessError("behaviour does not end with EXIT to the logger")
            # the specification says run() is left by an exception at the last step: a closing EXIT keeps a logger that survives
            # that step from waiting forever
            i = len(script) + 1
            data = cd.MDF_EXIT()
            m = self.pyrtma.Message(self._header(type(data), i, cd.MID_DATA_LOGGER), data)
            self.msgs[i] = ("EXIT", bytes(m.header), bytes(m.data), m)
            script.append({"i": i, "k": "EXIT", "v": "me", "msg": m, "type_id": type(data).type_id, "extra": True})
        return script

    # ---------------------------------------------------------------------------------------------------
    def abstract_subs(self) -> List[str]:
        cd = self.cd
        subs = set(self.client.hub_subs)
        ctrl = set(self.dl.ctrl_msg_types)
        if subs == {cd.ALL_MESSAGE_TYPES}:
            return ["ALL"]
        if subs == ctrl:
            return ["ctrl"]
        if not subs:
            return []
        return ["other:" + ",".join(str(x) for x in sorted(subs))]

    def snapshot(self) -> Dict[str, Any]:
        dl = self.dl
        col = dl.collection
        cd = self.cd
        rev = {c.type_id: k for k, c in self.types.items()}
        sets = []
        if col is not None:
            for ds in col.datasets:
                sel = "ALL" if ds.all_sub else ",".join(rev.get(t, str(t)) for t in ds.msg_types)
                sets.append({"name": ds.name, "fmt": ds.formatter_cls.name, "sel": sel})
        return {"rec": bool(dl._recording), "paused": bool(dl._paused), "has": col is not None,
                "crec": bool(col._recording) if col is not None else False,
                "cpaused": bool(col._paused) if col is not None else False,
                "subs": self.abstract_subs(), "sets": sets, "meta": dl.metadata._metadata.get("run", 0), "nrec": len(self.started),
                "client_sub_all": (not self.client._connected) or bool(self.client._sub_all) == (cd.ALL_MESSAGE_TYPES in self.client.hub_subs)}

    def open_step(self, item, deliv: bool):
        self.cur = {"i": item["i"], "k": item["k"], "v": item["v"], "deliv": deliv, "replies": [], "extra": bool(item.get("extra"))}
        self.steps.append(self.cur)

    def close_step(self):
        if self.cur is not None and "after" not in self.cur:
            self.cur["after"] = self.snapshot()

    def sent(self, rec: Dict[str, Any]):
        if self.cur is None:
            raise HarnessError(f"the logger sent {rec} before reading any message")
        self.cur["replies"].append(rec)

    def on_started(self, info):
        self.started.append({"paths": info, "saved": None})

    def on_saved(self):
        if not self.started:
            return
        cur = self.started[-1]
        snap = {}
        for name, fmt, path in cur["paths"]:
            try:
                snap[path] = open(path, "rb").read()
            except OSError:
                snap[path] = None
        cur["saved"] = snap

    # ---------------------------------------------------------------------------------------------------
    def run(self) -> Dict[str, Any]:
        try:
            self.dl.run()
        except _Stop as e:
            self.noexit = str(e)
        except HarnessError:
            raise
        except BaseException as e:  # noqa: BLE001 - whatever the code under test lets out of run()
            self.crash = e
        self.close_step()
        final = {"running": bool(self.dl._running), "connected": bool(self.client._connected)}
        files = self.read_back()
        return {"steps": self.steps, "crash": type(self.crash).__name__ if self.crash is not None else "",
                "crash_msg": str(self.crash) if self.crash is not None else "", "noexit": self.noexit, "final": final, "files": files}

    # ---------------------------------------------------------------------------------------------------
    def read_back(self) -> List[Dict[str, Any]]:
        """per recording (= per DATA_COLLECTION_STARTED): [{name, fmt, path, ids | error, final (bytes equal to SAVED-time bytes)}]"""
        out = []
        for r in self.started:
            sets = []
            for name, fmt, path in r["paths"]:
                e: Dict[str, Any] = {"name": name, "fmt": fmt, "path": os.path.relpath(path, self.out)}
                try:
                    e["ids"] = getattr(self, "_read_" + fmt)(path)
                except Exception as ex:  # noqa: BLE001 - whatever the package's reader raises
                    e["ids"] = None
                    e["error"] = f"{type(ex).__name__}: {ex}"[:200]
                try:
                    now = open(path, "rb").read()
                except OSError:
                    now = None
                e["size"] = len(now) if now is not None else -1
                if r["saved"] is None:
                    e["final"] = None           # no DATA_COLLECTION_SAVED for this recording at all
                else:
                    e["final"] = r["saved"].get(path) == now
                    if not e["final"]:
                        was = r["saved"].get(path)
                        e["saved_size"] = len(was) if was is not None else -1
                sets.append(e)
            out.append({"sets": sets, "saved": r["saved"] is not None})
        return out

    def _same(self, serial: int, hdr: bytes, data: Optional[bytes]):
        if serial not in self.msgs:
            raise ValueError(f"unknown serial {serial}")
        _, h, d, _ = self.msgs[serial]
        if hdr != h or (data is not None and data != d):
            raise ValueError(f"bytes of message {serial} differ")

    def _read_raw(self, path: str) -> List[int]:
        import ctypes
        from pyrtma.header import MessageHeader

        b = open(path, "rb").read()
        hs = ctypes.sizeof(MessageHeader)
        pos, out = 0, []
        while pos < len(b):
            if pos + hs > len(b):
                raise ValueError("truncated header")
            h = MessageHeader.from_buffer_copy(b[pos:pos + hs])
            n = h.num_data_bytes
            if n < 0 or pos + hs + n > len(b):
                raise ValueError("truncated payload")
            self._same(h.msg_count, b[pos:pos + hs], b[pos + hs:pos + hs + n])
            out.append(h.msg_count)
            pos += hs + n
        return out

    def _read_json(self, path: str) -> List[int]:
        out = []
        with open(path, "rt") as f:
            for line in f:
                m = self.pyrtma.Message.from_json(line)
                self._same(m.header.msg_count, bytes(m.header), bytes(m.data))
                out.append(m.header.msg_count)
        return out

    def _read_quicklogger(self, path: str) -> List[int]:
        from pyrtma.utils.quicklogger_reader import QLReader

        _counter[0] += 1
        modname = f"lctldefs_{os.getpid()}_{_counter[0]}"
        defs = os.path.join(self.dir, modname + ".py")
        open(defs, "w").write("# message definitions for the read-back: the core definitions only\n")
        path0 = list(sys.path)
        try:
            r = QLReader()
            r.load(path, defs, skip_unknown=False)
        finally:
            sys.path[:] = path0
            sys.modules.pop(modname, None)
        if r.file_header.num_messages != len(r.headers) or len(r.headers) != len(r.data) or len(r.messages) != len(r.headers):
            raise ValueError("header count mismatch")
        out = []
        for h, d, m in zip(r.headers, r.data, r.messages):
            self._same(h.msg_count, bytes(h), bytes(d))
            if bytes(m.header) != bytes(h) or bytes(m.data) != bytes(d):
                raise ValueError("messages differ from headers/data")
            out.append(h.msg_count)
        return out

    def _read_msg_header(self, path: str) -> List[int]:
        from pyrtma.header import MessageHeader

        out = []
        with open(path, "rt") as f:
            lines = f.read().split("\n")
        if lines and lines[-1] == "":
            lines.pop()
        if not lines:
            raise ValueError("no column line")
        cols = lines[0].split(",")
        if cols != list(MessageHeader().to_dict().keys()):
            raise ValueError("column line")
        for ln in lines[1:]:
            vals = ln.split(",")
            if vals and vals[-1] == "":
                vals.pop()
            if len(vals) != len(cols):
                raise ValueError("row width")
            serial = int(dict(zip(cols, vals))["msg_count"])
            if serial not in self.msgs:
                raise ValueError(f"unknown serial {serial}")
            want = [str(x) for x in self.msgs[serial][3].header.to_dict().values()]
            if vals != want:
                raise ValueError(f"row of message {serial} differs")
            out.append(serial)
        return out


# ------------------------------------------------------------------------------------------------------------
def _make_client(stand: Stand):
    pyrtma, cd = stand.pyrtma, stand.cd
    from pyrtma.exceptions import UnknownMessageType

    LOG_TYPES = {cd.MT_RTMA_LOG, cd.MT_RTMA_LOG_CRITICAL, cd.MT_RTMA_LOG_ERROR, cd.MT_RTMA_LOG_WARNING, cd.MT_RTMA_LOG_INFO, cd.MT_RTMA_LOG_DEBUG}
    ALL = cd.ALL_MESSAGE_TYPES

    class ScriptedClient(pyrtma.Client):
        def __init__(self):
            super().__init__(module_id=cd.MID_DATA_LOGGER, name="data_logger")
            try:
                self._sock.close()
            except Exception:  # noqa: BLE001
                pass
            self._connected = True
            self.logger.set_all_levels(1000)
            self.hub_subs: set = set()
            self.pos = 0
            self.calls = 0

        # ---- the hub's side of the subscription (manager.add_subscription / remove_subscription)
        def _hub_add(self, t: int):
            if t == ALL:
                self.hub_subs.clear()
                self.hub_subs.add(ALL)
            elif ALL not in self.hub_subs:
                self.hub_subs.add(t)

        def _hub_remove(self, t: int):
            if t == ALL:
                self.hub_subs.clear()
            elif ALL not in self.hub_subs:
                self.hub_subs.discard(t)

        def _forwarded(self, type_id: int) -> bool:
            return type_id in self.hub_subs or ALL in self.hub_subs

        # ---- transport
        def send_message(self, msg_data, dest_mod_id: int = 0, dest_host_id: int = 0, timeout: float = -1):
            t = msg_data.type_id
            if t in (cd.MT_SUBSCRIBE, cd.MT_RESUME_SUBSCRIPTION):
                self._hub_add(int(msg_data.msg_type))
                return
            if t in (cd.MT_UNSUBSCRIBE, cd.MT_PAUSE_SUBSCRIPTION):
                self._hub_remove(int(msg_data.msg_type))
                return
            if t in LOG_TYPES:
                return
            if t == cd.MT_DATA_LOGGER_STATUS:
                stand.sent({"t": "STATUS", "rec": bool(msg_data.is_recording), "paused": bool(msg_data.is_paused)})
            elif t in (cd.MT_DATA_COLLECTION_STARTED, cd.MT_DATA_COLLECTION_STOPPED):
                c = msg_data.collection
                k = int(c.num_data_sets)
                sets = [{"name": c.data_sets[j].name, "fmt": c.data_sets[j].formatter} for j in range(k)]
                if t == cd.MT_DATA_COLLECTION_STARTED:
                    stand.on_started([(c.data_sets[j].name, c.data_sets[j].formatter, c.data_sets[j].save_path) for j in range(k)])
                    stand.sent({"t": "STARTED", "sets": sets})
                else:
                    stand.sent({"t": "STOPPED", "sets": sets})
            elif t == cd.MT_DATA_COLLECTION_CONFIG:
                c = msg_data.collection
                k = int(c.num_data_sets)
                rev = {cls.type_id: name for name, cls in stand.types.items()}
                sets = []
                for j in range(k):
                    mt = [int(x) for x in c.data_sets[j].msg_types if int(x) != 0]
                    sel = "ALL" if ALL in mt else ",".join(rev.get(x, str(x)) for x in mt)
                    sets.append({"name": c.data_sets[j].name, "fmt": c.data_sets[j].formatter, "sel": sel})
                stand.sent({"t": "CONFIG", "has": c.name != "", "sets": sets})
            elif t == cd.MT_DATA_LOGGER_METADATA:
                try:
                    run = json.loads(msg_data.json).get("run", 0)
                except Exception as e:  # noqa: BLE001
                    run = f"unparsable:{type(e).__name__}"
                stand.sent({"t": "METADATA", "run": run})
            elif t == cd.MT_DATA_LOGGER_ERROR:
                stand.sent({"t": "ERROR", "exc": msg_data.msg.split(":")[0]})
            else:
                stand.sent({"t": f"MT{t}"})

        def send_signal(self, signal_type: int, dest_mod_id: int = 0, dest_host_id: int = 0, timeout: float = -1):
            if signal_type == cd.MT_DATA_COLLECTION_SAVED:
                stand.on_saved()
                stand.sent({"t": "SAVED"})
            else:
                stand.sent({"t": f"MT{signal_type}"})

        def read_message(self, timeout=-1, ack=False, sync_check=False):
            self.calls += 1
            if self.calls > len(stand.script) + 8:
                raise _Stop("read_message call limit")
            stand.close_step()
            while self.pos < len(stand.script):
                item = stand.script[self.pos]
                self.pos += 1
                if item["k"] == "NONE":
                    stand.open_step(item, True)
                    return None
                if item["k"] == "UNK":
                    if ALL in self.hub_subs:
                        stand.open_step(item, True)
                        raise UnknownMessageType("There is no message definition associated with id: 4999")
                    stand.open_step(item, False)
                    stand.close_step()
                    continue
                if not self._forwarded(item["type_id"]):
                    stand.open_step(item, False)
                    stand.close_step()
                    continue
                stand.open_step(item, True)
                return item["msg"]
            stand.cur = None
            raise _Stop("script exhausted: run() is still reading after the closing EXIT")

        def disconnect(self):
            stand.sent({"t": "DISCONNECT"})
            self._connected = False
            self._subscribed_types = set()
            self._paused_types = set()
            self._sub_all = False

    return ScriptedClient()


# ------------------------------------------------------------------------------------------------------------
def _tag(st: Dict[str, Any]) -> str:
    return st["k"] + (":" + st["v"] if st.get("v") else "")


def _script_text(beh: Dict[str, Any]) -> str:
    return " ".join(_tag(s) for s in beh["steps"])


def judge(beh: Dict[str, Any], res: Dict[str, Any]) -> List[Tuple[str, str]]:
    out: List[Tuple[str, str]] = []
    spec_steps = beh["steps"]
    real_steps = [s for s in res["steps"] if not s.get("extra")]
    script = _script_text(beh)
    spec_crash = spec_steps[-1]["crash"] if spec_steps else ""

    # ---- the control protocol, step by step, first difference only
    def first_difference():
        for idx, sp in enumerate(spec_steps):
            if idx >= len(real_steps):
                return ("Steps", sp, f"the logger stopped reading after message {idx} of {len(spec_steps)}")
            rl = real_steps[idx]
            if rl["deliv"] != sp["deliv"]:
                return ("Delivery", sp, f"delivered: code {rl['deliv']}, spec {sp['deliv']}")
            if rl["replies"] != sp["exp"]:
                return ("Replies", sp, f"code {json.dumps(rl['replies'])} spec {json.dumps(sp['exp'])}")
            a = rl.get("after") or {}
            for clause, keys in (("Flags", ("rec", "paused", "has", "crec", "cpaused")), ("Subs", ("subs",)), ("Config", ("sets",)), ("Meta", ("meta",)),
                                 ("Recordings", ("nrec",))):
                for key in keys:
                    want = sorted(sp[key]) if key == "subs" else sp[key]
                    got = sorted(a.get(key)) if key == "subs" and a.get(key) is not None else a.get(key)
                    if got != want:
                        return (clause, sp, f"{key}: code {json.dumps(got)} spec {json.dumps(want)}")
            if a.get("client_sub_all") is False:
                return ("Subs", sp, "client._sub_all and the hub's view of ALL_MESSAGE_TYPES differ")
        return None

    d = first_difference()
    if d is not None:
        clause, sp, detail = d
        out.append((f"CTL/{clause}/{_tag(sp)}", f"message {sp['i']} of [{script}]: {detail}"))
    if res["crash"]:
        at = res["steps"][-1] if res["steps"] else {"k": "?", "v": ""}
        known = " (as specified: LoggerCtl models this escape)" if res["crash"] == spec_crash else " (NOT in the specification)"
        out.append((f"CTL/Crash/{res['crash']}:{_tag(at)}", f"{res['crash']}({res['crash_msg'][:120]}) left run() at message {at.get('i')} of [{script}]{known}"))
    elif spec_crash:
        out.append((f"CTL/NoCrash/{_tag(spec_steps[-1])}", f"spec expects {spec_crash} to leave run() at the last message of [{script}]"))
    if res["noexit"]:
        out.append((f"CTL/NoExit/{_tag(spec_steps[-1])}", f"{res['noexit']} [{script}]"))
    if res["final"]["running"] or res["final"]["connected"]:
        out.append(("CTL/Flags/final", f"after run(): {res['final']} [{script}]"))
    if res.get("left"):
        out.append(("CTL/ThreadLeft/final", f"{res['left']} writer thread(s) alive after run() [{script}]"))

    # ---- content, per recording and data set
    DS = beh["ds"]
    kinds = {s["i"]: _tag(s) for s in spec_steps}
    recs = beh["recs"]
    files = res["files"]
    if len(files) != len(recs) and d is None:
        out.append(("CTL/Recordings/final", f"code made {len(files)} recordings, spec {len(recs)} [{script}]"))
    for r in range(min(len(recs), len(files))):
        rec = recs[r]
        want_dir = "rec" if rec["dir"] == 0 else f"rec_{rec['dir']}"
        if len(files[r]["sets"]) != len(rec["sets"]):
            out.append((f"CTL/Recordings/sets", f"recording {r + 1}: code has {len(files[r]['sets'])} data sets, spec {len(rec['sets'])} [{script}]"))
            continue
        for j, tpl in enumerate(rec["sets"]):
            t = DS[tpl]
            f = files[r]["sets"][j]
            ctx = f"recording {r + 1} data set {t['name']} ({t['fmt']}, selects {t['sel']}) file {f['path']} of [{script}]"
            if f["name"] != t["name"] or f["fmt"] != t["fmt"]:
                out.append((f"CTL/Recordings/sets", f"{ctx}: code announces {f['name']}/{f['fmt']}"))
                continue
            ext = {"raw": ".raw", "json": ".json", "quicklogger": ".bin", "msg_header": ".csv"}[t["fmt"]]
            if f["path"] != os.path.join(want_dir, t["name"] + ext):
                out.append((f"CTL/Path/{t['fmt']}", f"{ctx}: spec expects {want_dir}/{t['name']}{ext}"))
            exp = [e["i"] for e in rec["log"] if t["sel"] == "ALL" or e["c"] == t["sel"]]
            if f["ids"] is None:
                out.append((f"C17/FileUnreadable/{t['fmt']}:{f['error'].split(':')[0]}", f"{ctx}: {f['error']}; expected messages {exp}"))
                continue
            obs = f["ids"]
            if f["final"] is False:
                out.append((f"C17/NotFinal/{t['fmt']}", f"{ctx}: the file changed after DATA_COLLECTION_SAVED ({f.get('saved_size')} -> {f['size']} bytes); content now {obs}"))
            elif f["final"] is None and not rec["open"]:
                out.append((f"C17/NotFinal/{t['fmt']}", f"{ctx}: the recording was never reported SAVED; content {obs}, expected {exp}"))
            lost = [i for i in exp if i not in obs]
            if lost:
                out.append((f"C17/Lost/{t['fmt']}:{kinds.get(lost[0], '?')}", f"{ctx}: expected {exp}, file has {obs}: lost {lost}"))
            dup = sorted({i for i in obs if obs.count(i) > 1})
            if dup:
                out.append((f"C17/Duplicated/{t['fmt']}:{kinds.get(dup[0], '?')}", f"{ctx}: expected {exp}, file has {obs}: more than once {dup}"))
            core = []
            for i in obs:
                if i in exp and i not in core:
                    core.append(i)
            if core != [i for i in exp if i in core]:
                out.append((f"C17/Reordered/{t['fmt']}:{kinds.get(core[0], '?')}", f"{ctx}: expected {exp}, file has {obs}"))
            extra = [i for i in obs if i not in exp]
            if extra:
                out.append((f"CTL/Extra/{t['fmt']}:{kinds.get(extra[0], '?')}", f"{ctx}: expected {exp}, file has {obs}: not expected {extra}"))
    # exactly once over ALL recordings: a message of one recording showing up in another one's file of the same data set
    seen: Dict[Tuple[str, str, int], int] = {}
    for r, fr in enumerate(files):
        for f in fr["sets"]:
            for i in set(f["ids"] or []):
                key = (f["name"], f["fmt"], i)
                if key in seen and seen[key] != r:
                    out.append((f"C17/Duplicated/{f['fmt']}:{kinds.get(i, '?')}", f"message {i} is in recordings {seen[key] + 1} and {r + 1} of data set {f['name']} [{script}]"))
                seen.setdefault(key, r)
    return out


def replay(beh: Dict[str, Any]) -> Dict[str, Any]:
    """run one exported behaviour on the real DataLogger -> {"res": <observations>, "verdicts": [(sig, detail)]}"""
    st = Stand(beh)
    try:
        res = st.run()
    finally:
        st.restore()
    res["left"] = getattr(st, "left", 0)
    return {"res": res, "verdicts": judge(beh, res)}


def observe(script: List[str], tables: Dict[str, Any]) -> Dict[str, Any]:
    """run a hand-written script (["ADDC:two", "START", ...]; a closing EXIT is added) on the real DataLogger and return what
    it did -- no expectations, for reproducing a finding.  tables: any exported behaviour (for its "ds" / "cv" tables)."""
    steps = []
    for i, it in enumerate(script, start=1):
        k, _, v = it.partition(":")
        steps.append({"i": i, "k": k, "v": v})
    st = Stand({"steps": steps, "ds": tables["ds"], "cv": tables["cv"], "recs": [], "observe": True})
    try:
        res = st.run()
    finally:
        st.restore()
    res["left"] = getattr(st, "left", 0)
    return res
