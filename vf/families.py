"""families -- the model-checking configurations of spec/MC_*.tla, one source of truth.

A family fixes the cast, the frame alphabet and the bounds of one closed system built from
MCBase.tla.  `render(name, tier, gen)` writes a TLC .cfg file and returns its path.
"""
from __future__ import annotations

import os
import tempfile
from typing import Any, Dict, List

REAL = dict(MaxModules=200, DynStart=100, MaxHosts=5, MaxMsgTypes=10000, TrafficChunk=64, MaxActive=256)

FAMILIES: Dict[str, Dict[str, Any]] = {
    "Routing": {
        "module": "MC_Routing",
        "const": dict(REAL, TimingOn="TRUE", Modes='{"deferred"}', Conns='{"a", "b", "c"}',
                      MaxQ=1, MaxDeaths=1, MaxEnv=3, TickSteps="{}", MaxNow=0, AllowOpen="FALSE",
                      AllowFin="TRUE", AllowRst="FALSE", GenDepth=100, AnyW="TRUE"),
        "subst": {"Setup": "RSetup", "Alpha": "RAlpha"},
        "quick": dict(MaxEnv=2),
        "gen": dict(MaxEnv=6, MaxQ=2),
        "invariants": ["IUniqueIds"],
        "properties": ["PRoutingExact", "PSeqGapFree", "PNoTrace", "PClosedAtMostOnce", "POneClosedNotice",
                       "PFailureReported", "PNoNoticeForNotices", "PLoggerWaitedFor", "PAckExactlyOnce",
                       "PAckAddressed", "PAckCopiedToLoggers", "PNoAckOtherwise"],
    },
    "Failures": {
        "module": "MC_Failures",
        "const": dict(REAL, TimingOn="TRUE", Modes='{"deferred", "detach"}', Conns='{"a", "b", "c", "d"}',
                      MaxQ=1, MaxDeaths=2, MaxEnv=2, TickSteps="{}", MaxNow=0, AllowOpen="FALSE",
                      AllowFin="TRUE", AllowRst="FALSE", GenDepth=100, AnyW="TRUE"),
        "subst": {"Setup": "FSetup", "Alpha": "FAlpha"},
        "quick": dict(MaxEnv=1),
        "gen": dict(MaxEnv=4, MaxQ=1),
        "invariants": ["IUniqueIds"],
        "properties": ["PRoutingExact", "PSeqGapFree", "PNoTrace", "PClosedAtMostOnce", "POneClosedNotice",
                       "PFailureReported", "PNoNoticeForNotices", "PLoggerWaitedFor", "PAckExactlyOnce",
                       "PAckAddressed", "PAckCopiedToLoggers", "PNoAckOtherwise"],
    },
    "FailuresDeferred": {
        "module": "MC_Failures",
        "const": dict(REAL, TimingOn="TRUE", Modes='{"deferred", "detach"}', Conns='{"a", "b", "c", "d"}',
                      MaxQ=1, MaxDeaths=2, MaxEnv=2, TickSteps="{}", MaxNow=0, AllowOpen="FALSE",
                      AllowFin="TRUE", AllowRst="FALSE", GenDepth=100, AnyW="TRUE"),
        "subst": {"Setup": "FSetup", "Alpha": "FAlpha"},
        "quick": dict(MaxEnv=1),
        "gen": dict(MaxEnv=4, MaxQ=1),
        "invariants": [],
        "properties": ["PTotalOrder", "PRoutingExact", "PFailureReported", "POneClosedNotice"],
    },
    "Stats": {
        "module": "MC_Stats",
        "spec": "SSpec",
        "const": dict(MaxModules=200, DynStart=100, MaxHosts=5, MaxMsgTypes=4, TrafficChunk=2, MaxActive=256,
                      TimingOn="TRUE", Modes='{"deferred"}', Conns='{"a", "m"}',
                      MaxQ=2, MaxDeaths=0, MaxEnv=4, TickSteps="{1, 2, 3}", MaxNow=7, AllowOpen="FALSE",
                      AllowFin="FALSE", AllowRst="FALSE", GenDepth=100, AnyW="FALSE"),
        "subst": {"Setup": "SSetup", "Alpha": "SAlpha"},
        "quick": dict(MaxEnv=3, MaxNow=5),
        "gen": dict(REAL, MaxEnv=8, MaxNow=24, TickSteps="{1, 2, 3, 11}"),
        "invariants": [],
        "properties": ["PTimingExact", "PTrafficPartition", "PSeqGapFree"],
    },
    "StatsNoTiming": {      # the manager started with send_msg_timing=False (-T): no TIMING_MESSAGE, MESSAGE_TRAFFIC unchanged
        "module": "MC_Stats",
        "spec": "SSpec",
        "const": dict(MaxModules=200, DynStart=100, MaxHosts=5, MaxMsgTypes=4, TrafficChunk=2, MaxActive=256,
                      TimingOn="FALSE", Modes='{"deferred"}', Conns='{"a", "m"}',
                      MaxQ=2, MaxDeaths=0, MaxEnv=4, TickSteps="{1, 2, 3}", MaxNow=7, AllowOpen="FALSE",
                      AllowFin="FALSE", AllowRst="FALSE", GenDepth=100, AnyW="FALSE"),
        "subst": {"Setup": "SSetup", "Alpha": "SAlpha"},
        "quick": dict(MaxEnv=3, MaxNow=5),
        "gen": dict(REAL, MaxEnv=8, MaxNow=24, TickSteps="{1, 2, 3, 11}"),
        "invariants": [],
        "properties": ["PTimingExact", "PTrafficPartition", "PSeqGapFree"],
    },
    "Hostile": {
        "module": "MC_Hostile",
        "const": dict(REAL, TimingOn="TRUE", Modes='{"deferred"}', Conns='{"a", "s", "h"}',
                      MaxQ=2, MaxDeaths=1, MaxEnv=4, TickSteps="{}", MaxNow=0, AllowOpen="FALSE",
                      AllowFin="TRUE", AllowRst="TRUE", GenDepth=100, AnyW="FALSE"),
        "subst": {"Setup": "HSetup", "Alpha": "HAlpha"},
        "quick": dict(MaxEnv=3),
        "gen": dict(MaxEnv=6),
        "invariants": ["IUniqueIds", "IProbeServed"],
        "properties": ["PBystanders", "PSeqGapFree"],
    },
    "Identity": {
        "module": "MC_Identity",
        "const": dict(MaxModules=6, DynStart=3, MaxHosts=5, MaxMsgTypes=10000, TrafficChunk=64, MaxActive=256,
                      TimingOn="TRUE", Modes='{"deferred"}', Conns='{"a", "b", "c", "d"}',
                      MaxQ=2, MaxDeaths=0, MaxEnv=4, TickSteps="{}", MaxNow=0, AllowOpen="TRUE",
                      AllowFin="TRUE", AllowRst="TRUE", GenDepth=100, AnyW="FALSE"),
        "subst": {"Setup": "ISetup", "Alpha": "IAlpha"},
        "quick": dict(MaxEnv=3),
        "gen": dict(REAL, MaxEnv=9, MaxQ=2),
        "invariants": ["IUniqueIds", "IIdsValid"],
        "properties": ["PConnectOutcome", "PInfoHonest", "PConnectAck", "PNoAckOtherwise", "PSeqGapFree",
                       "PNoTrace", "PClosedAtMostOnce", "POneClosedNotice", "PReusable"],
    },
}


def render(name: str, tier: str = "thorough", gen: bool = False, extra: Dict[str, Any] = None,
           outdir: str = None) -> str:
    fam = FAMILIES[name]
    c = dict(fam["const"])
    if tier == "quick":
        c.update(fam.get("quick", {}))
    if gen:
        c.update(fam.get("gen", {}))
    if extra:
        c.update(extra)
    c["HistOn"] = "TRUE" if gen else "FALSE"
    lines = ["SPECIFICATION " + fam.get("spec", "Spec"), "CONSTANTS"]
    for k, v in c.items():
        lines.append(f"  {k} = {v}")
    for k, v in fam["subst"].items():
        lines.append(f"  {k} <- {v}")
    if gen:
        lines.append("INVARIANT GenInv")
    for i in fam.get("invariants", []):
        lines.append(f"INVARIANT {i}")
    for p in fam.get("properties", []):
        lines.append(f"PROPERTY {p}")
    lines.append("CHECK_DEADLOCK FALSE")
    outdir = outdir or tempfile.mkdtemp(prefix="cfg_")
    path = os.path.join(outdir, f"{fam['module']}_{tier}{'_gen' if gen else ''}.cfg")
    with open(path, "w") as f:
        f.write("\n".join(lines) + "\n")
    return path
