"""webdrv -- replays behaviours of spec/WebProxy.tla on the REAL RTMAWebSocketHandler (pyrtma/web_manager.py).

Nothing in /repo is edited.  One replay =

  * a real MessageManager on the virtual network of vio (via Hub), its periodic traffic switched off;
  * a second real `pyrtma.Client` (module id PUB_ID) that publishes the "other module" messages;
  * an RTMAWebSocketHandler made with `__new__` and given the attributes socketserver / websocket_server would
    set; its proxy `Client()` talks to the manager over vio; `request` is an in-memory connection, so the REAL
    websocket framing (read_ws_message / send_text) runs in both directions;
  * the REAL `handle()` runs in the calling thread.  The module-level `select` inside pyrtma.web_manager is
    replaced: the select at the top of the message loop *is* the scheduler -- it closes the previous step
    (observes what the handler did, compares with what the behaviour expects), performs environment steps
    (another module publishes) and reports rfile / proxy.sock readable for the next handler step; the zero-timeout
    select of `ws_ready_to_send` answers with the behaviour's "writable" choice.  No thread besides the manager's.

Expectations come from the behaviour (record field "exp", written by the specification).  Differences are verdicts
(signature, detail); machinery problems raise HarnessError.
"""
from __future__ import annotations

import ctypes
import io
import json
import logging
import os
import struct
import sys
import threading
import types
from typing import Any, Dict, List, Optional, Tuple

from .hub import Hub  # noqa: E402  (puts VF_REPO/src on sys.path)

_SRC = os.environ.get("WEBPROXY_SRC")
if _SRC:
    sys.path.insert(0, _SRC)

from . import frames as F  # noqa: E402
from . import vio  # noqa: E402
from .vio import HarnessError, WouldBlock  # noqa: E402

ALL = F.ALL
PUB_ID = 20          # module id of the second real client
WEB_SRC = 55         # src_mod_id the web client writes into the headers of the messages it wants forwarded
WEB_HOST = 3
TYPE = {"T1": 5001, "T2": 5002, "ALL": ALL}
NAME_OF = {5001: "T1", 5002: "T2", ALL: "ALL", 2: "ACK", 8: "FM", 32: "INFO", 33: "CLOSED"}
CTL = {"SUB": 15, "UNSUB": 16, "PAUSE": 85, "RESUME": 86}
CTL_OF = {v: k for k, v in CTL.items()}
MAX_SELECTS = 400
UNKNOWN_TYPE = 5999
FIELD_PRIORITY = ["src_mod_id", "src_host_id", "dest_mod_id", "dest_host_id", "msg_type", "num_data_bytes", "msg_count",
                  "send_time", "recv_time", "remaining_bytes", "is_dynamic", "reserved"]

_defs_cache: Dict[str, Any] = {}


def source_root() -> str:
    import pyrtma
    return os.path.dirname(os.path.dirname(os.path.abspath(pyrtma.__file__)))


def _defs() -> Dict[str, Any]:
    """message definitions of the two data types (written the way the pyrtma compiler writes them)"""
    if _defs_cache:
        return _defs_cache
    import pyrtma
    from pyrtma.message_base import MessageBase, MessageMeta
    from pyrtma.message_data import MessageData
    from pyrtma.validators import Int16, Int32, Uint32, Float, Double, FloatArray, String, Struct, StructArray, ByteArray
    from typing import ClassVar

    class WEB_PT(MessageBase, metaclass=MessageMeta):
        type_name: ClassVar[str] = "WEB_PT"
        type_hash: ClassVar[int] = 0x1A2B3C00
        type_size: ClassVar[int] = 4
        type_source: ClassVar[str] = "webdrv"
        type_def: ClassVar[str] = "'WEB_PT:\n  fields:\n    x: int16\n    y: int16'"
        x: Int16 = Int16()
        y: Int16 = Int16()

    class MDF_WEB_T1(MessageData, metaclass=MessageMeta):
        type_id: ClassVar[int] = 5001
        type_name: ClassVar[str] = "WEB_T1"
        type_hash: ClassVar[int] = 0x1A2B3C01
        type_size: ClassVar[int] = 48
        type_source: ClassVar[str] = "webdrv"
        type_def: ClassVar[str] = "'WEB_T1:\n  id: 5001\n  fields:\n    a: int32\n    x: double[3]\n    name: char[16]'"
        a: Int32 = Int32()
        x: FloatArray[Double] = FloatArray(Double, 3)
        name: String = String(16)

    class MDF_WEB_T2(MessageData, metaclass=MessageMeta):
        type_id: ClassVar[int] = 5002
        type_name: ClassVar[str] = "WEB_T2"
        type_hash: ClassVar[int] = 0x1A2B3C02
        type_size: ClassVar[int] = 28
        type_source: ClassVar[str] = "webdrv"
        type_def: ClassVar[str] = "'WEB_T2:\n  id: 5002\n  fields:\n    a: int32\n    n: uint32\n    p: WEB_PT\n    ps: WEB_PT[2]\n    raw: byte[4]\n    f: float'"
        a: Int32 = Int32()
        n: Uint32 = Uint32()
        p: Struct[WEB_PT] = Struct(WEB_PT)
        ps: StructArray[WEB_PT] = StructArray(WEB_PT, 2)
        raw: ByteArray = ByteArray(4)
        f: Float = Float()

    for c in (MDF_WEB_T1, MDF_WEB_T2):
        if ctypes.sizeof(c) != c.type_size:
            raise HarnessError(f"{c.__name__}: type_size {c.type_size} but ctypes says {ctypes.sizeof(c)}")
    _defs_cache.update(T1=MDF_WEB_T1, T2=MDF_WEB_T2, PT=WEB_PT)
    return _defs_cache


def _register_defs():
    import pyrtma.message as PM
    d = _defs()
    PM._msg_defs[5001] = d["T1"]
    PM._msg_defs[5002] = d["T2"]


def _unregister_defs():
    import pyrtma.message as PM
    PM._msg_defs.pop(5001, None)
    PM._msg_defs.pop(5002, None)


def data_dict(t: str, ident: int) -> Dict[str, Any]:
    """the data segment (as a JSON-able dict) of data message number `ident` of type t"""
    if t == "T1":
        return {"a": ident, "x": [ident + 0.5, -1.25 * ident, 1e-3], "name": f"msg{ident}"}
    return {"a": ident, "n": 4000000000 - ident, "p": {"x": ident, "y": -ident},
            "ps": [{"x": 1, "y": 2}, {"x": -3, "y": ident}], "raw": [ident & 0x7F, 0, 127, 1], "f": 0.5 * ident}


def data_obj(t: str, ident: int):
    """the same message built field by field on the ctypes class (independent of from_dict)"""
    d = data_dict(t, ident)
    o = _defs()[t]()
    o.a = d["a"]
    if t == "T1":
        o.x[:] = d["x"]
        o.name = d["name"]
    else:
        o.n = d["n"]
        o.p.x, o.p.y = d["p"]["x"], d["p"]["y"]
        for i, e in enumerate(d["ps"]):
            o.ps[i].x, o.ps[i].y = e["x"], e["y"]
        o.raw[:] = d["raw"]
        o.f = d["f"]
    return o


def header_dict(msg_type: int, **kw) -> Dict[str, Any]:
    h = {"msg_type": msg_type, "msg_count": 0, "send_time": 0.0, "recv_time": 0.0, "src_host_id": 0, "src_mod_id": 0,
         "dest_host_id": 0, "dest_mod_id": 0, "num_data_bytes": 0, "remaining_bytes": 0, "is_dynamic": 0, "reserved": 0}
    h.update(kw)
    return h


def jtext(header: Dict[str, Any], data: Dict[str, Any]) -> str:
    return json.dumps({"header": header, "data": data}, separators=(",", ":"))


MALFORMED = [("truncated", '{"header":{"msg_type":15'), ("word", "hello"), ("empty", ""), ("list", "[1,2]"),
             ("noheader", '{"data":{}}'), ("null", "null"), ("nodata", None)]


def invalid_texts(i: int) -> Tuple[str, str]:
    """well-formed JSON that the documented error path has to answer (RTMAMessageError family)"""
    d = _defs()
    v = i % 6
    if v == 0:
        return "unknowntype", jtext(header_dict(9999, src_mod_id=WEB_SRC), {})
    if v == 1:
        dd = data_dict("T1", 1)
        del dd["x"]
        return "missingfield", jtext(header_dict(5001, src_mod_id=WEB_SRC), dd)
    if v == 2:
        return "wrongversion", jtext(header_dict(5001, src_mod_id=WEB_SRC, reserved=0x0BADBEEF), data_dict("T1", 1))
    if v == 3:
        h = header_dict(5002, src_mod_id=WEB_SRC)
        del h["dest_mod_id"]
        return "headerfield", jtext(h, data_dict("T2", 1))
    if v == 4:
        return "subnofield", jtext(header_dict(15, src_mod_id=WEB_SRC), {"type": 5001})
    dd = data_dict("T2", 1)
    dd["p"]["x"] = 70000
    return "outofrange", jtext(header_dict(5002, src_mod_id=WEB_SRC), dd)


# ------------------------------------------------------------------------------ websocket wire
def client_frame(text: str, opcode: int = 0x1, mask: bytes = b"\x11\x22\x33\x44") -> bytes:
    payload = text.encode("utf8")
    n = len(payload)
    out = bytearray([0x80 | opcode])
    if n <= 125:
        out.append(0x80 | n)
    elif n <= 65535:
        out.append(0x80 | 126)
        out += struct.pack(">H", n)
    else:
        out.append(0x80 | 127)
        out += struct.pack(">Q", n)
    out += mask
    out += bytes(b ^ mask[i % 4] for i, b in enumerate(payload))
    return bytes(out)


def _unmask(frame: bytes) -> str:
    n = frame[1] & 0x7F
    i = 2 + (2 if n == 126 else 8 if n == 127 else 0)
    mask, body = frame[i:i + 4], frame[i + 4:]
    return bytes(b ^ mask[j % 4] for j, b in enumerate(body)).decode("utf8")


def server_frames(raw: bytes) -> List[Tuple[int, str]]:
    out, i = [], 0
    while i < len(raw):
        if len(raw) - i < 2:
            raise HarnessError("truncated websocket frame written by the handler")
        b1, b2 = raw[i], raw[i + 1]
        i += 2
        if b2 & 0x80:
            raise HarnessError("server frame is masked")
        n = b2 & 0x7F
        if n == 126:
            n = struct.unpack(">H", raw[i:i + 2])[0]
            i += 2
        elif n == 127:
            n = struct.unpack(">Q", raw[i:i + 8])[0]
            i += 8
        if len(raw) - i < n:
            raise HarnessError("truncated websocket payload written by the handler")
        out.append((b1 & 0x0F, raw[i:i + n].decode("utf8")))
        i += n
    return out


class _WsConn:
    """handler.request"""

    def __init__(self):
        self.raw = bytearray()

    def send(self, b):
        self.raw += bytes(b)
        return len(b)

    sendall = send

    def getsockname(self):
        return ("127.0.0.1", 5678)

    def getpeername(self):
        return ("127.0.0.1", 49152)

    def close(self):
        pass


class _RFile:
    def __init__(self):
        self.buf = bytearray()
        self.closed = False

    def feed(self, b: bytes):
        self.buf += b

    def read(self, n):
        if len(self.buf) < n:
            raise HarnessError(f"handler reads {n} websocket bytes, {len(self.buf)} available (it would block)")
        out = bytes(self.buf[:n])
        del self.buf[:n]
        return out

    def close(self):
        self.closed = True


class _WebSock(vio._ClientSock):
    """what the proxy Client gets from socket.socket(): vio's client socket plus the two name calls handle() logs"""

    def getsockname(self):
        return ("127.0.0.1", 41000)

    def getpeername(self):
        return ("127.0.0.1", 7111)


class _WebSocketModule(vio.FakeSocketModule):
    def socket(self, *a, **kw):
        return _WebSock(self._net)


class _WebSelect:
    """`select` as seen by pyrtma.web_manager"""

    error = OSError

    def __init__(self, stand: "WebStand"):
        self.stand = stand

    def select(self, r, w, x, timeout=None):
        st = self.stand
        if w and not r:
            return [], (list(w) if st.writable_now() else []), []
        return st.on_loop_select(list(r)), [], []


def _import_web_manager():
    """pyrtma.web_manager rearranges the root logger when imported; keep the process as it was"""
    if "pyrtma.web_manager" in sys.modules:
        return sys.modules["pyrtma.web_manager"]
    root = logging.getLogger()
    before = list(root.handlers)
    added = None
    if not before:
        added = logging.NullHandler()
        root.addHandler(added)
    try:
        import pyrtma.web_manager as W
    finally:
        for h in list(root.handlers):
            root.removeHandler(h)
        for h in before:
            root.addHandler(h)
    W.logger.setLevel(100)
    logging.getLogger("websocket_server").setLevel(100)
    return W


class _Stop(Exception):
    pass


class WebStand:
    def __init__(self, salt: int = 0, merge: bool = False):
        self.salt = salt
        self.merge = merge
        self.h = Hub(timecode=False, timing=False, salt=salt)
        self.closed = False
        try:
            self._setup()
        except BaseException:
            self.close()
            raise

    # ------------------------------------------------------------------ construction
    def _setup(self):
        h = self.h
        h.mgr.TRAFFIC_INTERVAL = 1e12      # manager chatter off: the proxy's traffic is the subject here
        h.mgr.INFO_INTERVAL = 1e12
        import pyrtma.client as C
        self.C = C
        C.socket = _WebSocketModule(h.net, "client")      # Installed.__exit__ puts the real module back
        _register_defs()
        self.W = W = _import_web_manager()
        self._saved_w = (W.select, W.time)
        W.select = _WebSelect(self)
        W.time = vio.FakeTime(h.net)
        # the "other module"
        self.pub = C.Client(module_id=PUB_ID)
        self.pub.connect("127.0.0.1:7111")
        h.run_until_quiet()
        self.pubk = [n for n in h.net.cli][-1]
        # the handler
        hd = W.RTMAWebSocketHandler.__new__(W.RTMAWebSocketHandler)
        self.left = []
        hd.server = types.SimpleNamespace(mm_ip="127.0.0.1:7111", key=None, cert=None, clients=[],
                                          _client_left_=lambda handler: self.left.append(handler))
        hd.client_address = ("127.0.0.1", 49152)
        hd.request = hd.connection = self.conn = _WsConn()
        hd.rfile = self.rfile = _RFile()
        hd.wfile = io.BytesIO()
        hd._send_lock = threading.Lock()
        hd.keep_alive = True
        hd.handshake_done = True
        hd.valid_client = True
        hd.mm_ip = hd.server.mm_ip
        hd.proxy = C.Client()
        self.hd = hd
        self.k: Optional[str] = None
        self.off_c = self.off_s = 0
        self.nws = 0
        self.from_mgr_all: List[Tuple[bytes, bytes]] = []
        self.verdicts: List[Tuple[str, str]] = []
        self.counts: Dict[str, int] = {}
        self.cur: Optional[dict] = None
        self.cur_i = -1
        self.pending: List[dict] = []
        self.nready = 0
        self.nsel = 0
        self.stopped = False
        self.fwd_sent: Dict[int, dict] = {}
        self.trace: List[Tuple[str, dict]] = []

    # ------------------------------------------------------------------ the scheduler (called by the real code)
    def writable_now(self) -> bool:
        self.nready += 1
        if not self.pending:
            raise HarnessError("ws_ready_to_send evaluated outside a step")
        if len({bool(s["w"]) for s in self.pending}) != 1:
            raise HarnessError("merged steps with different writable choices")
        return bool(self.pending[0]["w"])

    def _proxy_end(self):
        return self.h.net.cli[self.k] if self.k else None

    def _sock_has_data(self) -> bool:
        e = self._proxy_end()
        return bool(e is not None and not e.closed and (e.inbuf or e.fin_in))

    def on_loop_select(self, r: List[Any]) -> List[Any]:
        hd = self.hd
        self.nsel += 1
        if self.nsel > MAX_SELECTS:
            raise HarnessError("message loop does not terminate (watchdog)")
        if self.k is None:
            names = [n for n in self.h.net.cli if n != self.pubk]
            if len(names) != 1:
                raise HarnessError(f"proxy connection not found: {names}")
            self.k = names[0]
        if r[0] is not hd.rfile or r[1] is not hd.proxy.sock:
            raise HarnessError("loop select does not ask for [rfile, proxy.sock]")
        self._close_steps()
        while not self.stopped:
            if self.i >= len(self.steps):
                raise HarnessError("behaviour has no Shutdown / Finish at its end")
            s = self.steps[self.i]
            a = s["a"]
            if a == "Finish":
                self._verdict("LoopNotEnded", self._ctx(self.steps[self.i - 1]) if self.i else "start",
                              "the message loop goes on although the specification says it has ended")
                break
            self.i += 1
            self._count(s)
            if a == "Pub":
                self._begin([s])
                self._publish(s)
                self._close_steps()
                continue
            if a == "Shutdown":
                self._begin([s])
                hd.keep_alive = False        # what WebsocketServer._terminate_client_handler does
                return []
            if a == "Deliver":
                if not self._sock_has_data():
                    raise HarnessError(f"step {self.i}: Deliver but nothing is queued for the proxy")
                self._begin([s])
                return [hd.proxy.sock]
            if a == "Ws":
                self._begin([s])
                self.rfile.feed(self._ws_bytes(s))
                out = [hd.rfile]
                nxt = self.steps[self.i] if self.i < len(self.steps) else None
                if s.get("both"):
                    if not self._sock_has_data():
                        raise HarnessError(f"step {self.i}: CLOSE with both readable but nothing is queued for the proxy")
                    out.append(hd.proxy.sock)
                elif self._sock_has_data() and s["in"] != "CLOSE":
                    if s["in"] == "DISCONNECT" and self.merge:
                        out.append(hd.proxy.sock)       # exercises the `and self.proxy.connected` guard
                    elif (self.merge and nxt is not None and nxt["a"] == "Deliver" and bool(nxt["w"]) == bool(s["w"])
                          and s["in"] not in ("CONNECT", "CONNECT_V2", "MALFORMED")
                          and not (s["in"] == "PING" and not s["w"])):
                        self.i += 1
                        self._count(nxt)
                        self.counts["(merged iteration)"] = self.counts.get("(merged iteration)", 0) + 1
                        self.pending.append(nxt)
                        out.append(hd.proxy.sock)
                return out
            raise HarnessError(f"unknown step {s}")
        hd.keep_alive = False
        return []

    def _count(self, s: dict):
        k = s.get("act") or self._ctx(s, short=True)
        if s.get("t") == "ALL":
            k += ":ALL"
        if not s["w"]:
            k += ":notwritable"
        self.counts[k] = self.counts.get(k, 0) + 1

    def _begin(self, steps: List[dict]):
        self.pending = list(steps)
        self.nready = 0

    # ------------------------------------------------------------------ inputs
    def _ws_bytes(self, s: dict) -> bytes:
        kind = s["in"]
        n = self.i + self.salt
        hv = lambda cls: cls.type_hash if n % 2 else 0      # noqa: E731  (version filled in or left 0)
        import pyrtma.core_defs as cd
        if kind == "PING":
            return client_frame("PING")
        if kind == "CLOSE":
            return client_frame("", opcode=0x8)
        if kind == "CONNECT":
            return client_frame(jtext(header_dict(13, src_mod_id=WEB_SRC, reserved=hv(cd.MDF_CONNECT), num_data_bytes=4),
                                      {"logger_status": 0, "daemon_status": 0}))
        if kind == "CONNECT_V2":
            return client_frame(jtext(header_dict(4, src_mod_id=WEB_SRC, reserved=hv(cd.MDF_CONNECT_V2), num_data_bytes=44),
                                      {"logger_status": 0, "daemon_status": 0, "allow_multiple": 0, "mod_id": 0, "pid": 4242,
                                       "name": "webclient"}))
        if kind == "DISCONNECT":
            return client_frame(jtext(header_dict(14, src_mod_id=WEB_SRC, reserved=hv(cd.MDF_DISCONNECT)), {}))
        if kind in CTL:
            return client_frame(jtext(header_dict(CTL[kind], src_mod_id=WEB_SRC, num_data_bytes=4), {"msg_type": TYPE[s["t"]]}))
        if kind == "FWD":
            t, ident = s["t"], s["id"]
            cls = _defs()[t]
            hd = header_dict(TYPE[t], msg_count=1000 + ident, send_time=12.5 + ident, recv_time=0.25, src_host_id=WEB_HOST,
                             src_mod_id=WEB_SRC, dest_host_id=0, dest_mod_id=s["dst"],
                             num_data_bytes=cls.type_size if ident % 2 else 0, remaining_bytes=0, is_dynamic=0,
                             reserved=hv(cls))
            self.fwd_sent[ident] = {"header": dict(hd), "t": t}
            return client_frame(jtext(hd, data_dict(t, ident)))
        if kind == "MALFORMED":
            lab, text = MALFORMED[n % len(MALFORMED)]
            if text is None:
                text = json.dumps({"header": header_dict(5001, src_mod_id=WEB_SRC)})
            s["_variant"] = lab
            return client_frame(text)
        if kind == "INVALID":
            lab, text = invalid_texts(n)
            s["_variant"] = lab
            return client_frame(text)
        raise HarnessError(f"unknown websocket input {kind}")

    def _publish(self, s: dict):
        if s["t"] == "TX":                 # a type nobody in this process has a definition for: header only
            hdr = self.pub.header_cls()
            hdr.msg_type, hdr.src_mod_id, hdr.msg_count, hdr.send_time = UNKNOWN_TYPE, PUB_ID, s["id"], 7.5
            self.pub.forward_message(hdr)
            self.h.run_until_quiet()
            return
        o = data_obj(s["t"], s["id"])
        self.pub.send_message(o, dest_mod_id=0)
        self.h.run_until_quiet()

    # ------------------------------------------------------------------ observation
    def _ctx(self, s: dict, short: bool = False) -> str:
        a = s["a"]
        if a == "Ws":
            c = s["in"]
            if s.get("t") == "ALL":
                c += ":ALL"
            if not short and s.get("_variant"):
                c += ":" + s["_variant"]
            if not s["w"] and (short or s["in"] in ("PING", "CONNECT", "CONNECT_V2", "INVALID")):
                c += ":notwritable"
            return c
        if a == "Deliver":
            return "Deliver" + ("" if s["w"] else ":notwritable")
        if a == "Late":
            return "Late:" + s["in"]
        return a

    def _verdict(self, clause: str, ctx: str, detail: str, stop: bool = True):
        """stop: the real state has left the behaviour, what follows cannot be compared any more"""
        self.verdicts.append((f"WEB/{clause}/{ctx}", detail))
        if stop:
            self.stopped = True

    def _abs_to_mgr(self, hb: bytes, pl: bytes) -> dict:
        h = F.parse_header(hb, False)
        t = h["msg_type"]
        if t == 4:
            return {"k": "CONNECT_V2", "src": h["src_mod_id"]}
        if t == 13:
            return {"k": "CONNECT", "src": h["src_mod_id"]}
        if t == 14:
            return {"k": "DISCONNECT", "src": h["src_mod_id"]}
        if t in CTL_OF and len(pl) == 4:
            mt = struct.unpack("<i", pl)[0]
            return {"k": CTL_OF[t], "t": NAME_OF.get(mt, str(mt)), "src": h["src_mod_id"]}
        if t == 8 and len(pl) == 64:
            dest = struct.unpack_from("<h", pl, 0)[0]
            of = struct.unpack_from("<i", pl, 16)[0]
            return {"k": "FM", "src": h["src_mod_id"], "dest": dest, "of": NAME_OF.get(of, str(of))}
        if t in (5001, 5002) and len(pl) >= 4:
            return {"k": "FWD", "t": NAME_OF[t], "src": h["src_mod_id"], "dst": h["dest_mod_id"],
                    "id": struct.unpack_from("<i", pl, 0)[0]}
        return {"k": "OTHER", "type": t, "src": h["src_mod_id"], "len": len(pl)}

    def _abs_from_mgr(self, hb: bytes, pl: bytes) -> dict:
        h = F.parse_header(hb, False)
        t = h["msg_type"]
        if t == 2:
            return {"k": "ACK", "dst": h["dest_mod_id"]}
        if t in (5001, 5002) and len(pl) >= 4:
            return {"k": "DATA", "t": NAME_OF[t], "id": struct.unpack_from("<i", pl, 0)[0]}
        if t == 8:
            return {"k": "FM"}
        if t == 32:
            return {"k": "INFO"}
        if t == UNKNOWN_TYPE:
            return {"k": "UNK"}
        return {"k": "OTHER", "type": t}

    def _abs_ws(self, opcode: int, text: str) -> dict:
        if opcode != 0x1:
            return {"k": "frame", "opcode": opcode}
        if text == "PONG":
            return {"k": "pong"}
        try:
            d = json.loads(text)
        except Exception:
            return {"k": "text", "text": text[:60]}
        if isinstance(d, dict) and list(d) == ["rtma_msg_error"] and isinstance(d["rtma_msg_error"], str):
            return {"k": "err"}
        if isinstance(d, dict) and set(d) == {"header", "data"}:
            t = d["header"].get("msg_type")
            if t == 2:
                return {"k": "msg", "t": "ACK", "dst": d["header"].get("dest_mod_id")}
            if t in (5001, 5002):
                return {"k": "msg", "t": NAME_OF[t], "id": d["data"].get("a")}
            return {"k": "msg", "t": NAME_OF.get(t, str(t))}
        return {"k": "text", "text": text[:60]}

    def observe(self) -> dict:
        h, hd = self.h, self.hd
        h.run_until_quiet()
        if h.crashed:
            raise HarnessError(f"manager crashed: {h.crashed}")
        fr = server_frames(bytes(self.conn.raw))
        new_ws = fr[self.nws:]
        self.nws = len(fr)
        ce, se = h.net.cli[self.k], h.net.ends[self.k]
        to_mgr, rest = F.split_frames(bytes(ce.sent[self.off_c:]), False)
        self.off_c = len(ce.sent) - len(rest)
        from_mgr, rest2 = F.split_frames(bytes(se.sent[self.off_s:]), False)
        self.off_s = len(se.sent) - len(rest2)
        self.from_mgr_all.extend(from_mgr)
        unread, rest3 = F.split_frames(bytes(ce.inbuf), False) if not ce.closed else ([], b"")
        p = hd.proxy
        mod = h.mgr.modules.get(se)
        msub = sorted(NAME_OF.get(t, str(t)) for t in mod.subs) if mod is not None else []
        if mod is not None:
            tab = sorted(NAME_OF.get(t, str(t)) for t, ms in h.mgr.subscriptions.items() if mod in ms)
            if tab != msub:
                raise HarnessError(f"manager tables disagree with each other: {tab} vs {msub}")
        names = lambda S: sorted(NAME_OF.get(t, str(t)) for t in S)   # noqa: E731
        return {
            "ws_raw": new_ws, "ws": [self._abs_ws(o, t) for o, t in new_ws],
            "mg_raw": to_mgr, "mg": [self._abs_to_mgr(a, b) for a, b in to_mgr],
            "q_raw": from_mgr, "q": [self._abs_from_mgr(a, b) for a, b in from_mgr],
            "psub": names(p.subscribed_types), "ppaused": names(p.paused_subscribed_types), "suball": bool(p._sub_all),
            "msub": msub, "pid": p.module_id, "mid": (mod.mod_id if mod is not None else 0),
            "mconn": bool(mod is not None and mod.connected), "registered": mod is not None,
            "connected": bool(p.connected), "ka": bool(hd.keep_alive), "nready": self.nready,
            "leftover": len(rest) + len(rest2) + len(rest3), "inq": [self._abs_from_mgr(a, b) for a, b in unread],
        }

    # ------------------------------------------------------------------ comparison
    def _close_steps(self, blocked: bool = False):
        if not self.pending:
            return
        steps, self.pending = self.pending, []
        obs = self.observe()
        obs["blocked"] = blocked
        ctx = "+".join(self._ctx(s, short=len(steps) > 1) for s in steps)
        self.trace.append((ctx, obs))
        if any("exp" not in s for s in steps):      # exploration: no expectations, just record
            return
        if obs["leftover"]:
            self._verdict("PartialFrame", ctx, "a partial RTMA frame is on the wire between proxy and manager")
            return
        exp_ws = [o for s in steps for o in s["exp"]["ws"]]
        exp_mg = [o for s in steps for o in s["exp"]["mg"]]
        exp_q = [o for s in steps for o in s["exp"]["q"]]
        last = steps[-1]["exp"]
        self._fidelity(steps, obs, ctx)
        if obs["ws"] != exp_ws:
            clause = "ReplyMissing" if len(obs["ws"]) < len(exp_ws) else "ReplyUnexpected" if len(obs["ws"]) > len(exp_ws) else "ReplyDiffers"
            self._verdict(clause, ctx, f"websocket got {obs['ws']}, specification says {exp_ws}", stop=False)
        if obs["mg"] != exp_mg:
            efm = [f for f in exp_mg if f["k"] == "FM"]
            ofm = [f for f in obs["mg"] if f["k"] == "FM"]
            rest_same = [f for f in exp_mg if f["k"] != "FM"] == [f for f in obs["mg"] if f["k"] != "FM"]
            if rest_same and len(ofm) < len(efm):
                clause = "FailedNotReported"
            elif rest_same and len(ofm) > len(efm):
                clause = "FailedReportedTwice" if efm else "FailedUnexpected"
            elif rest_same:
                clause = "FailedWrongModule" if [f["of"] for f in efm] == [f["of"] for f in ofm] else "FailedWrongHeader"
            else:
                clause = "ManagerFramesDiffer"
            self._verdict(clause, ctx, f"proxy wrote {obs['mg']}, specification says {exp_mg}")
        if obs["q"] != exp_q:
            self._verdict("ManagerDeliveryDiffers", ctx, f"manager sent the proxy {obs['q']}, specification says {exp_q}")
        if "inq" in last and not blocked and obs["connected"] and obs["inq"] != list(last["inq"]):
            self._verdict("QueueDiffers", ctx, f"unread frames at the proxy {obs['inq']}, specification says {list(last['inq'])}: "
                                               "the handler consumed a different number of frames")
        if (obs["psub"], obs["ppaused"]) != (sorted(last["psub"]), sorted(last["ppaused"])):
            self._verdict("ProxySubsDiffer", ctx, f"proxy sub/paused {obs['psub']}/{obs['ppaused']}, specification "
                                                  f"{sorted(last['psub'])}/{sorted(last['ppaused'])}")
        if obs["msub"] != sorted(last["msub"]):
            self._verdict("ManagerSubsDiffer", ctx, f"manager has {obs['msub']} for the proxy, specification {sorted(last['msub'])}")
        if sorted(last["psub"]) == sorted(last["msub"]) and obs["psub"] != obs["msub"] and obs["connected"]:
            self._verdict("SubsDisagree", ctx, f"proxy believes {obs['psub']}, manager delivers {obs['msub']}")
        st = "disc" if not obs["connected"] else ("conn" if obs["mconn"] else "sock")
        if st != last["st"]:
            self._verdict("ConnStateDiffers", ctx, f"connection state {st}, specification {last['st']}")
        if obs["pid"] != last["pid"] or (st != "disc" and obs["mid"] != last["mid"]):
            self._verdict("ModuleIdDiffers", ctx, f"proxy.module_id {obs['pid']} / manager {obs['mid']}, specification "
                                                  f"{last['pid']} / {last['mid']}")
        if obs["ka"] != bool(last["ka"]):
            self._verdict("KeepAliveDiffers", ctx, f"keep_alive {obs['ka']}, specification {last['ka']}")
        if blocked != bool(last.get("blocked", False)):
            self._verdict("HandlerBlocked" if blocked else "HandlerNotBlocked", ctx,
                          "the handler thread sits in a blocking recv on the manager socket with nothing to read"
                          if blocked else "specification expects the handler to be stuck in recv")
        self.last_obs = obs

    def _fidelity(self, steps: List[dict], obs: dict, ctx: str):
        """checks that need the bytes: forwarded frames against the JSON, websocket JSON against the delivered frame"""
        from pyrtma.message import Message
        for (hb, pl), ab in zip(obs["mg_raw"], obs["mg"]):
            if ab["k"] == "FWD":
                sent = self.fwd_sent.get(ab["id"])
                if sent is None:
                    self._verdict("ForwardedDiffers", ctx, f"a frame with unknown payload id {ab['id']} was forwarded", stop=False)
                    continue
                want = dict(sent["header"])
                want["num_data_bytes"] = _defs()[sent["t"]].type_size
                got = F.parse_header(hb, False)
                got["reserved"] = got.pop("version", got.get("reserved"))
                diff = [k for k in FIELD_PRIORITY if got.get(k) != want[k]]
                if diff:
                    self._verdict("ForwardedDiffers", ctx + ":" + diff[0],
                                  "header fields " + ", ".join(f"{k}={got.get(k)} (JSON said {want[k]})" for k in diff), stop=False)
                if bytes(pl) != bytes(data_obj(sent["t"], ab["id"])):
                    self._verdict("ForwardedDiffers", ctx + ":data", f"payload {bytes(pl).hex()} != {bytes(data_obj(sent['t'], ab['id'])).hex()}", stop=False)
            if ab["k"] == "FM":
                # the report has to quote the header of the undelivered message
                inner = F.parse_header(bytes(pl[16:64]), False)
                match = [1 for a, b in self.from_mgr_all
                         if _same_header(F.parse_header(a, False), inner)]
                if not match:
                    self._verdict("FailedWrongHeader", ctx, f"FAILED_MESSAGE quotes a header the manager never sent: {inner}", stop=False)
        for (op, text), ab in zip(obs["ws_raw"], obs["ws"]):
            if ab["k"] != "msg":
                continue
            try:
                m = Message.from_json(text)
            except Exception as e:  # noqa
                self._verdict("DeliveredDiffers", ctx + ":undecodable", f"{type(e).__name__}: {e}", stop=False)
                continue
            hb = bytearray(bytes(m.header))
            hb[16:24] = b"\0" * 8
            cands = [(a, b) for a, b in self.from_mgr_all if bytes(a[:16]) + b"\0" * 8 + bytes(a[24:]) == bytes(hb)]
            if not cands:
                self._verdict("DeliveredDiffers", ctx + ":header", f"websocket JSON header {m.header.to_dict()} matches no frame the manager sent", stop=False)
                continue
            if not any(bytes(b) == bytes(m.data) for a, b in cands):
                self._verdict("DeliveredDiffers", ctx + ":data", f"data {bytes(m.data).hex()} != {bytes(cands[0][1]).hex()}", stop=False)
            if ab.get("t") in ("T1", "T2") and bytes(m.data) != bytes(data_obj(ab["t"], ab["id"])):
                self._verdict("DeliveredDiffers", ctx + ":published", f"data {bytes(m.data).hex()} is not what module {PUB_ID} / the web client sent", stop=False)
            if "\n" in text or ": " in text or ", " in text:
                self._verdict("DeliveredDiffers", ctx + ":notminified", text[:80], stop=False)

    # ------------------------------------------------------------------ one behaviour
    def run(self, beh: List[dict]) -> List[Tuple[str, str]]:
        self.steps = [dict(s) for s in beh]
        self.i = 0
        hd = self.hd
        crashed = False
        try:
            hd.handle()
        except WouldBlock:
            self._close_steps(blocked=True)
            self._abandon()
            if self.i < len(self.steps) and not self.stopped:
                self._verdict("BehaviourNotFinished", "blocked", f"steps left: {self.steps[self.i:]}"[:300])
            return self.verdicts
        except HarnessError:
            self._abandon()
            raise
        except Exception as e:  # noqa  -- socketserver would print the traceback and drop the connection
            crashed = True
            ctx = "+".join(self._ctx(s) for s in self.pending) or "loop"
            import traceback
            tb = traceback.extract_tb(e.__traceback__)
            where = next((f"{os.path.basename(f.filename)}:{f.name}" for f in reversed(tb) if "/pyrtma/" in f.filename), "?")
            self._verdict(f"Crash:{type(e).__name__}", ctx, f"{e!s:.120} (raised through handle(), innermost pyrtma frame {where}); "
                          "the connection handler dies, socketserver's finish() disconnects the proxy")
        try:
            if not crashed and not self.stopped:
                self._close_steps()
                if not self.stopped:
                    if self.i < len(self.steps) and self.steps[self.i]["a"] == "Finish":
                        fin = self.steps[self.i]
                        self.i += 1
                        self._count(fin)
                        self._begin([fin])
                        hd.finish()
                        self._close_steps()
                        if not self.stopped and self.i < len(self.steps) and self.steps[self.i]["a"] == "Late":
                            self._late(self.steps[self.i])
                            self.i += 1
                        if not self.stopped and self.i != len(self.steps):
                            raise HarnessError("steps after Finish / Late")
                        return self.verdicts
                    self._verdict("LoopEndedEarly", self._ctx(self.steps[self.i - 1]) if self.i else "start",
                                  f"handle() returned, specification continues with {self.steps[self.i:self.i + 2]}")
            hd.finish()
        finally:
            self._abandon()
        return self.verdicts

    def _late(self, s: dict):
        """process_json_message called directly on the proxy that finish() has disconnected"""
        self._count(s)
        self._begin([s])
        frame = self._ws_bytes(s)
        text = _unmask(frame)
        try:
            self.hd.process_json_message(text)
        except HarnessError:
            raise
        except Exception as e:  # noqa
            self._verdict(f"Crash:{type(e).__name__}", self._ctx(s), f"{e!s:.120} (raised by process_json_message on a disconnected proxy)")
            return
        self._close_steps()

    def _abandon(self):
        p = self.hd.proxy
        p._connected = False

    def close(self):
        if self.closed:
            return
        self.closed = True
        try:
            for c in (getattr(self, "pub", None), getattr(getattr(self, "hd", None), "proxy", None)):
                if c is not None:
                    c._connected = False
            if hasattr(self, "_saved_w"):
                self.W.select, self.W.time = self._saved_w
            _unregister_defs()
        finally:
            self.h.close()


def _same_header(a: dict, b: dict) -> bool:
    return all(a[k] == b[k] for k in a if k != "recv_time")


def replay(beh: List[dict], salt: int = 0, merge: bool = False) -> Tuple[List[Tuple[str, str]], Dict[str, int]]:
    """one behaviour on a fresh stand; returns (verdicts, per-step-kind counts)"""
    st = WebStand(salt=salt, merge=merge)
    try:
        v = st.run(beh)
        return list(v), dict(st.counts)
    finally:
        st.close()
        n = [t for t in threading.enumerate() if t is not threading.current_thread() and t.is_alive()
             and t is st.h.net._mgr_thread]
        if n:
            raise HarnessError("manager thread still alive after the replay")
