"""known findings: /verif/known_findings.jsonl, read-only at run time."""
from __future__ import annotations

import json
import os
from typing import Dict, List

PATH = os.path.join(os.path.dirname(os.path.dirname(os.path.abspath(__file__))), "known_findings.jsonl")


def load() -> List[dict]:
    out = []
    if os.path.exists(PATH):
        for line in open(PATH):
            line = line.strip()
            if line and not line.startswith("#"):
                out.append(json.loads(line))
    return out


def known_for(prop: str) -> Dict[str, dict]:
    return {e["signature"]: e for e in load() if e.get("status") == "known" and e.get("property") == prop}
