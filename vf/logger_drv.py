"""logger_drv -- the REAL pyrtma DataCollection / DataSet under a deterministic two-thread scheduler (C17).

No edit to /repo: the names `threading` and `time` that `pyrtma.data_logger.data_collection` looks up are
replaced, for the lifetime of a LoggerStand, by harness objects:

  BatonEvent   set / clear / is_set / wait are *scheduling points*: the calling thread parks BEFORE the operation
               and performs it (plus the code behind it, up to its next scheduling point) when the controller
               hands it the baton.  wait(timeout) that is scheduled while the flag is down returns False
               (= the timeout elapsed); being scheduled only after the flag went up is "blocked, then woken".
  BatonThread  the writer runs in a real thread, but parks at every scheduling point; join() is a scheduling
               point of the recorder that is enabled only when the writer has left its function.
  io point     `DataSet.write()` of every data set of the stand is wrapped (on the instance): the calling thread -- the
               writer -- parks BEFORE it, like before a synchronisation operation (op "io", ev = data set name).  So the
               recorder can be scheduled while the writer is in the middle of servicing a request (before the first data
               set, between two data sets): a handshake that lets the recorder stage / finalise during that time shows.
  virtual clock `time.time()` is 1e6 + the seconds the script has ticked.

Exactly one of {controller, recorder "R", writer "W"} runs at any moment, so a schedule -- a list of steps
{"th": "R"|"W", "a": "Op" | <API call>} -- fully determines the execution and replays identically.
One step = the pending synchronisation operation of that thread + everything up to its next one (DataLogger.tla
has the same granularity); the beginning of an API call up to its first operation is a step of its own.

Every executed step is recorded as one uniform event (fields th, a, t, dt, id, live, rec, op, ev, res, ret, exc) -- this is
the trace that DataLogger_Trace.tla validates.  After the script the output files are read back with the package's own
readers and appended to the trace as the final {"a": "Files"} event.

Restart: a collection that was stopped can be started again ("Start" after a completed "Stop").  Like a user of the
package (DataLogger: metadata update, then START) the stand puts a new value of the metadata key `run` into the collection
before every start(), and the names are metadata dependent -- naming="file": file_name_fmt "<ds>_r$(run)" in one directory,
naming="dir": dir_fmt "rec$(run)" with constant file names -- so the second recording does not run into DataSetExistsError.
`rec` in an event is the index of the recording the step belongs to (0 before the first start); the files of every
recording are read back separately ({"recs": [{"files": {ds: [[serial..] per file]}, "badds": [..]} per recording]}) and
judged against the arrivals of that recording.
"""
from __future__ import annotations

import json
import os
import shutil
import sys
import tempfile
import zlib
import threading as _rt
from typing import Any, Callable, Dict, List, Optional, Tuple

SRC = os.environ.get("VF_PYRTMA_SRC") or (__import__("os").environ.get("VF_REPO", "/repo") + "/src")
if SRC != "/repo/src":
    # verification of a candidate repair on a scratch copy of the package: make sure that copy is the one imported
    for _k in [k for k in sys.modules if k == "pyrtma" or k.startswith("pyrtma.")]:
        del sys.modules[_k]
    sys.path[:] = [p for p in sys.path if p != "/repo/src"]
sys.path.insert(0, SRC)

FORMATS = ("raw", "json", "quicklogger", "msg_header")
T0 = 1.0e6
MAX_DRAIN = 400


class HarnessError(Exception):
    pass


class _Abort(BaseException):
    """unwinds a parked thread out of the code under test at tear-down"""


class _Slot:
    def __init__(self, name: str):
        self.name = name
        self.sem = _rt.Semaphore(0)
        self.state = "none"  # none | parked | running | idle (R between calls) | done (function returned)
        self.pending: Optional[dict] = None
        self.exc: Optional[BaseException] = None


class Sched:
    """central controller: `run(who)` hands the baton to one thread until it parks again / returns."""

    def __init__(self):
        self.slots = {"R": _Slot("R"), "W": _Slot("W")}
        self.ctrl = _rt.Semaphore(0)
        self.ident: Dict[int, str] = {}
        self.abort = False
        self.cur: Dict[str, Any] = {}
        self.events_made: List["BatonEvent"] = []
        self.next_call: Optional[Callable[[], Any]] = None
        self.call_out: Any = None
        self.rthread = _rt.Thread(target=self._r_main, daemon=True, name="c17-R")
        self.slots["R"].state = "idle"
        self.rthread.start()

    # ---- called from the threads under control
    def who(self) -> Optional[str]:
        return self.ident.get(_rt.get_ident())

    def point(self, pending: dict) -> Optional[str]:
        """park before a synchronisation operation; returns the thread's name (None for a foreign thread: no scheduling)."""
        w = self.who()
        if w is None:
            return None
        slot = self.slots[w]
        slot.pending = pending
        slot.state = "parked"
        self.ctrl.release()
        slot.sem.acquire()
        if self.abort:
            raise _Abort()
        slot.pending = None
        slot.state = "running"
        self.cur = {"th": w, "op": pending["op"], "ev": pending.get("ev", ""), "res": False}
        return w

    def _r_main(self):
        self.ident[_rt.get_ident()] = "R"
        slot = self.slots["R"]
        while True:
            slot.sem.acquire()
            if self.abort:
                return
            fn, self.next_call = self.next_call, None
            slot.state = "running"
            slot.exc = None
            try:
                self.call_out = fn()
            except _Abort:
                return
            except BaseException as e:  # noqa: BLE001 - the code under test may raise anything
                slot.exc = e
                self.call_out = None
            slot.state = "idle"
            self.ctrl.release()

    # ---- called from the controller
    def run(self, who: str) -> Dict[str, Any]:
        slot = self.slots[who]
        if slot.state != "parked":
            raise HarnessError(f"thread {who} is not parked (state {slot.state})")
        self.cur = {}
        slot.sem.release()
        self.ctrl.acquire()
        return self.cur

    def call(self, fn: Callable[[], Any]) -> None:
        slot = self.slots["R"]
        if slot.state != "idle":
            raise HarnessError(f"recorder is inside a call (state {slot.state})")
        self.next_call = fn
        self.cur = {}
        slot.sem.release()
        self.ctrl.acquire()

    def enabled(self, who: str) -> bool:
        slot = self.slots[who]
        if slot.state != "parked":
            return False
        p = slot.pending or {}
        if p.get("op") == "join":
            return self.slots["W"].state in ("done", "none")
        if p.get("op") == "wait" and p.get("timeout") is None:
            return bool(p["obj"].flag)
        return True

    def shutdown(self):
        self.abort = True
        for s in self.slots.values():
            s.sem.release()
        self.rthread.join(2.0)
        for ev in self.events_made:
            ev.s = None  # type: ignore[assignment]


class BatonEvent:
    def __init__(self, sched: Sched):
        self.s: Optional[Sched] = sched
        self.flag = False
        self.name = f"e{len(sched.events_made)}"
        sched.events_made.append(self)

    def _pt(self, op: str, timeout=None) -> bool:
        if self.s is None:
            return False
        return self.s.point({"op": op, "ev": self.name, "obj": self, "timeout": timeout}) is not None

    def is_set(self) -> bool:
        sch = self._pt("is_set")
        r = self.flag
        if sch:
            self.s.cur["ev"] = self.name
            self.s.cur["res"] = r
        return r

    isSet = is_set

    def set(self) -> None:
        if self._pt("set"):
            self.s.cur["ev"] = self.name
        self.flag = True

    def clear(self) -> None:
        if self._pt("clear"):
            self.s.cur["ev"] = self.name
        self.flag = False

    def wait(self, timeout=None) -> bool:
        sch = self._pt("wait", timeout)
        r = self.flag
        if sch:
            self.s.cur["ev"] = self.name
            self.s.cur["res"] = r
            if not r and timeout is None:
                raise HarnessError("wait() without timeout scheduled while the event is not set")
        return r


class BatonThread:
    def __init__(self, sched: Sched, group=None, target=None, name=None, args=(), kwargs=None, daemon=None):
        self.s = sched
        self.target = target
        self.args = args
        self.kwargs = kwargs or {}
        self.name = name or "baton-writer"
        self.daemon = daemon
        self.real: Optional[_rt.Thread] = None

    def start(self):
        slot = self.s.slots["W"]
        if slot.state != "none":
            raise HarnessError("a second background thread was started")
        slot.state = "parked"
        slot.pending = {"op": "begin"}
        ready = _rt.Event()
        self.real = _rt.Thread(target=self._main, args=(ready,), daemon=True, name="c17-W")
        self.real.start()
        ready.wait(5.0)

    def _main(self, ready):
        s = self.s
        s.ident[_rt.get_ident()] = "W"
        slot = s.slots["W"]
        ready.set()
        slot.sem.acquire()
        if s.abort:
            slot.state = "done"
            return
        slot.pending = None
        slot.state = "running"
        s.cur = {"th": "W", "op": "begin", "ev": "", "res": False}
        try:
            self.target(*self.args, **self.kwargs)
        except _Abort:
            slot.state = "done"
            return
        except BaseException as e:  # noqa: BLE001
            slot.exc = e
        slot.state = "done"
        s.ctrl.release()

    def is_alive(self) -> bool:
        return self.s.slots["W"].state not in ("none", "done")

    def join(self, timeout=None):
        w = self.s.who() if self.s else None
        if w is None or self.s.abort:
            return
        self.s.point({"op": "join", "ev": "W"})
        if self.is_alive():
            raise HarnessError("join() scheduled while the writer is alive")


class _Threading:
    """stands in for the name `threading` inside pyrtma.data_logger.data_collection"""

    def __init__(self, sched: Sched):
        self._s = sched

    def Event(self):
        return BatonEvent(self._s)

    def Thread(self, *a, **kw):
        return BatonThread(self._s, *a, **kw)

    def __getattr__(self, k):
        return getattr(_rt, k)


class _Time:
    def __init__(self, stand: "LoggerStand"):
        self._st = stand

    def time(self) -> float:
        return T0 + float(self._st.now)

    def monotonic(self) -> float:
        return T0 + float(self._st.now)

    perf_counter = monotonic

    def sleep(self, dt):
        raise HarnessError("the code under test slept")

    def __getattr__(self, k):
        import time as _t
        return getattr(_t, k)


# ------------------------------------------------------------------------------------------------------------
TYPEMAPS = {
    "std": {"A": "MODULE_READY", "B": "DATA_LOGGER_STATUS"},       # 4 and 24 payload bytes
    "sig": {"A": "DATA_COLLECTION_SAVED", "B": "CLIENT_SET_NAME"},  # 0 and 32 payload bytes
}
_counter = [0]


def _blank(**kw) -> Dict[str, Any]:
    e = {"th": "R", "a": "Op", "t": "", "dt": 0, "id": 0, "live": False, "rec": 0, "op": "", "ev": "", "res": False, "ret": False, "exc": ""}
    e.update(kw)
    return e


class LoggerStand:
    """One DataCollection with data sets d1 (selects type A), d2.. (select ALL), one formatter per data set."""

    def __init__(self, fmts=("raw", "json"), intervals=(30, 0), typemap="std", naming="file"):
        import logging

        import pyrtma
        import pyrtma.core_defs as cd
        import pyrtma.data_logger  # registers the formatters
        from pyrtma.data_logger import data_collection as dcmod
        from pyrtma.data_logger.data_formatter import get_formatter
        from pyrtma.data_logger.data_set import DataSet
        from pyrtma.data_logger.metadata import LoggingMetadata

        self.pyrtma, self.cd, self.dcmod = pyrtma, cd, dcmod
        self.fmts = list(fmts)
        if naming not in ("file", "dir"):
            raise HarnessError(f"naming {naming}")
        self.naming = naming
        self.nrec = 0
        self.ds_names = [f"d{i + 1}" for i in range(len(fmts))]
        self.typemap = {k: getattr(cd, "MDF_" + v) for k, v in TYPEMAPS[typemap].items()}
        self.now = 0
        self.events: List[Dict[str, Any]] = []
        self.msgs: Dict[int, Any] = {}
        self.nmsg = 0
        self.api = {"started": False, "paused": False, "stop_called": False, "stopped": False, "close_called": False, "closed": False}
        self.desync: Optional[int] = None
        self.hang = False
        self.steps: List[Dict[str, Any]] = []
        self.dir = tempfile.mkdtemp(prefix="c17_")
        self.sched = Sched()
        self._saved = (dcmod.threading, dcmod.time, tempfile.tempdir)
        self._lg = logging.getLogger("data_logger")
        self._lg_saved = (self._lg.level, self._lg.propagate)
        self._lg.setLevel(1000)
        self._lg.propagate = False
        dcmod.threading = _Threading(self.sched)
        dcmod.time = _Time(self)
        tempfile.tempdir = self.dir  # the quicklogger formatter parks data blocks in a NamedTemporaryFile
        try:
            os.mkdir(os.path.join(self.dir, "out"))
            md = self.md = LoggingMetadata()
            md.update(json.dumps({"run": 0}))
            dir_fmt = "rec" if naming == "file" else "rec$(run)"
            self.sched.call(lambda: dcmod.DataCollection("c17", os.path.join(self.dir, "out"), dir_fmt, md))
            for _ in range(8):      # event operations inside the constructor (e.g. an event that starts out set): not steps of a schedule
                if self.sched.slots["R"].state != "parked":
                    break
                self.sched.run("R")
            if self.sched.slots["R"].state != "idle":
                raise HarnessError("DataCollection() does not return")
            if self.sched.slots["R"].exc:
                raise HarnessError(f"DataCollection() raised {self.sched.slots['R'].exc!r}")
            self.dc = self.sched.call_out
            evs = self.sched.events_made
            if len(evs) != 2 or self.dc.write_to_disk is not evs[0] or self.dc.write_finished is not evs[1]:
                raise HarnessError("DataCollection does not create exactly the events write_to_disk, write_finished")
            evs[0].name, evs[1].name = "w2d", "fin"
            for i, (name, fmt) in enumerate(zip(self.ds_names, self.fmts)):
                # the selection is a predicate (d1: type A only, the others: every type); how the LIST is spelled varies
                # with the configuration: repeated entries, unused types, ALL next to individual types
                a_id, b_id = self.typemap["A"].type_id, self.typemap["B"].type_id if "B" in self.typemap else 9999
                sp = zlib.crc32(repr((tuple(fmts), naming, typemap, i)).encode()) % 3
                if i == 0:
                    types = [[a_id], [a_id, 9999, a_id], [a_id, a_id]][sp]
                else:
                    types = [[cd.ALL_MESSAGE_TYPES], [cd.ALL_MESSAGE_TYPES, a_id], [b_id, cd.ALL_MESSAGE_TYPES, a_id]][sp]
                ds = DataSet("c17", name, "", name + "_r$(run)" if naming == "file" else name, get_formatter(fmt), intervals[min(i, len(intervals) - 1)], types, md)
                self._io_point(ds)
                self.dc.add_data_set(ds)
            if self.sched.slots["W"].state != "parked":
                raise HarnessError("DataCollection did not start a writer thread")
            cur = self.sched.run("W")  # thread start up to its first wait(w2d)
            p = self.sched.slots["W"].pending or {}
            if cur.get("op") != "begin" or p.get("op") != "wait" or p.get("ev") != "w2d":
                raise HarnessError(f"writer does not begin with wait(write_to_disk): {p}")
        except BaseException:
            self.restore()
            raise

    def _io_point(self, ds) -> None:
        orig, sched, name = ds.write, self.sched, ds.name

        def write():
            if not sched.abort:
                sched.point({"op": "io", "ev": name})
            return orig()
        ds.write = write  # instance attribute: DataCollection.write() / blocking_write() call ds.write()

    # ---------------------------------------------------------------------------------------------------
    def restore(self):
        try:
            self.sched.shutdown()
        finally:
            self.dcmod.threading, self.dcmod.time, tempfile.tempdir = self._saved
            self._lg.setLevel(self._lg_saved[0])
            self._lg.propagate = self._lg_saved[1]
            dc = getattr(self, "dc", None)
            if dc is not None:
                dc._dead = True  # its __del__ must not join a harness thread; files are closed below
                for ds in dc.datasets:
                    try:
                        ds.close()
                    except Exception:  # noqa: BLE001
                        pass
                    tmp = getattr(getattr(ds, "formatter", None), "data_tmp", None)
                    if tmp is not None:
                        try:
                            tmp.close()
                        except Exception:  # noqa: BLE001
                            pass
            shutil.rmtree(self.dir, ignore_errors=True)

    def make_msg(self, t: str, serial: int):
        cls = self.typemap[t]
        data = cls()
        fields = set(data.to_dict().keys())
        if "pid" in fields:
            data.pid = serial
        elif "elapsed_time" in fields:
            data.elapsed_time = serial + 0.25
            data.timestamp = 1000.0 + serial
            data.is_recording = 1
        elif "name" in fields:
            data.name = f"m{serial}"
        elif fields:
            raise HarnessError(f"no rule to fill {cls.__name__}")
        from pyrtma.header import MessageHeader
        hdr = MessageHeader()
        hdr.msg_type = cls.type_id
        hdr.msg_count = serial
        hdr.send_time = 2000.0 + serial
        hdr.recv_time = 2000.5 + serial
        hdr.src_host_id = 0
        hdr.src_mod_id = 10 + (serial % 5)
        hdr.dest_host_id = 0
        hdr.dest_mod_id = 0
        hdr.num_data_bytes = cls.type_size
        hdr.version = cls.type_hash
        return self.pyrtma.Message(hdr, data)

    # ---------------------------------------------------------------------------------------------------
    def _after(self, e: Dict[str, Any]) -> Dict[str, Any]:
        rs, ws = self.sched.slots["R"], self.sched.slots["W"]
        if e["th"] == "R":
            e["ret"] = rs.state == "idle"
            if rs.exc is not None and e["ret"]:
                e["exc"] = type(rs.exc).__name__
                rs.exc = None
            if e["ret"] and self._incall == "Stop" and not e["exc"]:
                self.api["stopped"] = True
            if e["ret"] and self._incall == "Close" and not e["exc"]:
                self.api["closed"] = True
            if e["ret"]:
                self._incall = ""
        else:
            e["ret"] = ws.state == "done"
            if ws.exc is not None:
                e["exc"] = type(ws.exc).__name__
        self.events.append(e)
        return e

    _incall = ""

    def begin(self, a: str, t: str = "", dt: int = 0) -> Dict[str, Any]:
        """the first step of an API call of the recorder (Tick is the environment's own step)"""
        dc = self.dc
        e = _blank(th="R", a=a, t=t, dt=dt, rec=self.nrec + (1 if a == "Start" else 0))
        if a == "Tick":
            self.now += dt
            e["ret"] = True
            self.events.append(e)
            return e
        if a == "Update":
            if t == "None":
                fn = lambda: dc.update(None)  # noqa: E731
            else:
                self.nmsg += 1
                m = self.make_msg(t, self.nmsg)
                self.msgs[self.nmsg] = (t, bytes(m.header), bytes(m.data), m)
                e["id"] = self.nmsg
                e["live"] = self.api["started"] and not self.api["stop_called"] and not self.api["paused"]
                fn = lambda: dc.update(m)  # noqa: E731
        elif a == "Start":
            self.nrec += 1
            run = self.nrec

            def fn():      # what DataLogger does between two recordings: new metadata into the collection, then start()
                self.md.update(json.dumps({"run": run}))
                dc.update_metadata(self.md)
                dc.start()
            self.api.update(started=True, paused=False, stop_called=False, stopped=False)
        elif a == "Pause":
            fn = dc.pause
            self.api["paused"] = True
        elif a == "Resume":
            fn = dc.resume
            self.api["paused"] = False
        elif a == "Stop":
            fn = dc.stop
            self.api["stop_called"] = True
        elif a == "Close":
            fn = dc.close
            self.api["close_called"] = True
        else:
            raise HarnessError(f"unknown call {a}")
        self._incall = a
        self.sched.call(fn)
        return self._after(e)

    def op(self, who: str) -> Dict[str, Any]:
        cur = self.sched.run(who)
        e = _blank(th=who, a="Op", rec=self.nrec, op=cur.get("op", ""), ev=cur.get("ev", ""), res=bool(cur.get("res", False)))
        return self._after(e)

    def can(self, step: Dict[str, Any]) -> bool:
        th, a = step["th"], step["a"]
        if a == "Op":
            return self.sched.enabled(th)
        return th == "R" and self.sched.slots["R"].state == "idle" and not self.api["closed"]

    def do(self, step: Dict[str, Any]) -> Dict[str, Any]:
        self.steps.append({"th": step["th"], "a": step["a"], "t": step.get("t", ""), "dt": int(step.get("dt", 0))})
        if step["a"] == "Op":
            return self.op(step["th"])
        return self.begin(step["a"], step.get("t", ""), int(step.get("dt", 0)))

    def options(self, more_calls: bool) -> List[str]:
        """threads whose next step is not a no-op timeout: the choices of a code-driven schedule"""
        out = []
        if self.sched.slots["R"].state == "idle":
            if more_calls and not self.api["closed"]:
                out.append("R")
        elif self.sched.enabled("R") and not self.is_stutter("R"):
            out.append("R")
        if self.sched.enabled("W") and not self.is_stutter("W"):
            out.append("W")
        return out

    def run_script(self, script: List[Dict[str, Any]], prefix: Optional[List[str]] = None, rng=None, p_stutter: float = 0.0):
        """code-driven schedule: the recorder performs the API calls of `script` in order; at every point where both threads
        can take a step that is not a no-op, the next thread is prefix[k] / a random choice (rng) / the first option.
        Calls that share nothing with the writer (Start, Tick, Pause, Resume) are taken at once (they commute with every writer
        step; Start only while the writer is not in the middle of a flush).  Returns (result, alternative prefixes not taken beyond `prefix`)."""
        prefix = prefix or []
        ci, taken, alts = 0, [], []
        while len(self.steps) < 2000:
            idle = self.sched.slots["R"].state == "idle"
            wmid = (self.sched.slots["W"].pending or {}).get("op") == "io"   # writer in the middle of a flush: start() (new files) does not commute
            if idle and ci < len(script) and script[ci]["a"] in ("Start", "Tick", "Pause", "Resume") and not (wmid and script[ci]["a"] == "Start"):
                self.do(script[ci])
                ci += 1
                continue
            if rng is not None and p_stutter and rng.random() < p_stutter:
                for _ in range(30 if p_stutter > 0.9 else 1):      # > 0.9: a long run of polls that time out
                    for who in ("R", "W") if p_stutter > 0.9 else ("W", "R"):
                        if self.is_stutter(who):
                            self.do({"th": who, "a": "Op"})
                            break
                idle = self.sched.slots["R"].state == "idle"      # a call may have returned meanwhile
            opts = self.options(ci < len(script))
            if not opts:
                break
            k = len(taken)
            if k < len(prefix):
                c = prefix[k]
                if c not in opts:
                    raise HarnessError(f"schedule prefix not reproducible at choice {k}: {c} not in {opts}")
            elif rng is not None:
                c = opts[rng.randrange(len(opts))]
            else:
                c = opts[0]
                alts += [taken + [o] for o in opts[1:]]
            taken.append(c)
            if c == "R" and idle:
                self.do(script[ci])
                ci += 1
            else:
                self.do({"th": c, "a": "Op"})
        self.drain()
        res = self.result()
        res["choices"] = taken
        return res, alts

    def is_stutter(self, who: str) -> bool:
        """would scheduling `who` now be a wait() that times out without any effect?"""
        slot = self.sched.slots[who]
        p = slot.pending or {}
        if slot.state != "parked" or p.get("op") != "wait" or p["obj"].flag or p.get("timeout") is None:
            return False
        return who == "R" or not self.api["close_called"]

    def drain(self):
        """after the script: finish the pending call, stop and close under a fair schedule (never needed for a
        behaviour of the specification that the code follows)."""
        steps = 0
        turn = 0
        while steps < MAX_DRAIN:
            steps += 1
            rs = self.sched.slots["R"].state
            if rs == "idle":
                if not self.api["started"]:
                    self.begin("Start")
                elif not self.api["stop_called"]:
                    self.begin("Stop")
                elif not self.api["close_called"]:
                    self.begin("Close")
                else:
                    if self.sched.slots["W"].state == "parked" and self.sched.enabled("W"):
                        self.op("W")
                        continue
                    return
                continue
            en = [w for w in ("W", "R") if self.sched.enabled(w)]
            if en and all(self.is_stutter(w) for w in en):
                # every thread that can run is in a wait() whose event is down, and only another waiting thread could raise it:
                # nothing will ever change.  One round of timeouts is recorded, then the run ends (a stop() in progress = hang).
                for w in en:
                    self.op(w)
                break
            order = ("W", "R") if turn % 2 == 0 else ("R", "W")
            turn += 1
            for who in order:
                if self.sched.enabled(who):
                    self.op(who)
                    break
            else:
                break
        if self._incall == "Stop" or (self.api["stop_called"] and not self.api["stopped"]):
            self.hang = True

    # ---------------------------------------------------------------------------------------------------
    def run(self, behaviour: List[Dict[str, Any]], stutters: Optional[List[int]] = None) -> Dict[str, Any]:
        """execute a behaviour; `stutters`: indices before which a timing-out wait of W (or R) is interposed if possible"""
        st = set(stutters or [])
        for i, step in enumerate(behaviour):
            if i in st:
                for who in ("W", "R"):
                    if self.is_stutter(who):
                        self.do({"th": who, "a": "Op"})
                        break
            if not self.can(step):
                self.desync = i
                break
            self.do(step)
        self.drain()
        return self.result()

    def result(self) -> Dict[str, Any]:
        files, unread = self.read_back()
        ev = list(self.events)
        recs = [{"files": f, "badds": sorted({u.split(":")[0] for u in unread if u.split(":")[3] == str(r + 1)})} for r, f in enumerate(files)]
        ev.append(_blank(th="E", a="Files", rec=self.nrec, recs=recs, unread=sorted({u.split(":")[1] for u in unread}), hang=self.hang))
        return {"ev": ev, "order": writer_order(ev), "steps": list(self.steps), "desync": self.desync, "hang": self.hang, "files": files, "unread": unread,
                "script": [{"id": i, "t": self.msgs[i][0]} for i in sorted(self.msgs)]}

    # ---------------------------------------------------------------------------------------------------
    def _paths(self, name: str, ext: str, run: int) -> List[str]:
        """the files of data set `name` written by recording `run`: the base file, then the subdivisions in order"""
        d = os.path.join(self.dir, "out", "rec" if self.naming == "file" else f"rec{run}")
        if not os.path.isdir(d):
            return []
        stem = f"{name}_r{run}" if self.naming == "file" else name
        base = stem + ext
        subs = sorted(f for f in os.listdir(d) if f.startswith(stem + "_") and f.endswith(ext))
        return [os.path.join(d, f) for f in ([base] if os.path.exists(os.path.join(d, base)) else []) + subs]

    def read_back(self):
        """-> ([{ds: [[serial, ...] per file]} per recording], [ "<ds>:<format>:<why>:<recording>", ... ])"""
        from pyrtma.data_logger.data_formatter import get_formatter

        recs: List[Dict[str, List[List[int]]]] = []
        unread: List[str] = []
        for run in range(1, self.nrec + 1):
            files: Dict[str, List[List[int]]] = {}
            for name, fmt in zip(self.ds_names, self.fmts):
                ext = get_formatter(fmt).ext
                files[name] = []
                for p in self._paths(name, ext, run):
                    try:
                        ids = getattr(self, "_read_" + fmt)(p)
                    except Exception as e:  # noqa: BLE001 - whatever the package's reader raises
                        ids = []
                        unread.append(f"{name}:{fmt}:{type(e).__name__}:{run}")
                    files[name].append(ids)
            recs.append(files)
        return recs, sorted(set(unread))

    def _same(self, serial: int, hdr: bytes, data: Optional[bytes]):
        if serial not in self.msgs:
            raise ValueError(f"unknown serial {serial}")
        _, h, d, _ = self.msgs[serial]
        if hdr != h or (data is not None and data != d):
            raise ValueError(f"bytes of message {serial} differ")

    def _read_raw(self, path: str) -> List[int]:
        from pyrtma.header import MessageHeader
        import ctypes

        b = open(path, "rb").read()
        hs = ctypes.sizeof(MessageHeader)
        pos, out = 0, []
        while pos < len(b):
            if pos + hs > len(b):
                raise ValueError("truncated header")
            h = MessageHeader.from_buffer_copy(b[pos:pos + hs])
            n = h.num_data_bytes
            if n < 0 or pos + hs + n > len(b):
                raise ValueError("truncated payload")
            self._same(h.msg_count, b[pos:pos + hs], b[pos + hs:pos + hs + n])
            out.append(h.msg_count)
            pos += hs + n
        return out

    def _read_json(self, path: str) -> List[int]:
        out = []
        with open(path, "rt") as f:
            for line in f:
                m = self.pyrtma.Message.from_json(line)
                self._same(m.header.msg_count, bytes(m.header), bytes(m.data))
                out.append(m.header.msg_count)
        return out

    def _read_quicklogger(self, path: str) -> List[int]:
        from pyrtma.utils.quicklogger_reader import QLReader

        _counter[0] += 1
        modname = f"c17defs_{os.getpid()}_{_counter[0]}"
        defs = os.path.join(self.dir, modname + ".py")
        open(defs, "w").write("# message definitions for the C17 read-back: the core definitions only\n")
        path0 = list(sys.path)
        try:
            r = QLReader()
            r.load(path, defs, skip_unknown=False)
        finally:
            sys.path[:] = path0
            sys.modules.pop(modname, None)
        if r.file_header.num_messages != len(r.headers) or len(r.headers) != len(r.data) or len(r.messages) != len(r.headers):
            raise ValueError("header count mismatch")
        out = []
        for h, d, m in zip(r.headers, r.data, r.messages):
            self._same(h.msg_count, bytes(h), bytes(d))
            if bytes(m.header) != bytes(h) or bytes(m.data) != bytes(d):
                raise ValueError("messages differ from headers/data")
            out.append(h.msg_count)
        return out

    def _read_msg_header(self, path: str) -> List[int]:
        from pyrtma.header import MessageHeader

        out = []
        with open(path, "rt") as f:
            lines = f.read().split("\n")
        if lines and lines[-1] == "":
            lines.pop()
        if not lines:
            raise ValueError("no column line")
        cols = lines[0].split(",")
        if cols != list(MessageHeader().to_dict().keys()):
            raise ValueError("column line")
        for ln in lines[1:]:
            vals = ln.split(",")
            if vals and vals[-1] == "":
                vals.pop()
            if len(vals) != len(cols):
                raise ValueError("row width")
            d = dict(zip(cols, vals))
            serial = int(d["msg_count"])
            if serial not in self.msgs:
                raise ValueError(f"unknown serial {serial}")
            want = [str(v) for v in self.msgs[serial][3].header.to_dict().values()]
            if vals != want:
                raise ValueError(f"row of message {serial} differs")
            out.append(serial)
        return out


def writer_order(ev: List[Dict[str, Any]]) -> str:
    """the handshake the code has (observed): which of its two events the writer touches first after waking up, and whether the
    recorder asks write_finished ("handoff": the writer accepts the request with clear(w2d) BEFORE writing, the recorder's
    update tests is_set(fin), stop only waits for fin) or write_to_disk"""
    asks_fin = any(e["th"] == "R" and e["op"] == "is_set" and e["ev"] == "fin" for e in ev)
    asks_w2d = any(e["th"] == "R" and e["op"] == "is_set" and e["ev"] == "w2d" for e in ev)
    for i, e in enumerate(ev):
        if e["th"] == "W" and e["op"] == "wait" and e["res"]:
            seq = []
            for x in ev[i + 1:]:
                if x["th"] == "W":
                    if x["op"] == "wait":
                        break
                    seq.append("io" if x["op"] == "io" else f"{x['op']} {x['ev']}")
            if len([x for x in seq if x != "io"]) < 2 or "io" not in seq:
                continue
            shape = [x for k, x in enumerate(seq) if x != "io" or k == 0 or seq[k - 1] != "io"]   # runs of io collapsed
            if shape == ["clear w2d", "io", "set fin"] and asks_fin and not asks_w2d:
                return "handoff"
            if shape == ["io", "clear w2d", "set fin"] and not asks_fin:
                return "clear_then_set"
            if shape == ["io", "set fin", "clear w2d"] and not asks_fin:
                return "set_then_clear"
            return "other"
    return "unknown"


def run_behaviour(behaviour, fmts=("raw", "json"), intervals=(30, 0), typemap="std", stutters=None, naming="file") -> Dict[str, Any]:
    st = LoggerStand(fmts=fmts, intervals=intervals, typemap=typemap, naming=naming)
    try:
        return st.run(behaviour, stutters)
    finally:
        st.restore()


def run_schedule(script, prefix=None, seed=None, p_stutter=0.0, fmts=("raw", "json"), intervals=(30, 0), typemap="std", naming="file"):
    import random
    st = LoggerStand(fmts=fmts, intervals=intervals, typemap=typemap, naming=naming)
    try:
        return st.run_script(script, prefix, random.Random(seed) if seed is not None else None, p_stutter)
    finally:
        st.restore()


def probe_order() -> str:
    """one flush cycle on the real code: in which order does the writer clear the request / signal completion?"""
    R = lambda a, **kw: dict({"th": "R", "a": a}, **kw)  # noqa: E731
    W = {"th": "W", "a": "Op"}
    beh = [R("Start"), R("Tick", dt=16), R("Update", t="A"), R("Op"), R("Op"), R("Op"), W, W, W, W, R("Stop"), R("Op"), R("Op"), R("Op"),
           R("Close"), W, R("Op")]
    return run_behaviour(beh, fmts=("raw",))["order"]


def probe_elapsed_carried() -> bool:
    """does the elapsed time of a paused first recording carry over into the second one (start() leaves _elapsed_time alone)?
    Observed: recording 1 is paused after 16 s and stopped; the first update of recording 2, at second 0 of that recording,
    reaches a flush (a synchronisation operation) iff the elapsed time it sees is beyond WRITE_PERIOD."""
    R = lambda a, **kw: dict({"th": "R", "a": a}, **kw)  # noqa: E731
    st = LoggerStand(fmts=("raw",), intervals=(0,))

    def settle():
        """let the call in progress finish, whatever synchronisation operations it performs (the code under test may differ
        from the one this probe was written for)"""
        for _ in range(60):
            if st.sched.slots["R"].state == "idle":
                return True
            if st.sched.enabled("R"):
                st.do(R("Op"))
            elif st.sched.enabled("W"):
                st.do({"th": "W", "a": "Op"})
            else:
                return False
        return st.sched.slots["R"].state == "idle"

    try:
        for step in (R("Start"), R("Tick", dt=16), R("Pause"), R("Stop")):
            st.do(step)
            if not settle():
                return True         # cannot tell: keep the model of the unmodified code (the verdict is on the files anyway)
        st.do(R("Start"))
        if not settle():
            return True
        e = st.do(R("Update", t="A"))
        carried = not e["ret"]
        st.drain()
        return carried
    except HarnessError:
        return True
    finally:
        st.restore()


# ------------------------------------------------------------------------------------------------------------
def judge(res: Dict[str, Any]) -> Dict[str, Any]:
    """the C17 clauses on the files of one run, PER RECORDING (the same predicates DataLogger_Trace evaluates; used for
    cross-checking TLC's verdict and for the signature's input class).  detail[clause] = ["<ds>@<recording>", ...]"""
    arr = {e["id"]: e for e in res["ev"] if e["a"] == "Update" and e["t"] != "None"}
    out: Dict[str, List[str]] = {"Lost": [], "Duplicated": [], "Reordered": [], "WrongDataSet": [], "Extra": []}
    bad = {(u.split(":")[0], int(u.split(":")[3])) for u in res["unread"]}
    names = sorted({d for f in res["files"] for d in f})
    for d in names:
        sel = (lambda t: t == "A") if d == "d1" else (lambda t: True)
        allobs: List[Tuple[int, int]] = []
        for r, files in enumerate(res["files"], start=1):
            if (d, r) in bad or d not in files:
                continue
            tag = f"{d}@{r}"
            exp = [i for i in sorted(arr) if arr[i]["live"] and arr[i]["rec"] == r and sel(arr[i]["t"])]
            obs = [i for f in files[d] for i in f]
            allobs += [(i, r) for i in obs]
            if any(i not in obs for i in exp):
                out["Lost"].append(tag)
            core = [i for i in obs if i in exp]
            if any(core[k] > core[k + 1] for k in range(len(core) - 1)):
                out["Reordered"].append(tag)
            if any(i in arr and not sel(arr[i]["t"]) for i in obs):
                out["WrongDataSet"].append(tag)
            if any(i in arr and sel(arr[i]["t"]) and not (arr[i]["live"] and arr[i]["rec"] == r) for i in obs):
                out["Extra"].append(tag)
        # written exactly once: over ALL files of the data set (a message of recording 1 that shows up again in recording 2)
        seen: Dict[int, int] = {}
        for i, r in allobs:
            if i in seen:
                tag = f"{d}@{r}" if seen[i] == r else f"{d}@{seen[i]}+{r}"
                if tag not in out["Duplicated"]:
                    out["Duplicated"].append(tag)
            else:
                seen[i] = r
    cl = ["C17." + k for k in ("Lost", "Duplicated", "Reordered", "WrongDataSet") if out[k]]
    for u in res["unread"]:
        c = f"C17.FileUnreadable({u.split(':')[1]})"
        if c not in cl:
            cl.append(c)
    if res["hang"]:
        cl.append("C17.StopHangs")
    return {"clauses": cl, "detail": out}
