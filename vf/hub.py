"""hub -- drives the real pyrtma MessageManager (and real Clients) on vio and records
abstract traces in the vocabulary of spec/Manager.tla.

One manager loop iteration (= one `round`) yields the events
    Begin            accept / write-snapshot phase
    Svc*             one per frame (or short read / reset) the manager read, in service order
    End              timers; emissions after the last frame read are attributed to the last Svc
                     *and* End together (event "Svc" with "end": true, or a bare "End")
"""
from __future__ import annotations

import os
import sys
from typing import Any, Dict, List, Optional

sys.path.insert(0, __import__("os").environ.get("VF_REPO", "/repo") + "/src")

from . import frames as F
from .vio import Net, Installed, HarnessError

TICK = 0.5  # seconds of virtual time per spec tick


class Hub:
    def __init__(self, timecode: bool = False, timing: bool = True, log_level: int = 100, salt: int = 0,
                 chunk: Optional[int] = None, space: Optional[int] = None, debug: bool = False):
        from . import vio

        vio._HASH_SALT[0] = (0x9E3779B1 * (salt + 1)) & 0x7FFFFFFF
        self.timecode = timecode
        self.chunk = chunk
        self.space = space
        self.hs = F.hdr_struct(timecode).size
        self.net = Net()
        self._inst = Installed(self.net)
        self._inst.__enter__()
        import pyrtma.manager as M

        self.M = M
        self.mgr = M.MessageManager(ip_address="127.0.0.1", port=7111, timecode=timecode,
                                    log_level=log_level, debug=debug, send_msg_timing=timing)
        self.timing = timing
        self.payloads = F.Payloads()
        self.events: List[dict] = []
        self.raw: Dict[str, Any] = {}
        self.net.pump_policy = lambda: {}
        self._orig_step = self.net.step
        self.net.step = self._recording_step  # every manager iteration is recorded
        self._orig_step_active = False
        self.net.start_manager(self.mgr)
        self.crashed: Optional[str] = None
        self.closed_by_mgr: set = set()
        self.rx: Dict[str, List[dict]] = {}  # all abstract frames ever emitted per connection

    @classmethod
    def adopt(cls, net, mgr, timecode: bool) -> "Hub":
        """attach the recorder to a manager that somebody else created and runs (pytest plugin)"""
        h = cls.__new__(cls)
        h.timecode, h.chunk, h.space = timecode, None, None
        h.hs = F.hdr_struct(timecode).size
        h.net, h.mgr, h.timing = net, mgr, True
        h._inst = None
        h.payloads = F.Payloads()
        h.events, h.raw = [], {}
        h.crashed, h.closed_by_mgr, h.rx = None, set(), {}
        h._orig_step = net.step
        net.step = h._recording_step
        return h

    # ------------------------------------------------------------------ env
    def open(self, name: str):
        c = self.net.open_conn(name)
        self.net.ends[name].chunk = self.chunk
        self.net.ends[name].space_per_round = self.space
        self.net.ends[name].space = self.space
        self.raw[name] = c
        self.events.append({"a": "Open", "c": name})
        return c

    def frame_bytes(self, f: Dict[str, Any]) -> bytes:
        """abstract client frame -> bytes. f: t src dst dhost p [+ nb(forced num_data_bytes), ver, shost]"""
        p = f.get("p", {"k": "none"})
        if p["k"] == "d":
            payload = p.get("bytes")
            if payload is None:
                size = p.get("size", 8)
                seed = p.get("id", 1)
                payload = bytes(((seed * 131 + i * 7) & 0xFF) for i in range(size))
        elif p["k"] == "rawp":
            payload = p["bytes"]
        else:
            payload = F.build_control(p)
        nb = f.get("nb", len(payload))
        h = F.build_header(self.timecode, f["t"], f.get("src", 0), f.get("dst", 0), f.get("dhost", 0), nb,
                           count=f.get("count", 0), shost=f.get("shost", 0), version=f.get("ver", 0),
                           send_time=f.get("st", 1.25), remaining=f.get("rem", 0), is_dynamic=f.get("dyn", 0))
        return h + payload

    def send(self, name: str, f: Dict[str, Any]):
        self.send_raw(name, self.frame_bytes(f))

    def send_raw(self, name: str, b: bytes):
        self.net.cli[name].sendall(b)

    def fin(self, name: str, partial: bytes = b""):
        c = self.net.cli[name]
        if partial:
            c.sendall(partial)
        c.close()

    def rst(self, name: str):
        self.net.cli[name].peer_reset()
        self.events.append({"a": "Die", "c": name})

    def die(self, name: str, mode: str = "hdr"):
        """The peer is gone without the manager having noticed: its writes fail.
        mode "hdr": the next sendall fails; "pay": the next sendall succeeds, the one after fails."""
        s = self.net.ends[name]
        s.fail_after = 0 if mode == "hdr" else 1
        s.fail_exc = BrokenPipeError if mode == "hdr" else ConnectionResetError
        self.events.append({"a": "Die", "c": name})

    def tick(self, n: int = 1):
        self.net.now += n * TICK

    def now_ticks(self) -> int:
        return int(round(self.net.now / TICK))

    # ---------------------------------------------------------------- rounds
    def round(self, readable=None, order=None, writable=None, accept=None) -> List[dict]:
        n0 = len(self.events)
        self.net.step({"readable": readable, "order": order, "writable": writable, "accept": accept})
        return self.events[n0:]

    def run_until_quiet(self, limit=1000):
        n = 0
        while not self.net.quiescent():
            self.round()
            n += 1
            if n > limit:
                raise HarnessError("no quiescence")

    def _recording_step(self, cmd):
        i0 = len(self.net.log)
        self._orig_step(cmd)
        if cmd.get("stop"):
            return
        evs = self._extract(self.net.log[i0:])
        self.events.extend(evs)
        if self.net.mgr_dead and self.crashed is None and self.net.mgr_exc is not None:
            e = self.net.mgr_exc
            self.crashed = f"{type(e).__name__}@{_innermost(self.net.mgr_tb)}"
            self.events.append({"a": "Crash", "exc": type(e).__name__, "where": _innermost(self.net.mgr_tb)})

    # ---------------------------------------------------------- log -> events
    def _extract(self, log: List[tuple]) -> List[dict]:
        evs: List[dict] = []
        begin = {"a": "Begin", "acc": "", "nread": 0, "refresh": False, "W": []}
        cur: Optional[dict] = None
        cur_bytes: Dict[str, bytearray] = {}
        any_round = False

        def flush():
            nonlocal cur, cur_bytes
            if cur is None:
                return
            if cur["a"] == "Svc":
                got = bytes(cur.pop("_got"))
                short, rst = cur.pop("_short"), cur.pop("_rst")
                if rst:
                    cur["in"] = {"k": "rst"}
                elif len(got) < self.hs:
                    cur["in"] = {"k": "fin"}
                else:
                    hb = got[: self.hs]
                    hh = F.parse_header(hb, self.timecode)
                    nb = hh["num_data_bytes"]
                    if nb >= 0 and len(got) == self.hs + nb:
                        cur["in"] = self._abs_in(hb, got[self.hs:])
                    elif short:
                        cur["in"] = {"k": "fin"}
                    else:
                        cur["in"] = {"k": "badlen", "t": hh["msg_type"], "nb": nb, "got": len(got) - self.hs}
            emit = {}
            for c, bs in cur_bytes.items():
                frs, rest = F.split_frames(bytes(bs), self.timecode)
                lst = [self._abs_out(h, p) for h, p in frs]
                if lst:
                    emit[c] = lst
                    self.rx.setdefault(c, []).extend(lst)
                if rest:
                    cur.setdefault("partial", []).append(c)
            cur["emit"] = emit
            evs.append(cur)
            cur, cur_bytes = None, {}

        for e in log:
            kind, name, side = e[0], e[1], e[2]
            if kind == "rsel":
                any_round = True
                names = e[3]
                begin["nread"] = len([n for n in names if n != "L"])
                begin["lsn"] = "L" in names
            elif kind == "accept":
                begin["acc"] = name
            elif kind == "wsel":
                begin["refresh"] = True
                begin["W"] = sorted(e[3])
            elif kind == "shuffle":
                begin["order"] = e[3]
            elif kind == "recv" and side == "srv":
                nreq, data = e[3], e[4]
                # a connection is serviced at most once per loop iteration: its first read starts the
                # step; how many recv calls the code needs for one frame is its own business
                if cur is None or cur.get("a") != "Svc" or cur["c"] != name:
                    flush()
                    cur = {"a": "Svc", "c": name, "lw": [], "closed": [], "_got": bytearray(), "_short": False,
                           "_rst": False}
                if data == -1:
                    cur["_rst"] = True
                else:
                    cur["_got"] += data
                    if len(data) < nreq and (len(data) == 0 or self.net.ends[name].fin_in):
                        cur["_short"] = True
            elif kind == "send" and side == "srv":
                if cur is None:
                    cur = {"a": "End", "lw": [], "closed": []}
                data, err = e[3], e[4]
                if err is None:
                    cur_bytes.setdefault(name, bytearray()).extend(data)
                else:
                    cur.setdefault("werr", []).append([name, err])
                    # the write of an EMPTY payload failed: the header that went out just before it
                    # belongs to a frame the manager considers undelivered (the peer is gone)
                    bs = cur_bytes.get(name)
                    if err != "BlockingIOError" and len(data) == 0 and bs is not None and len(bs) >= self.hs:
                        frs, rest = F.split_frames(bytes(bs), self.timecode)
                        if not rest and frs and len(frs[-1][1]) == 0:
                            del bs[len(bs) - self.hs:]
                            cur.setdefault("partial", []).append(name)
            elif kind == "close" and side == "srv":
                if cur is None:
                    cur = {"a": "End", "lw": [], "closed": []}
                cur["closed"].append(name)
                self.closed_by_mgr.add(name)
            elif kind == "lwait":
                if cur is None:
                    cur = {"a": "End", "lw": [], "closed": []}
                cur["lw"].append(name)
        flush()
        out = []
        if any_round:
            out.append(begin)
        now = self.now_ticks()
        if evs and evs[-1]["a"] == "Svc":
            evs[-1]["end"] = True
            evs[-1]["now"] = now
        elif evs and evs[-1]["a"] == "End":
            evs[-1]["now"] = now
        else:
            evs.append({"a": "End", "lw": [], "closed": [], "emit": {}, "now": now})
        for ev in evs:
            if ev["a"] == "Svc" and "end" not in ev:
                ev["end"] = False
                ev["now"] = now
        # a bare End that follows Svc events cannot occur (flush order); keep order
        out.extend(evs)
        return out

    def _abs_in(self, hdr: bytes, payload: bytes) -> dict:
        h = F.parse_header(hdr, self.timecode)
        t = h["msg_type"]
        item = {"k": "f", "t": t, "src": h["src_mod_id"], "dst": h["dest_mod_id"], "dhost": h["dest_host_id"]}
        if t in F.CONTROL_TYPES:
            p = F.control_payload(t, payload)
            if p is None:
                p = {"k": "bad", "size": len(payload)}
            item["p"] = p
        else:
            item["p"] = {"k": "d", "id": self.payloads.register(hdr, payload)}
        return item

    def _abs_out(self, hdr: bytes, payload: bytes) -> dict:
        h = F.parse_header(hdr, self.timecode)
        t = h["msg_type"]
        fr = {"t": t, "src": h["src_mod_id"], "dst": h["dest_mod_id"], "dhost": h["dest_host_id"],
              "seq": h["msg_count"]}
        pid = self.payloads.lookup(hdr, payload)
        if pid != -1:
            fr["p"] = {"k": "d", "id": pid}
            return fr
        p = F.manager_payload(t, payload, self.timecode) if h["src_mod_id"] == 0 else None
        fr["p"] = p if p is not None else {"k": "d", "id": -1}
        return fr

    # -------------------------------------------------------------- teardown
    def alive(self) -> bool:
        return not self.net.mgr_dead

    def close(self):
        self._inst.__exit__(None, None, None)

    def diagnostics(self) -> dict:
        m = self.mgr
        try:
            return {
                "modules": [[getattr(s, "name", "L"), mod.mod_id, mod.name, sorted(mod.subs), mod.connected, mod.is_logger]
                            for s, mod in m.modules.items()],
                "wlist": [getattr(s, "name", "?") for s in m.wlist],
            }
        except Exception as e:  # pragma: no cover
            return {"error": repr(e)}


def _innermost(tb: str) -> str:
    fn = "?"
    for line in tb.splitlines():
        line = line.strip()
        if line.startswith("File ") and "/pyrtma/" in line and ", in " in line:
            fn = line.rsplit(", in ", 1)[1]
    return fn
