"""codecdrv -- executes the conversion paths exported by Codec.tla on the REAL pyrtma message classes (C10).

For a class `cls`, a validator kind and a value class, `build_value` constructs a message THROUGH THE VALIDATED FIELD
API (descriptor assignment only): every field of that kind -- scalar, array element, inside nested structs and struct
arrays -- holds a value of the class, every other field a plain background value.  `run_paths` then walks the trie of
exported paths; at every object state `bytes(obj)` is compared with the original, a copy is scribbled over and the
source read again, header-plus-data JSON is built with a header version hash of class zero / same / different.
"""
from __future__ import annotations

import copy as _copy
import ctypes
import importlib.util
import json
import struct
import sys
from typing import Any, Dict, List, Optional, Tuple

from . import engine, valdrv
from .probedefs import FLOAT_KINDS, INT_KINDS

sys.path.insert(0, __import__("os").environ.get("VF_REPO", "/repo") + "/src")

TARGET = {"ToBytes": "bytes", "FromBytes": "obj", "ToDict": "dict", "FromDict": "obj", "ToJson": "json", "FromJson": "obj",
          "DictToJson": "json", "JsonToDict": "dict", "MsgToJson": "mjson", "MsgFromJson": "obj", "Copy": "obj", "MsgCopy": "obj",
          "MutateCopy": "obj", "EditDict": "obj"}
CLOSE = {"bytes": ("FromBytes", "-"), "dict": ("FromDict", "-"), "json": ("FromJson", "-"), "mjson": ("MsgFromJson", "-")}
MSG_ACTIONS = {"MsgToJson", "MsgFromJson", "MsgCopy"}


# ------------------------------------------------------------------------------------------------------------------
# classes
# ------------------------------------------------------------------------------------------------------------------
def load_module(path: str, name: str):
    spec = importlib.util.spec_from_file_location(name, path)
    mod = importlib.util.module_from_spec(spec)
    sys.modules[name] = mod
    with engine.Quiet():
        spec.loader.exec_module(mod)
    return mod


def message_classes(mod) -> List[type]:
    from pyrtma.message_base import MessageBase
    from pyrtma.message_data import MessageData

    out = []
    for name, obj in vars(mod).items():
        if isinstance(obj, type) and issubclass(obj, MessageBase) and obj not in (MessageBase, MessageData) \
                and obj.__module__ == mod.__name__:
            out.append(obj)
    return out


def is_message(cls) -> bool:
    from pyrtma.message_data import MessageData

    return issubclass(cls, MessageData) and isinstance(getattr(cls, "type_id", -1), int) and cls.type_id >= 0


def kinds_in(cls, seen=None) -> set:
    """validator kinds (leaf kinds + String) that occur in cls, recursively"""
    out = set()
    for name, desc in valdrv.all_fields(cls):
        cont, ek, n, sc = valdrv.kind_of(desc)
        if cont in ("Struct", "StructArray"):
            out |= kinds_in(sc)
        elif cont != "?":
            out.add("String" if cont == "String" else ek)
    return out


# ------------------------------------------------------------------------------------------------------------------
# values
# ------------------------------------------------------------------------------------------------------------------
NEGNAN = -float("nan")
NAN_PAYLOAD_D = struct.unpack("<d", bytes.fromhex("010000000000f87f"))[0]
NAN_PAYLOAD_F = struct.unpack("<f", bytes.fromhex("0100c07f"))[0]


def _concretes(kind: str, tag: str, n: int) -> List[Any]:
    if tag == "NEGNAN":
        return [NEGNAN]
    if tag == "NANPAYLOAD":
        return [NAN_PAYLOAD_F if kind == "Float" else NAN_PAYLOAD_D]
    if tag == "MIXED":
        if kind in INT_KINDS:
            lo, hi = valdrv.int_range(kind)
            return [lo, hi, 0, 1] + ([-1] if lo < 0 else [hi - 1])
        if kind == "Byte":
            return [0, 255, 1, 128, 65]
        return [valdrv._scalar_values(None, kind, t, n)[0][1]() for t in ("F1_5", "F0_1", "FULLPREC", "FMAX", "NFMAX", "NEGZERO", "SUBN", "NAN", "BIGINT")]
    if kind == "Byte" and n:          # inside a list the element is given as an integer
        return [v[0] if isinstance(v, (bytes, bytearray)) else v for v in (f() for _, f in valdrv._scalar_values(None, kind, tag, 0))]
    return [f() for _, f in valdrv._scalar_values(None, kind, tag, n)]


def _assign_string(parent, name: str, tag: str, n: int, variant: int):
    m = n - 1
    if tag in ("STALE", "STALE_NUL"):
        setattr(parent, name, "x" * m)                       # a longer string first ...
        short = ["a", ""] if tag == "STALE" else (["a\x00b", "ab\x00"] if m >= 3 else ["\x00"])
        setattr(parent, name, short[variant % len(short)][:m])   # ... then a shorter one over it
        return
    vals = _concretes("String", tag, n)
    setattr(parent, name, vals[variant % len(vals)])


SPARSE = 100        # variant numbers >= SPARSE: struct arrays keep their elements after the first unset (all bytes zero)


def has_struct_array(cls) -> bool:
    for name, desc in valdrv.all_fields(cls):
        cont, ek, n, sc = valdrv.kind_of(desc)
        if cont == "StructArray" and n >= 2:
            return True
        if cont in ("Struct", "StructArray") and sc is not None and has_struct_array(sc):
            return True
    return False


def build_into(obj, kind: str, tag: str, variant: int, salt: int = 0, sparse: bool = False) -> bool:
    """fill obj through the validated API; True if some field of `kind` received a value of class `tag`"""
    found = False
    for j, (name, desc) in enumerate(valdrv.all_fields(type(obj))):
        cont, ek, n, sc = valdrv.kind_of(desc)
        if cont == "?":
            continue
        if cont == "Struct":
            found |= build_into(getattr(obj, name), kind, tag, variant + j, salt + j + 1, sparse)
        elif cont == "StructArray":
            for e, x in enumerate(getattr(obj, name)):
                if sparse and e >= 1:
                    break
                found |= build_into(x, kind, tag, variant + j + e, salt + j + e + 2, sparse)
        elif cont == "String":
            if kind == "String":
                _assign_string(obj, name, tag, n, variant + j)
                found = True
            else:
                setattr(obj, name, ("bg%d" % (salt + j))[: n - 1])
        elif ek == kind:
            vals = _concretes(kind, tag, n)
            if n:
                seq = [vals[(variant + j + e) % len(vals)] for e in range(n)]
                setattr(obj, name, bytes(seq) if (cont == "ByteArray" and all(isinstance(v, int) and not isinstance(v, bool) for v in seq) and (variant + j) % 2) else seq)
            else:
                setattr(obj, name, vals[(variant + j) % len(vals)])
            found = True
        else:
            if cont == "Char":
                setattr(obj, name, "abcdefgh"[(salt + j) % 8])
            elif cont == "ByteArray":
                setattr(obj, name, bytes(((salt + j + e) * 37 + 1) % 256 for e in range(n)))
            elif n:
                setattr(obj, name, [valdrv._bg(ek, salt + j + e) for e in range(n)])
            else:
                setattr(obj, name, valdrv._bg(ek, salt + j))
    return found


def build_value(cls, kind: str, tag: str, variant: int):
    obj = cls()
    sparse = variant >= SPARSE
    variant %= SPARSE
    if not build_into(obj, kind, tag, variant, salt=variant, sparse=sparse):
        return None
    return obj


# ------------------------------------------------------------------------------------------------------------------
# paths
# ------------------------------------------------------------------------------------------------------------------
def extend(path: List[Tuple[str, str]]) -> Tuple[Tuple[str, str], ...]:
    """close a path that ends in a non-object representation with the canonical decoding step"""
    rep = "obj"
    for a, p in path:
        rep = TARGET[a]
    out = list(path)
    if rep in CLOSE:
        out.append(CLOSE[rep])
    return tuple(out)


class Trie:
    """prefix tree of conversion paths; every node (= path prefix) has a stable integer id"""

    def __init__(self, paths):
        self.ids: Dict[tuple, int] = {(): 0}
        self.prefix: List[tuple] = [()]
        self.children: List[Dict[Tuple[str, str], int]] = [{}]
        for p in sorted(set(tuple(x) for x in paths)):
            self.add(p)

    def add(self, path):
        node = 0
        for i, e in enumerate(path):
            nxt = self.children[node].get(e)
            if nxt is None:
                nxt = len(self.prefix)
                self.ids[tuple(path[: i + 1])] = nxt
                self.prefix.append(tuple(path[: i + 1]))
                self.children.append({})
                self.children[node][e] = nxt
            node = nxt

    def sub(self, paths) -> Dict[int, List[Tuple[Tuple[str, str], int]]]:
        """adjacency (node id -> [(edge, child id)]) of the sub-tree spanned by `paths` (ids of the full trie)"""
        adj: Dict[int, List[Tuple[Tuple[str, str], int]]] = {}
        seen = set()
        for p in paths:
            node = 0
            for e in p:
                nxt = self.children[node][e]
                if nxt not in seen:
                    seen.add(nxt)
                    adj.setdefault(node, []).append((e, nxt))
                node = nxt
        return adj

    def full(self) -> Dict[int, List[Tuple[Tuple[str, str], int]]]:
        return {n: list(ch.items()) for n, ch in enumerate(self.children) if ch}

    def leaves(self) -> List[int]:
        return [n for n, ch in enumerate(self.children) if not ch and n]


def segments(paths) -> List[tuple]:
    """the object-to-object segments (no object state strictly inside) that occur at the START of the exported paths"""
    out = set()
    for p in paths:
        seg = []
        for e in p:
            seg.append(e)
            if TARGET[e[0]] == "obj" and e[0] not in ("Copy", "MsgCopy"):
                break
        out.add(tuple(seg))
    return sorted(out)


class Failure(Exception):
    def __init__(self, status: str, detail: str = ""):
        super().__init__(status)
        self.status, self.detail = status, detail


def different_versions(h: int) -> List[int]:
    c = [(h + 1) & 0xFFFFFFFF, h ^ 0xFFFFFFFF, 1, 0xFFFFFFFF, h ^ 0x80000000]
    out = []
    for x in c:
        if x != 0 and x != h and x not in out:
            out.append(x)
    return out[:3]


def _header(cls, size: int, version: int, variant: int):
    from pyrtma.header import MessageHeader

    h = MessageHeader()
    h.msg_type = cls.type_id
    h.msg_count = [2 ** 31 - 1, 1, -(2 ** 31)][variant % 3]
    h.send_time = [1.5, -0.0, 1.7976931348623157e308][variant % 3]
    h.recv_time = [float("nan"), 0.1, 5e-324][variant % 3]
    h.src_host_id = -(2 ** 15)
    h.src_mod_id = 2 ** 15 - 1
    h.dest_host_id = variant % 7
    h.dest_mod_id = 3
    h.num_data_bytes = size
    h.remaining_bytes = 0
    h.is_dynamic = variant % 2
    h.version = version
    return h


def _scribble(obj):
    n = ctypes.sizeof(obj)
    if n:
        pat = bytes((b ^ 0xA5) & 0xFF for b in bytes(obj))
        ctypes.memmove(ctypes.addressof(obj), pat, n)


def _edit_in_place(d):
    """edit every leaf of a to_dict() result in place (containers keep their identity, as a caller's edit would)"""
    items = d.items() if isinstance(d, dict) else enumerate(d)
    for k, v in list(items):
        if isinstance(v, (dict, list)):
            _edit_in_place(v)
        elif isinstance(v, bool):
            d[k] = not v
        elif isinstance(v, int):
            d[k] = 1 if v == 0 else 0
        elif isinstance(v, float):
            d[k] = 1.5 if v != 1.5 else 2.5
        elif isinstance(v, str):
            d[k] = v + "x"
        else:
            d[k] = 1


class Walker:
    """executes a trie of conversion paths on one object of one class"""

    def __init__(self, cls, obj, variant: int):
        self.cls, self.obj0, self.b0, self.variant = cls, obj, bytes(obj), variant
        self.msg = is_message(cls)
        self.status: Dict[int, Tuple[str, str]] = {}         # trie node id (= path prefix) -> (status, detail)

    def check_obj(self, o):
        if type(o).__name__ != self.cls.__name__ and getattr(type(o), "type_name", None) != getattr(self.cls, "type_name", None):
            raise Failure("differs", "class " + type(o).__name__)
        if bytes(o) != self.b0:
            raise Failure("differs", first_diff(self.cls, self.b0, bytes(o)))

    def apply(self, a: str, p: str, rep: str, x: Any, src: Any):
        """-> (rep', payload', src')"""
        from pyrtma.exceptions import InvalidMessageDefinition
        from pyrtma.message import Message, message_def
        from pyrtma.message_base import RTMAJSONEncoder

        cls = self.cls
        if a in MSG_ACTIONS and not self.msg:
            raise Failure("skipped")
        if a == "ToBytes":
            return "bytes", bytes(x), src
        if a == "FromBytes":
            return "obj", cls.from_buffer_copy(x), src
        if a == "ToDict":
            return "dict", x.to_dict(), src
        if a == "FromDict":
            return "obj", cls.from_dict(_copy.deepcopy(x)), src
        if a == "EditDict":
            # the caller edits the result it holds; the untouched message is then converted again
            def text(d):
                return json.dumps(d, cls=RTMAJSONEncoder, sort_keys=True)
            mine = self.obj0.to_dict()          # (x itself is shared with the sibling paths of the trie: edit an own result)
            before = text(mine)
            other = self.obj0.to_dict()         # a second result, handed out before the edit
            _edit_in_place(mine)
            if bytes(self.obj0) != self.b0:
                raise Failure("shares", "editing a to_dict() result changed the message")
            if text(other) != before:
                raise Failure("shares", "editing a to_dict() result changed another result handed out earlier")
            if text(self.obj0.to_dict()) != before:
                raise Failure("shares", "editing a to_dict() result changed a later to_dict() of the untouched message")
            return "obj", cls.from_buffer_copy(self.b0), src     # (not obj0 itself: a retained copy source may be obj0)
        if a == "ToJson":
            return "json", x.to_json(minify=(p == "minify")), src
        if a == "FromJson":
            return "obj", cls.from_json(x), src
        if a == "DictToJson":
            return "json", json.dumps(x, cls=RTMAJSONEncoder), src
        if a == "JsonToDict":
            return "dict", json.loads(x), src
        if a == "MsgToJson":
            vers = {"zero": [0], "same": [cls.type_hash], "different": different_versions(cls.type_hash)}[p]
            out = []
            for v in vers:
                h = _header(cls, ctypes.sizeof(x), v, self.variant)
                out.append((Message(h, x).to_json(minify=bool(self.variant % 2)), bytes(h)))
            return "mjson", (p, out), src
        if a == "MsgFromJson":
            vclass, items = x
            message_def(cls)                 # the local definition of this type id is `cls` (public registration API)
            res, refused = None, 0
            for s, hb in items:
                try:
                    m = Message.from_json(s)
                except InvalidMessageDefinition:
                    refused += 1
                    continue
                if bytes(m.header) != hb:
                    raise Failure("differs", "header")
                res = m.data
            if refused == len(items):
                raise Failure("refused")
            if refused:
                raise Failure("differs" if vclass != "different" else "ok-not-refused", "some versions refused, some not")
            return "obj", res, src
        if a == "Copy":
            return "obj", cls.copy(x), x
        if a == "MsgCopy":
            h = _header(cls, ctypes.sizeof(x), cls.type_hash, self.variant)
            m = Message(h, x)
            c = Message.copy(m)
            if bytes(c.header) != bytes(h):
                raise Failure("differs", "header")
            return "obj", c.data, x
        if a == "MutateCopy":
            if src is None:
                raise Failure("skipped")
            # the trie shares x and src with sibling branches: every write is undone before returning
            _scribble(x)
            changed = bytes(src) != self.b0
            _scribble(x)
            if changed:
                raise Failure("shares", "write into the copy changed the source")
            _scribble(src)
            changed = bytes(x) != self.b0
            _scribble(src)
            if changed:
                raise Failure("shares", "write into the source changed the copy")
            return "obj", src, None
        raise KeyError(a)

    def walk(self, adj: dict, node: int, rep: str, x: Any, src: Any):
        for (a, p), child in adj.get(node, ()):
            try:
                r2, x2, s2 = self.apply(a, p, rep, x, src)
                if r2 == "obj":
                    self.check_obj(x2)
            except Failure as f:
                if f.status == "ok-not-refused":
                    self.status[child] = ("ok", f.detail)
                    continue
                self.status[child] = (f.status, f.detail)
                self._skip(adj, child)
                continue
            except (KeyboardInterrupt, SystemExit):
                raise
            except BaseException as ex:   # noqa: BLE001 -- a conversion that raises is a failed round trip
                self.status[child] = ("raised", type(ex).__name__)
                self._skip(adj, child)
                continue
            self.status[child] = ("ok", "")
            self.walk(adj, child, r2, x2, s2)

    def _skip(self, adj: dict, node: int):
        for e, child in adj.get(node, ()):
            self.status[child] = ("skipped", "")
            self._skip(adj, child)


def first_diff(cls, b0: bytes, b1: bytes) -> str:
    """container kind of the first top-level field whose bytes differ"""
    if len(b0) != len(b1):
        return "size"
    off = next((i for i in range(len(b0)) if b0[i] != b1[i]), -1)
    for name, desc in valdrv.all_fields(cls):
        f = getattr(cls, "_" + name, None)
        if f is not None and hasattr(f, "offset") and f.offset <= off < f.offset + f.size:
            kd = valdrv.kind_of(desc)
            return f"{kd[0]}({kd[1]})" if kd[0].endswith("Array") and kd[0] != "ByteArray" else kd[0]
    return "?"


def run_paths(cls, kind: str, tag: str, variant: int, adj: dict) -> Optional[Dict[int, Tuple[str, str]]]:
    """node id -> (status, detail) for the sub-trie `adj`, or None if cls has no field of that kind"""
    obj = build_value(cls, kind, tag, variant)
    if obj is None:
        return None
    w = Walker(cls, obj, variant)
    w.walk(adj, 0, "obj", obj, None)
    return w.status


def run_default(cls, variant: int, adj: dict) -> Dict[int, Tuple[str, str]]:
    """the same walk on a default-constructed object (all bytes zero)"""
    obj = cls()
    w = Walker(cls, obj, variant)
    w.walk(adj, 0, "obj", obj, None)
    return w.status
