"""clientdrv -- a REAL pyrtma Client talking to the REAL manager over vio; records, after every API
call, what the client reports and what the manager delivers to its socket."""
from __future__ import annotations

import warnings
from typing import Any, Dict, List, Optional

from .hub import Hub
from . import scenarios, frames as F

UNIVERSE = [101, 102, 103, 199]


class ClientStand:
    def __init__(self, timecode: bool = False, salt: int = 0, module_id: int = 10, via_context: bool = False,
                 argform: str = "list"):
        self.h = Hub(timecode=timecode, salt=salt)
        import pyrtma.client as C
        import pyrtma.exceptions as E

        self.C, self.E = C, E
        self.argform = argform
        h = self.h
        h.open("p")
        h.send("p", scenarios.con(77))
        h.run_until_quiet()
        self._cm = None
        if via_context:
            self._cm = C.client_context(module_id=module_id, server_name="127.0.0.1:7111", timecode=timecode)
            self.c = self._cm.__enter__()
        else:
            self.c = C.Client(module_id=module_id, timecode=timecode)
            self.c.connect("127.0.0.1:7111")
        h.run_until_quiet()
        self.kname = [n for n in h.net.ends if n.startswith("k")][-1]
        self.ctxs: List[Any] = []
        self.events: List[dict] = []
        self.nprobe = 0

    def _arg(self, L):
        L = [int(x) for x in L]
        if self.argform == "tuple":
            return tuple(L)
        return list(L)

    def observe(self) -> Dict[str, Any]:
        h = self.h
        h.run_until_quiet()
        n0 = len(h.rx.get(self.kname, []))
        for t in UNIVERSE:
            self.nprobe += 1
            h.send("p", {"k": "f", "t": t, "src": 77, "dst": 0, "dhost": 0, "p": {"k": "d", "id": 5000 + self.nprobe, "size": 8}})
        h.run_until_quiet()
        got = [f for f in h.rx.get(self.kname, [])[n0:] if f["p"].get("k") == "d"]
        # the harness empties the client's socket so that queued probes never reach the API under test
        self.h.net.cli[self.kname].inbuf.clear()
        return {"sub": sorted(self.c.subscribed_types), "paused": sorted(self.c.paused_subscribed_types),
                "deliv": sorted({f["t"] for f in got}), "ncopies": len(got)}

    def op(self, name: str, L=()):
        c = self.c
        raised = False
        err = None
        with warnings.catch_warnings():
            warnings.simplefilter("ignore")
            try:
                if name == "Subscribe":
                    c.subscribe(self._arg(L))
                elif name == "Unsubscribe":
                    c.unsubscribe(self._arg(L))
                elif name == "Pause":
                    c.pause_subscription(self._arg(L))
                elif name == "Resume":
                    c.resume_subscription(self._arg(L))
                elif name == "UnsubscribeFromAll":
                    c.unsubscribe_from_all()
                elif name == "PauseAll":
                    c.pause_all_subscriptions()
                elif name == "ResumeAll":
                    c.resume_all_subscriptions()
                elif name == "EnterSubCtx":
                    cm = c.subscription_context(self._arg(L))
                    cm.__enter__()
                    self.ctxs.append(cm)
                elif name == "EnterPauseCtx":
                    cm = c.paused_subscription_context(self._arg(L))
                    cm.__enter__()
                    self.ctxs.append(cm)
                elif name == "ExitCtx":
                    cm = self.ctxs.pop()
                    cm.__exit__(None, None, None)
                else:
                    raise ValueError(name)
            except self.E.InvalidSubscription:
                raised = True
            except Exception as e:  # noqa
                raised = True
                err = type(e).__name__
        ev = {"op": name, "L": [int(x) for x in L], "raised": raised}
        if err:
            ev["err"] = err
        ev.update(self.observe())
        self.events.append(ev)
        return ev

    def close(self):
        try:
            if self._cm is not None:
                try:
                    self._cm.__exit__(None, None, None)
                except Exception:
                    pass
            else:
                self.c.disconnect()
        finally:
            self.h.close()
