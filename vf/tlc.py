"""tlc -- run TLC / SANY, collect statistics, behaviours and trace verdicts."""
from __future__ import annotations

import json
import os
import re
import shutil
import subprocess
import tempfile
import time
from typing import Any, Dict, List, Optional

SPEC_DIR = os.path.join(os.path.dirname(os.path.dirname(os.path.abspath(__file__))), "spec")
JAR = "/opt/veriftools/tla/tla2tools.jar"


class TlcError(Exception):
    pass


def _classpath() -> str:
    cm = "/opt/veriftools/tla/CommunityModules-deps.jar"
    cands = [JAR]
    d = os.path.dirname(JAR)
    for f in sorted(os.listdir(d)):
        if f.endswith(".jar") and f != os.path.basename(JAR):
            cands.append(os.path.join(d, f))
    return ":".join(cands)


def run_tlc(module: str, cfg: Optional[str] = None, *, workers: int = 16, env: Optional[dict] = None,
            extra: Optional[List[str]] = None, timeout: int = 3600, simulate: Optional[str] = None,
            depth: Optional[int] = None, seed: Optional[int] = None, coverage: bool = False,
            deadlock: bool = False) -> Dict[str, Any]:
    """Run TLC on spec/<module>.tla; returns dict(out, states, distinct, depth, ok, wall_s, violation)."""
    meta = tempfile.mkdtemp(prefix="tlcmeta_")
    cmd = ["java", "-XX:+UseParallelGC", "-Xmx8g", "-Djava.io.tmpdir=" + meta, "-cp", _classpath(), "tlc2.TLC", "-metadir", meta,
           "-noGenerateSpecTE", "-workers", str(workers)]
    if cfg:
        cmd += ["-config", cfg]
    if simulate:
        cmd += ["-simulate", simulate]
    if depth is not None:
        cmd += ["-depth", str(depth)]
    if seed is not None:
        cmd += ["-seed", str(seed)]
    if coverage:
        cmd += ["-coverage", "1"]
    if deadlock:
        cmd += ["-deadlock"]
    if extra:
        cmd += extra
    cmd.append(module)
    e = dict(os.environ)
    if env:
        e.update(env)
    t0 = time.time()
    try:
        p = subprocess.run(cmd, cwd=SPEC_DIR, env=e, capture_output=True, text=True, timeout=timeout)
        out = p.stdout + p.stderr
        rc = p.returncode
    except subprocess.TimeoutExpired as ex:
        out = (ex.stdout or b"").decode() if isinstance(ex.stdout, bytes) else (ex.stdout or "")
        rc = -9
    finally:
        shutil.rmtree(meta, ignore_errors=True)
    res: Dict[str, Any] = {"out": out, "rc": rc, "wall_s": time.time() - t0, "cmd": " ".join(cmd)}
    m = re.search(r"(\d+) states generated, (\d+) distinct states found, (\d+) states left on queue", out)
    if m:
        res["states"], res["distinct"], res["queue"] = int(m.group(1)), int(m.group(2)), int(m.group(3))
    m = re.search(r"The depth of the complete state graph search is (\d+)", out)
    if m:
        res["depth"] = int(m.group(1))
    res["violation"] = None
    m = re.search(r"Error: Invariant (\S+) is violated", out)
    if m:
        res["violation"] = m.group(1)
    m = re.search(r"Error: Action property (\S+) is violated", out)
    if m:
        res["violation"] = m.group(1)
    if "Error: Temporal properties were violated" in out:
        res["violation"] = "temporal"
    m = re.search(r"Error: Temporal property (\S+) was violated", out)
    if m:
        res["violation"] = m.group(1)
    if rc in (12, 13) and res["violation"] is None:
        res["violation"] = "unrecognised (TLC exit %d)" % rc      # never report a violating run as clean
    res["finished"] = "Model checking completed" in out or "Finished in" in out
    res["error"] = None
    if rc not in (0, 12, 13) and res["violation"] is None:
        m = re.search(r"Error: (.*)", out)
        res["error"] = m.group(1) if m else f"rc={rc}"
    return res


def verdicts(out: str) -> List[dict]:
    res = []
    for line in out.splitlines():
        i = line.find("VERDICT {")
        if i >= 0:
            s = line[i + 8:].strip()
            if s.endswith('"'):
                s = s[:-1]
            try:
                res.append(json.loads(s))
            except Exception:
                # TLC prints strings with escaped quotes
                s2 = s.encode().decode("unicode_escape")
                res.append(json.loads(s2))
    return res


def behaviours(out: str, tag: str = "BEH ") -> List[Any]:
    res = []
    for line in out.splitlines():
        i = line.find(tag)
        if i >= 0:
            s = line[i + len(tag):].strip().rstrip('"')
            try:
                res.append(json.loads(s))
            except Exception:
                try:
                    res.append(json.loads(s.encode().decode("unicode_escape")))
                except Exception:
                    pass
    return res


def validate_traces(traces: List[dict], module: str = "Manager_Trace", cfg: str = "Manager_Trace.cfg",
                    timeout: int = 3600) -> Dict[str, Any]:
    """traces: list of {"tid": int, "ev": [...]}. Returns {"by_tid": {tid: verdict}, "tlc": res}."""
    d = tempfile.mkdtemp(prefix="traces_")
    path = os.path.join(d, "traces.ndjson")
    with open(path, "w") as f:
        for t in traces:
            f.write(json.dumps(t) + "\n")
    try:
        res = run_tlc(module, cfg, workers=1, env={"TRACE_FILE": path}, timeout=timeout)
    finally:
        shutil.rmtree(d, ignore_errors=True)
    by: Dict[int, dict] = {}
    for v in verdicts(res["out"]):
        tid = v["tid"]
        old = by.get(tid)
        if old is None:
            by[tid] = v
        elif v["res"] == "ok":
            by[tid] = v
        elif old["res"] != "ok" and v["step"] > old["step"]:
            by[tid] = v
    return {"by_tid": by, "tlc": res}
