"""pytest plugin: run the repository's OWN integration tests on the virtual I/O layer and record what the
manager does as traces for spec/Manager_Trace.tla  ("existing tests trigger it, their assertions miss it").

    /venv/bin/python -m pytest -p vf.pytest_vio tests/test_integration.py ...     (VERIF_TRACE_OUT=<ndjson file>)

Nothing in /repo is edited.  The tests create their own MessageManager, start `manager.run` in their own thread and use
real `Client`s; the plugin substitutes select/socket/random/time inside pyrtma.manager and pyrtma.client (several virtual
networks, one per listening port), makes `time.sleep` pump every manager to quiescence instead of sleeping, and makes
`MessageManager.close()` release the manager thread.  Every loop iteration of every manager is recorded by a Hub recorder.
"""
from __future__ import annotations

import errno
import json
import os
import sys
import threading
import time as _real_time

sys.path.insert(0, __import__("os").environ.get("VF_REPO", "/repo") + "/src")
sys.path.insert(0, os.path.dirname(os.path.dirname(os.path.abspath(__file__))))

from vf import vio  # noqa: E402
from vf.hub import Hub  # noqa: E402
from vf import frames as F  # noqa: E402

NETS = {}       # port -> Net
ALL = []        # every (net, hub) created in this session
CLOCK = [0.0]


class MultiNet(vio.Net):
    def __init__(self):
        super().__init__()
        self._first_yield = True

    @property
    def now(self):
        return CLOCK[0]

    @now.setter
    def now(self, v):
        CLOCK[0] = v

    def mgr_yield(self):
        # the manager thread belongs to the test: adopt it at its first top-of-loop select
        if self._mgr_thread is None:
            self._mgr_thread = threading.current_thread()
        if self._first_yield:
            self._first_yield = False
            self._started.set()
        else:
            self._drv_sem.release()
        self._mgr_sem.acquire()
        return self.cmd or {}

    def step(self, cmd):
        if self.mgr_dead:
            return
        if not self._started.wait(5):
            return      # run() has not been started (yet)
        self.cmd = cmd
        self._mgr_sem.release()
        self._drv_sem.acquire()


class ManagerSockMod(vio.FakeSocketModule):
    def __init__(self):
        super().__init__(None, "manager")

    def socket(self, *a, **kw):
        net = MultiNet()
        net._started = threading.Event()
        lst = vio._Listener(net)
        net.listener = lst
        orig_bind = lst.bind

        def bind(addr):
            orig_bind(addr)
            NETS[int(addr[1])] = net
        lst.bind = bind
        return lst


class ClientSock(vio._ClientSock):
    def __init__(self):
        super().__init__(None)

    def connect(self, addr):
        net = NETS.get(int(addr[1]))
        if net is None or net.mgr_dead or net.listener.closed:
            raise ConnectionRefusedError(errno.ECONNREFUSED, "Connection refused")
        self.net = net
        self.end = net.open_conn(net.next_client_name())


class ClientSockMod(vio.FakeSocketModule):
    def __init__(self):
        super().__init__(None, "client")

    def socket(self, *a, **kw):
        return ClientSock()


class MgrSelect:
    error = OSError

    def select(self, r, w, x, timeout=None):
        socks = list(r) + list(w)
        if not socks:
            return [], [], []       # select() on nothing: a plain timeout
        net = socks[0].net
        return vio.ManagerSelect(net).select(r, w, x, timeout)


class CliSelect:
    error = OSError

    def select(self, r, w, x, timeout=None):
        socks = [s for s in list(r) + list(w) if getattr(s, "net", None) is not None]
        if not socks:
            return [], list(w), []
        return vio.ClientSelect(socks[0].net).select(r, w, x, timeout)


class MgrRandom:
    def shuffle(self, lst):
        if lst:
            vio.FakeRandom(lst[0].net).shuffle(lst)

    def randint(self, a, b):
        return a


class VTime:
    def perf_counter(self):
        return CLOCK[0]

    def time(self):
        return 1.7e9 + CLOCK[0]

    def monotonic(self):
        return CLOCK[0]

    def sleep(self, dt):
        pump_all()
        CLOCK[0] += dt


def pump_all():
    for net, hub in ALL:
        if not net.mgr_dead and net._mgr_thread is not threading.current_thread():
            try:
                net.pump()
            except vio.HarnessError:
                pass


def pytest_configure(config):
    import pyrtma.manager as M
    import pyrtma.client as C

    M.select, M.socket, M.random, M.time = MgrSelect(), ManagerSockMod(), MgrRandom(), VTime()
    C.select, C.socket, C.time = CliSelect(), ClientSockMod(), VTime()

    orig_init = M.MessageManager.__init__
    orig_close = M.MessageManager.close
    orig_run = M.MessageManager.run

    def init(self, *a, **kw):
        orig_init(self, *a, **kw)
        net = self.listen_socket.net
        net._mgr_obj = self
        timecode = self.header_size == 56
        hub = Hub.adopt(net, self, timecode)
        ALL.append((net, hub))

    def run(self):
        net = self.listen_socket.net
        try:
            orig_run(self)
        except BaseException as e:  # noqa
            import traceback
            net.mgr_exc, net.mgr_tb = e, traceback.format_exc()
            raise
        finally:
            net.mgr_dead = True
            net._drv_sem.release()

    def close(self):
        orig_close(self)
        net = self.listen_socket.net
        if not net.mgr_dead and net._mgr_thread is not None:
            net.step({"stop": True})

    M.MessageManager.__init__ = init
    M.MessageManager.run = run
    M.MessageManager.close = close

    # the tests wait with time.sleep(): on the virtual network nothing happens while sleeping, so pump instead
    def vsleep(dt):
        if threading.current_thread() is threading.main_thread():
            pump_all()
            CLOCK[0] += dt
        else:
            _real_time.sleep(min(dt, 0.001))
    import time as T
    T.sleep = vsleep


def pytest_runtest_teardown(item, nextitem):
    # label the traces of this test
    for net, hub in ALL:
        if not getattr(hub, "_label", None):
            hub._label = item.nodeid


def pytest_sessionfinish(session, exitstatus):
    out = os.environ.get("VERIF_TRACE_OUT")
    if not out:
        return
    with open(out, "w") as f:
        for i, (net, hub) in enumerate(ALL, 1):
            f.write(json.dumps({"tid": i, "test": getattr(hub, "_label", ""), "timecode": hub.timecode, "crashed": hub.crashed, "ev": hub.events}) + "\n")
