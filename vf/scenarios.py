"""scenarios -- behaviours (hist format of MCBase.tla) enumerated in Python for input spaces that
are matrices rather than interleavings (connect-option combinations, statistics sizes, hostile
inputs).  They are replayed on the real manager like TLC-generated behaviours and every recorded
execution is validated by TLC against Manager_Trace, which remains the oracle.
"""
from __future__ import annotations

import itertools
import random
from typing import Any, Dict, Iterator, List

from . import frames as F

ALL = F.ALL


def opn(c):
    return {"a": "Open", "c": c}


def rnd(acc="", R=(), W=()):
    return {"a": "Round", "acc": acc, "R": list(R), "W": list(W)}


def snd(c, f):
    return {"a": "Send", "c": c, "f": f}


def con(i, lg=0, dm=0):
    return {"k": "f", "t": 13, "src": i, "dst": 0, "dhost": 0, "p": {"k": "con", "logger": lg, "daemon": dm}}


def con2(i, multi=0, name="", lg=0, dm=0, pid=7):
    return {"k": "f", "t": 4, "src": i, "dst": 0, "dhost": 0,
            "p": {"k": "con2", "logger": lg, "daemon": dm, "multi": multi, "id": i, "pid": pid, "name": name}}


def sub(ty, src, mt):
    return {"k": "f", "t": ty, "src": src, "dst": 0, "dhost": 0, "p": {"k": "sub", "mt": mt}}


def data(t, src, dst=0, dhost=0, pid=1):
    return {"k": "f", "t": t, "src": src, "dst": dst, "dhost": dhost, "p": {"k": "d", "id": pid}}


def sig(t, src):
    return {"k": "f", "t": t, "src": src, "dst": 0, "dhost": 0, "p": {"k": "none"}}


def monitor_setup(types=(32, 33, 8), name="c", mid=2) -> List[dict]:
    """a connected monitor subscribed to CLIENT_INFO / CLIENT_CLOSED / FAILED_MESSAGE"""
    out = [opn(name), rnd(name), snd(name, con(mid)), rnd("", [name], [name])]
    for t in types:
        out += [snd(name, sub(15, mid, t)), rnd("", [name], [name])]
    return out


def connect_variants(full: bool = False) -> List[dict]:
    """the request classes of the connect decision table.  Reduced set (16): ids {dynamic, 1, DYN_START}
    x allow-multiple x {unnamed, named} through CONNECT_V2, CONNECT alone, two out-of-range ids."""
    v = []
    names = ("", "n", "m") if full else ("", "n")
    for i in (0, 1, 100):
        for multi in (0, 1):
            for name in names:
                v.append(con2(i, multi, name))
    v += [con(0), con(1), con2(101, 0, ""), con2(-1, 0, "")]
    if full:
        v += [con(100), con(101), con(-1), con2(101, 1, "n"), con2(1, 0, "message_manager"), con2(0, 1, "n", lg=1),
              con2(1, 1, "n", lg=1), con2(200, 0, "")]
    return v


def connect_matrix(seed: int, n: int, k: int = 3) -> List[List[dict]]:
    """k connections connect one after the other, each with one variant; then one directed probe per
    explicit id so that the holder is seen to be the addressee.  n = 0: the whole matrix."""
    V = connect_variants(full=(n == 0 and k < 3))
    conns = ["a", "b", "d", "e"][:k]
    r = random.Random(seed)
    combos = list(itertools.product(range(len(V)), repeat=k))
    if n and n < len(combos):
        combos = r.sample(combos, n)
    out = []
    for combo in combos:
        b = monitor_setup()
        live = ["c"]
        for c in conns:
            b += [opn(c), rnd(c)]
        for c, vi in zip(conns, combo):
            f = V[vi]
            b += [snd(c, f)]
            if f["t"] == 4 and r.random() < 0.5:
                b += [snd(c, con(f["src"], f["p"]["logger"]))]     # CONNECT_V2 followed by CONNECT, as pyrtma does
                b += [rnd("", [c], ["c"] + conns), rnd("", [c], ["c"] + conns)]
            else:
                b += [rnd("", [c], ["c"] + conns)]
        # probes from the monitor: directed to id 1 and id 100, subscribers must be the holders
        for c in conns:
            b += [snd(c, sub(15, 0, 1234))]
        b += [rnd("", conns, ["c"] + conns)]
        b += [snd("c", data(1234, 2, 1, 0, 1)), rnd("", ["c"], ["c"] + conns)]
        b += [snd("c", data(1234, 2, 100, 0, 2)), rnd("", ["c"], ["c"] + conns)]
        out.append(b)
    return out


def leave_and_reuse(seed: int, n: int) -> List[List[dict]]:
    """a module connects (explicit id / name, various protocol stages), leaves in one of the possible
    ways, and a newcomer immediately asks for the same id and name; survivors keep being served."""
    r = random.Random(seed)
    ways = ["disconnect", "fin", "rst", "die_data", "die_ack"]
    stages = ["accepted", "connected", "subscribed", "suball", "paused"]
    ids = [(1, "n", 0), (1, "", 0), (100, "n", 1), (5, "x", 0)]
    combos = list(itertools.product(ways, stages, ids, (0, 1)))
    if n and n < len(combos):
        combos = r.sample(combos, n)
    out = []
    for way, stage, (mid, name, multi), lg in combos:
        b = monitor_setup()
        b += [opn("b"), rnd("b"), snd("b", con(7)), rnd("", ["b"], ["b", "c"]), snd("b", sub(15, 7, 1234)),
              rnd("", ["b"], ["b", "c"])]
        b += [opn("a"), rnd("a")]
        W = ["a", "b", "c"]
        if stage != "accepted":
            b += [snd("a", con2(mid, multi, name, lg=lg)), rnd("", ["a"], W)]
            if stage in ("subscribed", "paused"):
                b += [snd("a", sub(15, mid, 1234)), rnd("", ["a"], W)]
            if stage == "paused":
                b += [snd("a", sub(85, mid, 1234)), rnd("", ["a"], W)]
            if stage == "suball":
                b += [snd("a", sub(15, mid, ALL)), rnd("", ["a"], W)]
        if way == "disconnect":
            b += [snd("a", sig(14, mid)), rnd("", ["a"], W)]
        elif way == "fin":
            b += [{"a": "Fin", "c": "a"}, rnd("", ["a"], W)]
        elif way == "rst":
            b += [{"a": "Rst", "c": "a"}, rnd("", ["a"], W)]
        elif way == "die_data":
            b += [{"a": "Die", "c": "a"}, snd("b", data(1234, 7, 0, 0, 3)), rnd("", ["b"], W)]
            # if a was not a recipient it is still registered: make it leave for good
            b += [{"a": "Rst", "c": "a"}, rnd("", ["a"], W)]
        elif way == "die_ack":
            b += [{"a": "Die", "c": "a"}, snd("a", sub(15, mid, 4321)), rnd("", ["a"], W)]
            b += [{"a": "Rst", "c": "a"}, rnd("", ["a"], W)]
        # newcomer asks for the same identity at once
        b += [opn("d"), rnd("d"), snd("d", con2(mid if mid else 0, multi, name, lg=0)), rnd("", ["d"], ["b", "c", "d"])]
        # survivors are served: b publishes to itself + monitor probes
        b += [snd("b", data(1234, 7, 0, 0, 4)), rnd("", ["b"], ["b", "c", "d"])]
        out.append(b)
    return out


def stats_matrix(seed: int, n: int) -> List[List[dict]]:
    """intervals with 0, 1, 63, 64, 65, 128, 129, 300 distinct types (and out-of-range type ids),
    observed by a monitor subscribed to TIMING_MESSAGE and MESSAGE_TRAFFIC."""
    r = random.Random(seed)
    sizes = [0, 1, 2, 63, 64, 65, 127, 128, 129, 300]
    out = []

    def setup():
        b = [opn("a"), opn("m"), rnd("a"), rnd("m"), snd("a", con(1)), snd("m", con(2)), rnd("", ["a", "m"], ["a", "m"])]
        for t in (80, 30):
            b += [snd("m", sub(15, 2, t)), rnd("", ["m"], ["a", "m"])]
        b += [snd("a", {"k": "f", "t": 26, "src": 1, "dst": 0, "dhost": 0, "p": {"k": "rdy", "pid": 4242}}),
              rnd("", ["a"], ["a", "m"])]
        return b

    def interval(b, ntypes, base, reps, extra=()):
        types = [base + i for i in range(ntypes)] + list(extra)
        for t in types:
            for k in range(reps):
                b += [snd("a", data(t, 1, 0, 0, 1)), rnd("", ["a"], ["a", "m"])]
        b += [{"a": "Tick", "n": 3}, rnd("", [], [])]

    plans = []
    for s in sizes:
        plans.append([(s, 1000, 1, ())])
    plans.append([(3, 1000, 2, ()), (0, 0, 1, ()), (2, 1001, 1, ()), (65, 2000, 1, ())])       # sequences of intervals
    plans.append([(64, 1000, 1, ()), (64, 1032, 1, ()), (1, 5, 3, ())])
    plans.append([(2, 9998, 1, (10000, 10001))])          # ids at and beyond the end of the TIMING array
    plans.append([(1, 50, 1, (-5, 70000, 2147483646))])
    plans.append([(1, 80, 1, (30,))])                      # a client publishing the statistics types itself
    # sequences of intervals over the whole type range: what one report lists must not leak into the next
    plans.append([(3, 6000, 2, ()), (2, 100, 1, ()), (0, 0, 1, ()), (1, 9999, 1, (0,))])
    for k in range(3):
        pl = []
        for j in range(4):
            # data types only: the control types would be *requests* to the manager, not traffic
            ts = tuple(t for t in (r.randrange(0, 10000) for _ in range(r.randrange(0, 6))) if t not in F.CONTROL_TYPES and not 40 <= t <= 45)
            pl.append((0, 0, r.choice((1, 1, 2)), ts))
        plans.append(pl)
    if n and n < len(plans):
        plans = plans[:n]
    for pl in plans:
        b = setup()
        for (s, base, reps, extra) in pl:
            interval(b, s, base, reps, extra)
        out.append(b)
    return out


def death_during_manager_msg(seed: int, n: int) -> List[List[dict]]:
    """a subscriber of manager-originated messages (CLIENT_INFO / CLIENT_CLOSED / FAILED_MESSAGE /
    TIMING / ACK copies) is dead when the manager publishes one; the other subscribers of that message
    must get it intact, exactly one CLIENT_CLOSED for the victim, and the notices about it."""
    out = []
    notice = (32, 33, 8)
    for v_logger in (0, 1):
        for trigger in ("connect", "ready", "setname", "leave", "drop", "timing", "active", "subscribe", "publish"):
            for wcase in ("all", "m1-not-writable", "second-dead"):
                b = []
                cast = [("m1", 2, 0), ("m2", 3, 0), ("v", 4, v_logger), ("p", 5, 0), ("q", 6, 0)]
                names = [c for c, _, _ in cast]
                for c, mid, lg in cast:
                    b += [opn(c), rnd(c)]
                for c, mid, lg in cast:
                    b += [snd(c, con2(mid, 0, c, lg=lg))]
                b += [rnd("", names, names)]
                for c, mid in (("m1", 2), ("m2", 3), ("v", 4)):
                    # for the ACTIVE_CLIENTS trigger the victim does not get TIMING, so that its death is found inside the report loop
                    for t in notice + (() if (trigger == "active" and c == "v") else (80,)):
                        b += [snd(c, sub(15, mid, t)), rnd("", [c], names)]
                b += [snd("v", sub(15, 4, 1234)), snd("q", sub(15, 6, 1234)), rnd("", ["v", "q"], names)]
                if wcase == "second-dead":
                    # the second victim receives the same messages as the first (and the notices about it)
                    b += [snd("m2", sub(15, 3, 1234)), rnd("", ["m2"], names)]
                b += [{"a": "Die", "c": "v"}]
                if wcase == "second-dead":
                    b += [{"a": "Die", "c": "m2"}]
                W = [c for c in names if not (wcase == "m1-not-writable" and c == "m1")]
                if trigger == "connect":
                    b += [opn("n"), rnd("n"), snd("n", con2(0, 1, "new")), rnd("", ["n"], W + ["n"])]
                elif trigger == "ready":
                    b += [snd("p", {"k": "f", "t": 26, "src": 5, "dst": 0, "dhost": 0, "p": {"k": "rdy", "pid": 99}}), rnd("", ["p"], W)]
                elif trigger == "setname":
                    b += [snd("p", {"k": "f", "t": 34, "src": 5, "dst": 0, "dhost": 0, "p": {"k": "name", "name": "renamed"}}), rnd("", ["p"], W)]
                elif trigger == "leave":
                    b += [{"a": "Fin", "c": "p"}, rnd("", ["p"], W)]
                elif trigger == "drop":
                    b += [snd("p", data(1234, 5, 0, 0, 1)), rnd("", ["p"], [c for c in W if c != "q"])]
                elif trigger == "timing":
                    b += [{"a": "Tick", "n": 3}, rnd("", [], [])]
                elif trigger == "active":       # the 5 s ACTIVE_CLIENTS report publishes one CLIENT_INFO per module
                    b += [{"a": "Tick", "n": 11}, rnd("", [], [])]
                elif trigger == "subscribe":
                    b += [snd("p", sub(15, 5, 777)), rnd("", ["p"], W)]
                elif trigger == "publish":
                    b += [snd("p", data(1234, 5, 0, 0, 2)), rnd("", ["p"], W)]
                # afterwards everybody alive is still served
                pub, pid = ("q", 6) if trigger == "leave" else ("p", 5)
                b += [snd(pub, data(1234, pid, 0, 0, 3)), rnd("", [pub], names)]
                out.append(b)
    if n and n < len(out):
        out = random.Random(seed).sample(out, n)
    return out



def routing_edges(seed: int, n: int) -> List[List[dict]]:
    """corners of routing that interleavings sampled from the model rarely reach:
    (1) a module's FIRST subscription and another module's publish are serviced in the SAME round, in either order;
    (2) messages addressed to a module id: to a plain subscriber, to a logger that is itself subscribed (by type / to all), to a
        module that is not subscribed, to an id nobody holds - the addressee gets ONE copy, loggers get theirs, nobody else;
    (3) a logger whose connection is already dead when its CONNECT is acknowledged."""
    out = []
    # (1)
    for what in ("type", "all"):
        for logger in (0, 1):
            for prior in (0, 1):
                for order in (("b", "a"), ("a", "b")):
                    for npub in (1, 2):
                        b = monitor_setup()
                        W = ["a", "b", "c"]
                        b += [opn("a"), rnd("a"), opn("b"), rnd("b"), snd("a", con2(7, 0, "pub")), snd("b", con2(8, 0, "late", lg=logger)), rnd("", ["a", "b"], W)]
                        if prior:
                            b += [snd("b", sub(15, 8, 4321)), rnd("", ["b"], W)]
                        b += [snd("b", sub(15, 8, ALL if what == "all" else 1234))]
                        b += [snd("a", data(1234, 7, 0, 0, k + 1)) for k in range(npub)]
                        b += [rnd("", list(order), W)]
                        b += [snd("a", data(1234, 7, 0, 0, 9)), rnd("", ["a"], W)]
                        out.append(b)
    # (2)
    for lsub in ("type", "all", "none"):
        for dst in (0, 21, 20, 22, 24, 150):
            for dhost in (0, 1):
                b = monitor_setup()
                cast = [("l1", 20, 1), ("p1", 21, 0), ("p2", 22, 0), ("l2", 24, 1), ("s", 5, 0)]
                names = [c for c, _, _ in cast] + ["c"]
                for c, mid, lg in cast:
                    b += [opn(c), rnd(c)]
                for c, mid, lg in cast:
                    b += [snd(c, con2(mid, 0, c, lg=lg))]
                b += [rnd("", [c for c, _, _ in cast], names)]
                if lsub != "none":
                    b += [snd("l1", sub(15, 20, ALL if lsub == "all" else 1234)), rnd("", ["l1"], names)]
                b += [snd("p1", sub(15, 21, 1234)), rnd("", ["p1"], names), snd("p2", sub(15, 22, ALL)), rnd("", ["p2"], names)]
                b += [snd("l2", sub(15, 24, ALL)), rnd("", ["l2"], names)]
                b += [snd("s", data(1234, 5, dst, dhost, 1)), rnd("", ["s"], names)]
                b += [snd("s", data(1234, 5, 0, 0, 2)), rnd("", ["s"], names)]
                out.append(b)
    # (3)
    for ver in ("con2", "con"):
        for after in ("subscribe", "connect", "publish"):
            b = monitor_setup()
            W = ["b", "c", "l"]
            b += [opn("b"), rnd("b"), snd("b", con(7)), rnd("", ["b"], ["b", "c"]), snd("b", sub(15, 7, 1234)), rnd("", ["b"], ["b", "c"])]
            b += [opn("l"), rnd("l"), snd("l", con2(30, 0, "lg", lg=1) if ver == "con2" else con(30, lg=1)), {"a": "Die", "c": "l"}, rnd("", ["l"], W)]
            if after == "subscribe":
                b += [snd("b", sub(15, 7, 4321)), rnd("", ["b"], ["b", "c"])]
            elif after == "connect":
                b += [opn("d"), rnd("d"), snd("d", con2(30, 0, "lg", lg=1)), rnd("", ["d"], ["b", "c", "d"])]
            b += [snd("b", data(1234, 7, 0, 0, 3)), rnd("", ["b"], ["b", "c"])]
            b += [snd("b", sub(15, 7, 777)), rnd("", ["b"], ["b", "c"])]
            out.append(b)
    # (6) message type id 0 (EXIT) is a type like any other for the manager: individual subscription, pause / resume, addressed
    for addressed in (0, 21):
        b = monitor_setup()
        names = ["p1", "p2", "s", "c"]
        for c, mid in (("p1", 21), ("p2", 22), ("s", 5)):
            b += [opn(c), rnd(c), snd(c, con2(mid, 0, c)), rnd("", [c], names)]
        b += [snd("p1", sub(15, 21, 0)), rnd("", ["p1"], names), snd("p1", sub(15, 21, 1234)), rnd("", ["p1"], names)]
        b += [snd("p2", sub(15, 22, ALL)), rnd("", ["p2"], names)]
        b += [snd("s", data(0, 5, addressed, 0, 1)), rnd("", ["s"], names), snd("s", data(1234, 5, 0, 0, 2)), rnd("", ["s"], names)]
        b += [snd("p1", sub(85, 21, 0)), rnd("", ["p1"], names), snd("s", data(0, 5, 0, 0, 3)), rnd("", ["s"], names)]
        b += [snd("p1", sub(86, 21, 0)), rnd("", ["p1"], names), snd("s", data(0, 5, 0, 0, 4)), rnd("", ["s"], names)]
        out.append(b)
    # (4) several instances share one module id (allow_multiple): a message addressed to that id reaches every instance
    for nsub in (2, 3):
        for leave in (None, "last", "first"):
            b = monitor_setup()
            inst = [f"i{k}" for k in range(nsub)]
            names = inst + ["s", "c"]
            for c in inst + ["s"]:
                b += [opn(c), rnd(c)]
            for c in inst:
                b += [snd(c, con2(20, 1, "", lg=0)), rnd("", [c], names)]
            b += [snd("s", con2(5, 0, "s")), rnd("", ["s"], names)]
            for c in inst:
                b += [snd(c, sub(15, 20, 1234)), rnd("", [c], names)]
            b += [snd("s", data(1234, 5, 20, 0, 1)), rnd("", ["s"], names)]
            if leave:
                gone = inst[-1] if leave == "last" else inst[0]
                b += [snd(gone, sig(14, 20)), rnd("", [gone], names)]
                b += [snd("s", data(1234, 5, 20, 0, 2)), rnd("", ["s"], [x for x in names if x != gone])]
            b += [snd("s", data(1234, 5, 0, 0, 3)), rnd("", ["s"], names)]
            out.append(b)
    # (5) subscription requests on a socket that never sent CONNECT (the manager serves them): delivery, leaving, a later CONNECT
    for what in ("type", "all"):
        for then in ("stay", "fin", "rst", "connect", "refused-connect"):
            b = monitor_setup()
            names = ["u", "s", "c"]
            b += [opn("s"), rnd("s"), snd("s", con2(5, 0, "s")), rnd("", ["s"], ["s", "c"])]
            b += [opn("u"), rnd("u"), snd("u", sub(15, 0, ALL if what == "all" else 1234)), rnd("", ["u"], names)]
            b += [snd("s", data(1234, 5, 0, 0, 1)), rnd("", ["s"], names)]
            W = names
            if then == "fin":
                b += [{"a": "Fin", "c": "u"}, rnd("", ["u"], names)]
                W = ["s", "c"]
            elif then == "rst":
                b += [{"a": "Rst", "c": "u"}, rnd("", ["u"], names)]
                W = ["s", "c"]
            elif then == "connect":
                b += [snd("u", con2(9, 0, "late")), rnd("", ["u"], names)]
            elif then == "refused-connect":
                b += [snd("u", con2(5, 0, "dup")), rnd("", ["u"], names)]      # id 5 is in use: refused and closed
                W = ["s", "c"]
            b += [snd("s", data(1234, 5, 0, 0, 2)), rnd("", ["s"], W), snd("s", data(1234, 5, 0, 0, 3)), rnd("", ["s"], W)]
            out.append(b)
    if n and n < len(out):
        out = random.Random(seed).sample(out, n)
    return out


def departure_with_logging(seed: int, n: int) -> List[List[dict]]:
    """a subscriber of the manager's own log messages (by type or through ALL_MESSAGE_TYPES) goes away abruptly while the manager's
    logging is on: whatever the manager logs about the departure, there is exactly one CLIENT_CLOSED and the others are served"""
    out = []
    for what in ("all", "log-types"):
        for way in ("die", "rst", "fin"):
            b = monitor_setup()
            names = ["a", "b", "c"]
            for c, mid in (("a", 21), ("b", 7)):
                b += [opn(c), rnd(c), snd(c, con2(mid, 0, c)), rnd("", [c], names)]
            if what == "all":
                b += [snd("a", sub(15, 21, ALL)), rnd("", ["a"], names)]
            else:
                for t in (1234, 44, 42, 43):
                    b += [snd("a", sub(15, 21, t)), rnd("", ["a"], names)]
            b += [snd("b", sub(15, 7, 1234)), rnd("", ["b"], names)]
            if way == "die":
                b += [{"a": "Die", "c": "a"}, snd("b", data(1234, 7, 0, 0, 1)), rnd("", ["b"], names)]
            elif way == "rst":
                b += [{"a": "Rst", "c": "a"}, rnd("", ["a"], names)]
            else:
                b += [{"a": "Fin", "c": "a"}, rnd("", ["a"], names)]
            b += [snd("b", data(1234, 7, 0, 0, 2)), rnd("", ["b"], ["b", "c"]), snd("b", data(1234, 7, 0, 0, 3)), rnd("", ["b"], ["b", "c"])]
            out.append(b)
    return out


def no_notice_types(seed: int, n: int) -> List[List[dict]]:
    """messages that are themselves failure notices or log messages (FAILED_MESSAGE, RTMA_LOG and its five level types), published
    by a CLIENT, are undeliverable to a stalled / dead subscriber: no further notice is produced for any of them"""
    out = []
    for t in (8, 40, 41, 42, 43, 44, 45, 1234):
        for how in ("stalled", "dead"):
            b = monitor_setup()
            names = ["v", "w", "s", "c"]
            for c, mid in (("v", 21), ("w", 22), ("s", 5)):
                b += [opn(c), rnd(c), snd(c, con2(mid, 0, c)), rnd("", [c], names)]
            for c, mid in (("v", 21), ("w", 22)):
                b += [snd(c, sub(15, mid, t)), rnd("", [c], names)]
            if how == "dead":
                b += [{"a": "Die", "c": "v"}]
                W = names
            else:
                W = [x for x in names if x != "v"]
            b += [snd("s", data(t, 5, 0, 0, 1)), rnd("", ["s"], W)]
            b += [snd("s", data(1234, 5, 0, 0, 2)), rnd("", ["s"], [x for x in names if x != "v"] if how == "dead" else W)]
            out.append(b)
    return out


def refused_duplicate_then_timing(seed: int, n: int) -> List[List[dict]]:
    """a module that announced its pid keeps being reported in TIMING_MESSAGE after ANOTHER socket was refused its id, and after a
    sibling instance sharing an id (allow_multiple) has left"""
    out = []
    for kind in ("refused", "sibling-leaves"):
        b = [opn("a"), opn("m"), rnd("a"), rnd("m"), snd("a", con2(20, 1 if kind != "refused" else 0, "a", pid=4242)), snd("m", con(2)), rnd("", ["a", "m"], ["a", "m"])]
        b += [snd("m", sub(15, 2, 80)), rnd("", ["m"], ["a", "m"])]
        b += [snd("a", {"k": "f", "t": 26, "src": 20, "dst": 0, "dhost": 0, "p": {"k": "rdy", "pid": 4242}}), rnd("", ["a"], ["a", "m"])]
        b += [{"a": "Tick", "n": 3}, rnd("", [], [])]
        b += [opn("x"), rnd("x"), snd("x", con2(20, 1 if kind != "refused" else 0, "x2", pid=777)), rnd("", ["x"], ["a", "m", "x"])]
        if kind == "sibling-leaves":
            b += [snd("x", sig(14, 20)), rnd("", ["x"], ["a", "m", "x"])]
        b += [snd("a", data(1234, 20, 0, 0, 1)), rnd("", ["a"], ["a", "m"])]
        b += [{"a": "Tick", "n": 3}, rnd("", [], [])]
        b += [{"a": "Tick", "n": 3}, rnd("", [], [])]
        out.append(b)
    return out


def dynamic_double_wrap(seed: int, n: int) -> List[List[dict]]:
    """the dynamic-id counter wraps twice while two long-lived dynamic modules stay connected, the one with the HIGHER id being the
    OLDER connection: every id handed out is one that no live module holds"""
    out = []
    for keep_first in (True, False):
        b = monitor_setup()
        W0 = ["c"]
        k = [0]

        def cycle(stay=None):
            name = stay or f"t{k[0]}"
            k[0] += 1
            w = W0 + [name]
            steps = [opn(name), rnd(name), snd(name, con(0)), rnd("", [name], w)]
            if not stay:
                steps += [snd(name, sig(14, 0)), rnd("", [name], w)]
            return steps
        b += cycle()                       # 100, leaves
        b += cycle(stay="x")               # 101 stays (the OLDER of the two long-lived modules)
        W0.append("x")
        for _ in range(98):
            b += cycle()                   # 102 .. 199, each leaves
        b += cycle(stay="y")               # counter wrapped: 100 stays
        W0.append("y")
        if not keep_first:
            b += [snd("x", sig(14, 0)), rnd("", ["x"], W0)]
        for _ in range(99):
            b += cycle()                   # second turn: every candidate is compared with the live ids
        b += cycle(stay="z")
        b += cycle(stay="w")
        out.append(b)
    return out


def drops_with_logging(seed: int, n: int) -> List[List[dict]]:
    """receivers of a data type AND of the manager's own log messages (subscribed type by type, or to all types), one of them
    not writable while a publisher sends: whatever the manager logs about the drop is a message like any other - every two
    receivers see the data message and the log message in the same order (run with the manager's logging switched on)."""
    out = []
    for style in ("by-type", "all", "mixed"):
        for stalled in (1, 2, 3):
            for npub in (1, 2):
                cast = [(f"r{i}", 10 + i) for i in range(5)] + [("p", 5)]
                names = [c for c, _ in cast]
                b = []
                for c, mid in cast:
                    b += [opn(c), rnd(c)]
                for c, mid in cast:
                    b += [snd(c, con2(mid, 0, c))]
                b += [rnd("", names, names)]
                for i, (c, mid) in enumerate(cast[:-1]):
                    if style == "all" or (style == "mixed" and i % 2):
                        b += [snd(c, sub(15, mid, 2147483647)), rnd("", [c], names)]
                    else:
                        for t in (1234, 43, 42, 44):
                            b += [snd(c, sub(15, mid, t)), rnd("", [c], names)]
                W = [c for c in names if c != f"r{stalled}"]
                for k in range(npub):
                    b += [snd("p", data(1234, 5, 0, 0, k + 1)), rnd("", ["p"], W)]
                b += [snd("p", data(1234, 5, 0, 0, 9)), rnd("", ["p"], names)]
                out.append(b)
    # a subscriber that stays stalled for a long time (more than 100 messages in a row): it is skipped, reported, and nothing else
    for style in ("by-type", "mixed"):
        for stalled in (1, 2):
            cast = [(f"r{i}", 10 + i) for i in range(4)] + [("p", 5)]
            names = [c for c, _ in cast]
            b = []
            for c, mid in cast:
                b += [opn(c), rnd(c)]
            for c, mid in cast:
                b += [snd(c, con2(mid, 0, c))]
            b += [rnd("", names, names)]
            for i, (c, mid) in enumerate(cast[:-1]):
                if style == "mixed" and i % 2:
                    b += [snd(c, sub(15, mid, 2147483647)), rnd("", [c], names)]
                else:
                    for t in (1234, 33, 8):
                        b += [snd(c, sub(15, mid, t)), rnd("", [c], names)]
            W = [c for c in names if c != f"r{stalled}"]
            for k in range(104):
                b += [snd("p", data(1234, 5, 0, 0, k + 1)), rnd("", ["p"], W)]
            b += [snd("p", data(1234, 5, 0, 0, 200)), rnd("", ["p"], names)]
            out.append(b)
    if n and n < len(out):
        out = random.Random(seed).sample(out, n)
    return out


def two_loggers(seed: int, n: int) -> List[List[dict]]:
    """two logger modules and a plain module: every control frame - also those SENT BY a logger - is acknowledged to its
    sender and copied to every (other) logger; data reaches both loggers whatever select reports as writable."""
    out = []
    cast = [("l1", 3, 1), ("l2", 4, 1), ("p", 5, 0), ("q", 6, 0)]
    names = [c for c, _, _ in cast]
    ctl = [("l1", 3, 15, 777), ("l2", 4, 15, ALL), ("p", 5, 15, 1234), ("l1", 3, 16, 777), ("l2", 4, 85, 1234), ("l1", 3, 86, 555),
           ("q", 6, 16, 999), ("l2", 4, 16, ALL), ("l1", 3, 15, ALL), ("l1", 3, 15, ALL), ("p", 5, 85, 1234), ("p", 5, 86, 1234)]
    for v2 in (False, True):
        for wcase in (names, ["p", "q"], ["l1", "p"], []):
            b = []
            for c, mid, lg in cast:
                b += [opn(c), rnd(c)]
            for c, mid, lg in cast:
                b += [snd(c, con2(mid, 0, c, lg=lg) if v2 else con(mid, lg))]
                if v2:
                    b += [snd(c, con(mid, lg))]
            b += [rnd("", names, names)] + ([rnd("", names, names)] if v2 else [])
            for (c, mid, ty, mt) in ctl:
                b += [snd(c, sub(ty, mid, mt)), rnd("", [c], list(wcase) if wcase else [c])]
            b += [snd("q", data(1234, 6, 0, 0, 1)), rnd("", ["q"], list(wcase) + ["q"])]
            b += [snd("q", data(1234, 6, 5, 0, 2)), rnd("", ["q"], list(wcase) + ["q"])]
            out.append(b)
    return out
