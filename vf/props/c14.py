from . import hubprops
from .. import scenarios

hubprops.PLAN["C14"] = [
    {"fam": "Routing", "num_q": 50, "num_t": 600, "depth": 80},
    {"fam": "Failures", "num_q": 60, "num_t": 600, "depth": 80},
    {"fam": "death-during-manager-msg", "scen": scenarios.death_during_manager_msg, "num_q": 0, "num_t": 0, "prof_q": 3, "prof_t": 8},
    {"fam": "no-notice-types", "scen": scenarios.no_notice_types, "num_q": 0, "num_t": 0, "prof_q": 2, "prof_t": 4},
]


def run(tier, seed):
    return hubprops.run("C14", tier, seed)


def replay(path):
    return hubprops.replay("C14", path)
