from . import hubprops

hubprops.PLAN["C14"] = [{"fam": "Routing", "num_q": 50, "num_t": 600, "depth": 80},
                       {"fam": "Failures", "num_q": 60, "num_t": 600, "depth": 80}]


def run(tier, seed):
    return hubprops.run("C14", tier, seed)


def replay(path):
    return hubprops.replay("C14", path)
