from . import hubprops
from .. import scenarios

hubprops.PLAN["C18"] = [
    {"fam": "Stats", "num_q": 40, "num_t": 400, "depth": 120},
    {"fam": "stats-matrix", "scen": scenarios.stats_matrix, "num_q": 0, "num_t": 0, "prof_q": 1, "prof_t": 3},
]


def run(tier, seed):
    return hubprops.run("C18", tier, seed)


def replay(path):
    return hubprops.replay("C18", path)
