from . import hubprops
from .. import scenarios

hubprops.PLAN["C18"] = [
    {"fam": "Stats", "num_q": 40, "num_t": 400, "depth": 120},
    {"fam": "stats-matrix", "scen": scenarios.stats_matrix, "num_q": 0, "num_t": 0, "prof_q": 1, "prof_t": 3},
    # the manager started with send_msg_timing=False: no TIMING_MESSAGE, MESSAGE_TRAFFIC exactly as before
    {"fam": "StatsNoTiming", "num_q": 15, "num_t": 150, "depth": 120, "prof_q": 1, "prof_t": 2, "timing": False},
    {"fam": "stats-matrix-notiming", "scen": scenarios.stats_matrix, "num_q": 0, "num_t": 0, "prof_q": 1, "prof_t": 1, "timing": False},
    {"fam": "refused-duplicate-then-timing", "scen": scenarios.refused_duplicate_then_timing, "num_q": 0, "num_t": 0, "prof_q": 2, "prof_t": 3},
]


def run(tier, seed):
    return hubprops.run("C18", tier, seed)


def replay(path):
    return hubprops.replay("C18", path)
