from . import hubprops
from .. import scenarios

hubprops.PLAN["C01"] = [
    {"fam": "repo-tests", "scen": "repo-tests", "num_q": 0, "num_t": 0},
    {"fam": "Routing", "num_q": 50, "num_t": 600, "depth": 80},
    {"fam": "Failures", "num_q": 60, "num_t": 600, "depth": 80},
    {"fam": "routing-edges", "scen": scenarios.routing_edges, "num_q": 0, "num_t": 0, "prof_q": 2, "prof_t": 4},
]


def run(tier, seed):
    return hubprops.run("C01", tier, seed)


def replay(path):
    return hubprops.replay("C01", path)
