"""C08 -- client read path: faithful, filtered, self-resynchronising.

TLC checks the clauses on ClientRead.tla over every stream / subscription-change / read sequence in
the bound; TLC-generated behaviours are executed with a REAL Client reading from a scripted socket
and every read_message call is validated by TLC (ClientRead_Trace).
"""
from __future__ import annotations

import json
import os
import shutil
import tempfile
from typing import Any, Dict, List

from .. import engine, tlc
from ..readdrv import ReadStand

CFG = """SPECIFICATION Spec
CONSTANTS
  Types = {types}
  MaxFrames = {maxframes}
  MaxReads = {maxreads}
  GenOn = {gen}
{checks}
CHECK_DEADLOCK FALSE
"""
CHECKS = "\n".join("INVARIANT " + i for i in ("NeverUnsubscribed", "ErrorConsumesOffender", "InOrder", "LossReported", "NoSilentLoss"))


def _cfg(d, name, **kw):
    p = os.path.join(d, name)
    open(p, "w").write(CFG.format(**kw))
    return p


def _run(args):
    tid, beh, variant = args
    st = ReadStand(timecode=variant["timecode"], chunk=variant["chunk"])
    try:
        for e in beh:
            a = e["a"]
            if a == "Arrive":
                st.arrive(e["cls"], e["t"], e["id"])
            elif a == "Cut":
                st.cut(e["kind"])
            elif a == "Reconnect":
                st.reconnect()
            elif a == "Sub":
                st.sub(e["op"], e["t"])
            elif a == "Read":
                st.read(e["tm"], e["ack"], e["sync"])
    finally:
        st.restore()
    return {"tid": tid, "ev": st.events}


def extra() -> List[List[dict]]:
    A = lambda cls, t, i: {"a": "Arrive", "cls": cls, "t": t, "id": i}
    R = lambda tm="pos", ack=False, sync=False: {"a": "Read", "tm": tm, "ack": ack, "sync": sync}
    S = lambda op, t=26: {"a": "Sub", "op": op, "t": t}
    out = []
    # every error class followed by a good frame, with and without the sync check
    for cls in ("unknown", "wrongsize", "wrongsize0", "wrongver", "wrongver0", "wrongboth", "zerover", "zerolen", "ack"):
        for sync in (False, True):
            out.append([S("sub", 26), S("sub", 14), A(cls, 26, 1), A("good", 26, 2), A(cls, 26, 3), A(cls, 26, 4), A("good", 26, 5),
                        R("pos", False, sync), R("pos", False, sync), R("pos", False, sync), R("pos", False, sync), R("zero", True, sync), R("zero", False, sync)])
    # queued messages of a type that is unsubscribed / paused before they are read
    out.append([S("sub", 26), S("sub", 34)] + [A("good", 26, i) for i in range(1, 6)] + [A("good", 34, 6), S("unsub", 26), R("pos"), R("pos"), R("zero")])
    out.append([S("sub", 26), S("sub", 34)] + [A("good", 26, i) for i in range(1, 8)] + [A("good", 34, 8), S("unsub", 26), R("tiny"), R("tiny"), R("tiny")])
    out.append([S("suball")] + [A("good", 26, 1), A("unknown", 26, 2), A("good", 34, 3), S("unsuball"), S("sub", 34), R("pos"), R("pos"), R("pos")])
    # connection loss at the start, inside and at the end of a frame
    for kind in ("fin", "finmid", "finbody", "rst"):
        out.append([S("sub", 26), A("good", 26, 1), A("good", 26, 2), {"a": "Cut", "kind": kind}, R("pos"), R("pos"), R("pos"), R("zero")])
        out.append([S("sub", 26), {"a": "Cut", "kind": kind}, R("block"), R("pos")])
    # the connection is lost, the same client object connects again: the subscriptions of the old connection are gone
    for kind in ("fin", "rst"):
        for old in ("sub", "suball"):
            out.append([S(old, 26), A("good", 26, 1), {"a": "Cut", "kind": kind}, R("pos"), R("pos"), {"a": "Reconnect"}, S("sub", 34),
                        A("good", 26, 2), A("good", 34, 3), A("good", 26, 4), A("good", 34, 5), R("pos"), R("pos"), R("pos"), R("zero")])
    # the last frame torn after its header, for every class whose header already tells (or does not tell) that it cannot be decoded
    for cls in ("good", "unknown", "wrongsize", "wrongboth", "wrongver", "zerover"):
        for sync in (False, True):
            for t in (26, 34):
                out.append([S("sub", 26), S("sub", 34), A("good", 26, 1), A(cls, t, 2), {"a": "Cut", "kind": "finbody"},
                            R("pos", False, sync), R("pos", False, sync), R("pos", False, sync), R("zero", False, sync)])
                out.append([S("sub", 26), S("sub", 34), A("good", 26, 1), A("good", 26, 2), A(cls, t, 3), {"a": "Cut", "kind": "finbody"},
                            R("pos", False, sync), R("pos", False, sync), R("pos", False, sync), R("zero", False, sync)])
    return out


def run(tier: str, seed: int) -> Dict[str, Any]:
    q = tier == "quick"
    d = tempfile.mkdtemp(prefix="c08_")
    try:
        mc = engine.model_check("ClientRead", _cfg(d, "mc.cfg", types="{26}", maxframes=3, maxreads=2 if q else 3,       # (two types x 3 reads: > 1.4e9 states with the present frame classes)
                                                   gen="FALSE", checks=CHECKS))
        if mc["violation"]:
            raise tlc.TlcError("ClientRead violates " + mc["violation"] + mc["out"][-3000:])
        g = _cfg(d, "gen.cfg", types="{26, 34}", maxframes=6, maxreads=6, gen="TRUE", checks="INVARIANT GenInv")
        behs = engine.gen_behaviours("ClientRead", g, num=300 if q else 2500, depth=40, seed=seed + 3)
    finally:
        shutil.rmtree(d, ignore_errors=True)
    behs += extra()
    variants = [{"timecode": False, "chunk": None}, {"timecode": True, "chunk": 7}, {"timecode": False, "chunk": 1}, {"timecode": True, "chunk": 100}]
    work = []
    tid = 0
    for i, b in enumerate(behs):
        for v in ([variants[i % 4]] if q else variants):
            tid += 1
            work.append((tid, b, v))
    import multiprocessing as mp
    with engine.Quiet():
        with mp.get_context("fork").Pool(12) as pool:
            traces = pool.map(_run, work, chunksize=16)
    from concurrent.futures import ThreadPoolExecutor
    n = max(1, min(8, len(traces) // 150))
    chunks = [traces[i::n] for i in range(n)]
    res: Dict[int, dict] = {}

    def val(chunk):
        v = tlc.validate_traces(chunk, "ClientRead_Trace", "ClientRead_Trace.cfg", timeout=1200)
        for t in chunk:
            if t["tid"] not in v["by_tid"]:
                raise tlc.TlcError("no verdict for read trace\n" + v["tlc"]["out"][-3000:])
        return v["by_tid"]

    with ThreadPoolExecutor(max_workers=n) as ex:
        for part in ex.map(val, chunks):
            res.update(part)
    viol, drift = [], 0
    by_tid = {t["tid"]: t for t in traces}
    wk = {w[0]: w for w in work}
    for tid_, v in res.items():
        if v["res"] == "ok":
            continue
        for step, clause in v["props"]:
            if clause == "drift":
                drift += 1
                continue
            ev = by_tid[tid_]["ev"][step - 1]
            viol.append({"signature": f"C08/{clause}/tm:{ev.get('tm')}:res:{ev['res'].get('k')}:{ev['res'].get('exc', '')}",
                         "replay": {"behaviour": wk[tid_][1], "variant": wk[tid_][2], "step": step, "clause": clause,
                                    "events": by_tid[tid_]["ev"][max(0, step - 4): step]}})
    cov = {"states": mc.get("distinct", 0), "transitions": mc.get("states", 0), "traces_validated_against_impl": len(traces),
           "behaviours_replayed": len(behs), "drift_steps": drift,
           "samples": [{"behaviour": behs[0]}, {"trace_events": traces[0]["ev"][-2:]}], "exhaustive": False,
           "explanation": "ClientRead.tla model checked; TLC -simulate behaviours + hand-written adjacency cases executed with a real "
                          "Client on a scripted socket (plain/timecode headers, segment sizes 1, 7, 100, unlimited); each read_message validated by TLC"}
    notes = [f"{drift} read(s) differ from ReadOp without violating a C08 clause (drift)"] if drift else []
    return {"level": "model_checking", "coverage": cov, "violations": viol, "notes": notes,
            "assumptions": ["scripted socket models MSG_WAITALL short read on FIN and ConnectionResetError on RST",
                            "a read that would block forever is outside the property", "local definitions: core MT 26, 34, 14, 2; MT 4321 undefined"]}


def replay(path: str) -> Dict[str, Any]:
    rp = json.load(open(path))
    with engine.Quiet():
        t = _run((1, rp["behaviour"], rp["variant"]))
    v = tlc.validate_traces([t], "ClientRead_Trace", "ClientRead_Trace.cfg", timeout=300)["by_tid"][1]
    engine.say(f"replay verdict: {v}")
    viol = []
    if v["res"] != "ok" and any(c != "drift" for _, c in v["props"]):
        viol.append({"signature": rp["signature"], "replay": rp})
    return {"level": "model_checking", "coverage": {}, "violations": viol}
