from . import hubprops

hubprops.PLAN["C05"] = [{"fam": "Routing", "num_q": 50, "num_t": 600, "depth": 80},
                       {"fam": "Failures", "num_q": 60, "num_t": 600, "depth": 80}]


def run(tier, seed):
    return hubprops.run("C05", tier, seed)


def replay(path):
    return hubprops.replay("C05", path)
