from . import hubprops
from .. import scenarios

hubprops.PLAN["C05"] = [
    {"fam": "repo-tests", "scen": "repo-tests", "num_q": 0, "num_t": 0},
    {"fam": "Routing", "num_q": 50, "num_t": 600, "depth": 80},
    {"fam": "Failures", "num_q": 60, "num_t": 600, "depth": 80},
    {"fam": "drops-with-logging", "scen": scenarios.drops_with_logging, "num_q": 0, "num_t": 0, "prof_q": 3, "prof_t": 8, "log_level": 20},
    {"fam": "death-during-manager-msg", "scen": scenarios.death_during_manager_msg, "num_q": 0, "num_t": 0, "prof_q": 3, "prof_t": 8},
]


def run(tier, seed):
    return hubprops.run("C05", tier, seed)


def replay(path):
    return hubprops.replay("C05", path)
