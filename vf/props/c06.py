from . import hubprops
from .. import scenarios

hubprops.PLAN["C06"] = [
    {"fam": "Identity", "num_q": 40, "num_t": 600, "depth": 100},
    {"fam": "connect-matrix", "scen": scenarios.connect_matrix, "num_q": 0, "num_t": 0, "prof_q": 1, "prof_t": 2},
]


def run(tier, seed):
    return hubprops.run("C06", tier, seed)


def replay(path):
    return hubprops.replay("C06", path)
