import json
from . import hubprops
from .. import scenarios

hubprops.PLAN["C06"] = [
    {"fam": "repo-tests", "scen": "repo-tests", "num_q": 0, "num_t": 0},
    {"fam": "Identity", "num_q": 40, "num_t": 600, "depth": 100},
    {"fam": "dynamic-double-wrap", "scen": scenarios.dynamic_double_wrap, "num_q": 0, "num_t": 0, "prof_q": 1, "prof_t": 2},
    {"fam": "connect-matrix", "scen": scenarios.connect_matrix, "num_q": 0, "num_t": 0, "prof_q": 1, "prof_t": 2},
]


def run(tier, seed):
    return hubprops.run("C06", tier, seed)


def replay(path):
    import json
    rp = json.load(open(path))
    if rp.get("kind") == "client":
        from .. import engine
        with engine.Quiet():
            r = _connect_case(tuple(rp["case"]["args"]))
        engine.say(f"replay: CONNECT_V2 seen by the manager: {r.get('v2')}  info: {r.get('info')}")
        n, viol = 0, []
        v2 = r.get("v2") or {}
        entry, module_id, logger, daemon, multi, name, tc = r["args"]
        if v2.get("multi") != int(multi) or v2.get("daemon") != int(daemon) or v2.get("logger") != int(logger):
            viol.append({"signature": rp["signature"], "replay": rp})
        return {"level": "model_checking", "coverage": {}, "violations": viol}
    if rp.get("kind") == "ident":
        from .. import engine
        with engine.Quiet():
            _, bad = _ident_case((0, rp["behaviour"], False))
        for sig, detail in bad:
            engine.say(f"replay: {sig}: {detail}")
        viol = [{"signature": sig, "replay": rp} for sig, _ in bad if sig.startswith("C06/")]
        return {"level": "model_checking", "coverage": {}, "violations": viol}
    return hubprops.replay("C06", path)


# ------------------------------------------------------------------------------------------------
# the options a caller passes when connecting take effect at the manager exactly as named,
# through every public way of connecting (Client.connect, client_context)
# ------------------------------------------------------------------------------------------------
def _connect_case(args):
    """one real Client connecting to the real manager over vio; returns what the manager was told and what it did"""
    import itertools
    from ..hub import Hub
    from .. import engine as _e
    entry, module_id, logger, daemon, multi, name, timecode = args
    h = Hub(timecode=timecode)
    out = {"args": list(args)}
    try:
        import pyrtma.client as C
        h.open("mon")
        from .. import scenarios as S
        h.send("mon", S.con(9))
        h.run_until_quiet()
        for t in (32, 33):
            h.send("mon", S.sub(15, 9, t))
        h.run_until_quiet()
        n0 = len(h.events)
        cm = None
        try:
            if entry == "connect":
                c = C.Client(module_id=module_id, timecode=timecode, name=name)
                c.connect("127.0.0.1:7111", logger_status=logger, daemon_status=daemon, allow_multiple=multi)
            else:
                cm = C.client_context(module_id=module_id, server_name="127.0.0.1:7111", timecode=timecode,
                                      logger_status=logger, allow_multiple=multi, name=name)
                c = cm.__enter__()
            h.run_until_quiet()
            out["client_id"] = c.module_id
            out["connected"] = c.connected
        except Exception as e:  # noqa
            out["error"] = type(e).__name__
            c = None
        evs = h.events[n0:]
        v2 = [e["in"]["p"] for e in evs if e.get("a") == "Svc" and e.get("in", {}).get("k") == "f" and e["in"]["t"] == 4]
        out["v2"] = v2[0] if v2 else None
        kname = [n for n in h.net.ends if n.startswith("k")]
        kname = kname[-1] if kname else None
        acks = [f for e in evs if e.get("a") == "Svc" for f in e.get("emit", {}).get(kname, []) if f["t"] == 2]
        out["ack_dst"] = acks[0]["dst"] if acks else None
        infos = [f["p"] for e in evs if e.get("a") == "Svc" for f in e.get("emit", {}).get("mon", []) if f["t"] == 32]
        out["info"] = infos[0] if infos else None
        out["manager_sees"] = None
        for s, m in h.mgr.modules.items():
            if getattr(s, "name", None) == kname:
                out["manager_sees"] = {"id": m.mod_id, "logger": m.is_logger, "daemon": m.is_daemon, "unique": m.unique, "name": m.name}
        try:
            if cm is not None:
                cm.__exit__(None, None, None)
            elif c is not None:
                c.disconnect()
        except Exception:
            pass
    finally:
        h.close()
    return out


def client_options(tier: str, seed: int):
    import itertools
    import multiprocessing as mp
    cases = []
    for entry in ("connect", "context"):
        for module_id, logger, daemon, multi, name, tc in itertools.product((0, 11), (False, True), (False, True), (False, True), ("", "probe"), (False, True)):
            if entry == "context" and daemon:
                continue        # client_context has no daemon option
            cases.append((entry, module_id, logger, daemon, multi, name, tc))
    from .. import engine
    with engine.Quiet():
        with mp.get_context("fork").Pool(12) as pool:
            res = pool.map(_connect_case, cases, chunksize=4)
    viol = []
    for r in res:
        entry, module_id, logger, daemon, multi, name, tc = r["args"]
        want = {"logger": int(logger), "daemon": int(daemon), "multi": int(multi), "id": module_id, "name": name}
        v2 = r.get("v2")
        if r.get("error") or v2 is None:
            viol.append({"signature": f"C06/ShouldAccept/client:{entry}:{r.get('error')}", "replay": {"kind": "client", "case": r}})
            continue
        for k, w in want.items():
            got = v2.get(k)
            if k == "name" and module_id and not name:
                continue        # a static id may pick up a default name from the context
            if got != w:
                viol.append({"signature": f"C06/OptionNotHonoured/{k}:{entry}", "replay": {"kind": "client", "case": r, "option": k, "sent": got, "asked": w}})
        info = r.get("info") or {}
        if info and (info.get("logger") != int(logger) or info.get("uniq") != int(not multi)):
            viol.append({"signature": f"C06/OptionNotHonoured/at-manager:{entry}", "replay": {"kind": "client", "case": r}})
        # the client learns its id from the acknowledgement
        if r.get("client_id") != r.get("ack_dst") or (module_id and r.get("client_id") != module_id) or (not module_id and not (100 <= (r.get("client_id") or 0) < 200)):
            viol.append({"signature": f"C06/AckIdMismatch/client:{entry}", "replay": {"kind": "client", "case": r}})
    uniq, seen = [], set()
    for x in viol:
        if x["signature"] not in seen:
            seen.add(x["signature"])
            uniq.append(x)
    return len(cases), uniq


_hub_run = run


def run(tier, seed):  # noqa: F811
    res = _hub_run(tier, seed)
    n, viol = client_options(tier, seed)
    res["violations"] += viol
    res["coverage"]["client_entry_point_cases"] = n
    res["coverage"]["traces_validated_against_impl"] += n
    res["coverage"]["explanation"] += ("; every option combination through Client.connect and client_context is executed with a real Client: the CONNECT_V2 "
                                       "frame the manager reads, the CLIENT_INFO it publishes and the id adopted from the ACK must be what the caller named")
    return res


# ------------------------------------------------------------------------------------------------
# the identity life cycle of ONE client object (spec/ClientIdent.tla): connect, disconnect, loss of the
# connection, connect again - every request names the id the caller asked for, the id is learnt from the ACK
# ------------------------------------------------------------------------------------------------
def _ident_case(args):
    tid, beh, timecode = args
    from ..hub import Hub
    from .. import scenarios as S
    h = Hub(timecode=timecode)
    bad = []
    c = None
    try:
        import pyrtma.client as C
        import pyrtma.exceptions as E
        nother = 0
        for k, e in enumerate(beh):
            a = e["a"]
            n0 = len(h.events)
            if a == "Make":
                c = C.Client(module_id=e["asked"], timecode=timecode, name="")
                asked = e["asked"]
            elif a == "Connect":
                try:
                    c.connect("127.0.0.1:7111")
                    h.run_until_quiet()
                except Exception as ex:  # noqa
                    bad.append((f"C06/ShouldAccept/client:reconnect:{type(ex).__name__}", f"step {k}: connect() of a client made with module_id={asked} failed"))
                    break
                evs = h.events[n0:]
                req = [ev["in"] for ev in evs if ev.get("a") == "Svc" and ev.get("in", {}).get("k") == "f" and ev["in"]["t"] in (4, 13)]
                want = e["exp"]
                if not req or req[0]["src"] != want["req"]:
                    bad.append(("C06/OptionNotHonoured/id:reconnect", f"step {k}: the CONNECT request named id {req[0]['src'] if req else None}, the caller asked for {want['req']}"))
                if c.module_id != want["id"]:
                    bad.append(("C06/AckIdMismatch/client:reconnect", f"step {k}: client reports id {c.module_id}, the manager assigned {want['id']}"))
                ids = sorted(m.mod_id for m in h.mgr.modules.values())
                if ids.count(c.module_id) != 1:
                    bad.append(("C06/AckIdMismatch/client:reconnect", f"step {k}: client id {c.module_id} is not held by exactly one module at the manager ({ids})"))
            elif a == "Disconnect":
                c.disconnect()
                h.run_until_quiet()
            elif a == "Lose":
                end = c._sock.end
                end.inbuf.clear()
                end.fin_in = True               # the peer went away ...
                try:
                    c.read_message(0)
                    bad.append(("C08/LossNotReported", f"step {k}: read_message on a closed connection returned"))
                except E.ConnectionLost:
                    pass
                end.close()                     # ... and the manager learns that this end is gone, too
                h.run_until_quiet()
            elif a == "OtherJoins":
                name = f"o{nother}"
                nother += 1
                h.open(name)
                h.send(name, S.con(0))
                h.run_until_quiet()
                ids = sorted(m.mod_id for m in h.mgr.modules.values())
                if e["exp"]["id"] not in ids:
                    bad.append(("ClientIdent/drift:other-id", f"step {k}: expected the other module to get {e['exp']['id']}, manager holds {ids}"))
            if h.crashed:
                bad.append(("C03/Crash", f"step {k}: manager died"))
                break
    finally:
        try:
            if c is not None and c.connected:
                c.disconnect()
        except Exception:
            pass
        if c is not None:
            c._connected = False
        h.close()
    return tid, bad


def ident_half(tier: str, seed: int):
    from .. import engine, tlc
    mc = engine.model_check("ClientIdent", "ClientIdent.cfg", timeout=600)
    if mc["violation"]:
        raise tlc.TlcError("ClientIdent violated: " + mc["violation"])
    g = tlc.run_tlc("ClientIdent", "ClientIdent_Gen.cfg", workers=1, timeout=600)      # exhaustive: every behaviour of the bound
    if g["error"]:
        raise tlc.TlcError("ClientIdent export failed: " + str(g["error"]))
    behs = {json.dumps(b, sort_keys=True): b for b in tlc.behaviours(g["out"])}
    behs = [behs[k] for k in sorted(behs)]
    if len(behs) < 50:
        raise tlc.TlcError(f"ClientIdent exported only {len(behs)} behaviours")
    import multiprocessing as mp
    items = [(i, b, bool(i % 2)) for i, b in enumerate(behs)]
    with engine.Quiet():
        with mp.get_context("fork").Pool(12) as pool:
            res = pool.map(_ident_case, items, chunksize=4)
    viol, drift = [], []
    for tid, bad in res:
        for sig, detail in bad:
            (viol if sig.startswith("C06/") else drift).append((sig, detail, behs[tid]))
    return mc, len(behs), viol, drift


_run06 = run


def run(tier, seed):  # noqa: F811
    res = _run06(tier, seed)
    mc, n, viol, drift = ident_half(tier, seed)
    seen = set()
    for sig, detail, b in viol:
        if sig not in seen:
            seen.add(sig)
            res["violations"].append({"signature": sig, "replay": {"kind": "ident", "behaviour": b, "detail": detail}})
    res["coverage"]["states"] += mc.get("distinct", 0)
    res["coverage"]["transitions"] += mc.get("states", 0)
    res["coverage"]["client_identity_behaviours_replayed"] = n
    res["coverage"]["traces_validated_against_impl"] += n
    if drift:
        res["notes"].append(f"client identity life cycle (ClientIdent.tla): {len(drift)} difference(s) outside C06: {sorted({s for s, _, _ in drift})[:6]}")
    res["coverage"]["explanation"] += ("; ClientIdent.tla (connect / disconnect / connection loss / connect again of one client object) model checked, every "
                                       "behaviour of the bound replayed on a real Client against the real manager")
    return res
