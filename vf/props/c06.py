from . import hubprops

hubprops.PLAN["C06"] = [{"fam": "Identity", "num_q": 60, "num_t": 600, "depth": 100}]


def run(tier, seed):
    return hubprops.run("C06", tier, seed)


def replay(path):
    return hubprops.replay("C06", path)
