"""C03 -- no client can take the manager down.

Spec side: MC_Hostile (Manager.tla with hostile frame classes handled as close-or-ignore) is model
checked for ProbeServed; the Failures family covers simultaneous departures in every service order.
Code side: every hostile input class is thrown at the REAL manager over vio; after each one the
manager thread must be alive, bystanders must not have been closed, and a fresh publisher /
subscriber pair must complete connect - subscribe - publish - receive (the implementation of the
spec's ProbeServed).  Fault schedules (deaths, FIN, RST) are additionally validated by TLC.
"""
from __future__ import annotations

import json
import os
import random
import shutil
import struct
import tempfile
import time
from typing import Any, Dict, List, Tuple

from .. import engine, families, tlc, frames as F
from ..hub import Hub
from . import hubprops
from .. import scenarios

hubprops.PLAN["C03"] = [{"fam": "Failures", "num_q": 40, "num_t": 500, "depth": 80},
                        {"fam": "death-during-manager-msg", "scen": scenarios.death_during_manager_msg, "num_q": 0, "num_t": 0, "prof_q": 2, "prof_t": 6}]

I16 = (-32768, -1, 0, 1, 32767)
I32 = (-2**31, -1, 0, 1, 2**31 - 1)
U32 = (0, 1, 2**31, 2**32 - 1)
DBL = (0.0, -1.0, float("inf"), float("nan"), 1.7e308)
T9 = 4321


def pack_hdr(timecode, **kw):
    vals = dict(msg_type=1234, msg_count=0, send_time=1.0, recv_time=0.0, src_host_id=0, src_mod_id=0, dest_host_id=0,
                dest_mod_id=0, num_data_bytes=0, remaining_bytes=0, is_dynamic=0, reserved=0)
    vals.update(kw)
    b = struct.pack("<iiddhhhhiiiI", *[vals[k] for k in F.HDR_FIELDS])
    return b + (b"\0" * 8 if timecode else b"")


def hostile_cases(tier: str, seed: int) -> List[Tuple[str, dict]]:
    """(class name, case) ; case: stage, bytes, fin(after bytes), rst"""
    r = random.Random(seed)
    cases: List[Tuple[str, dict]] = []
    pl = bytes(range(16))

    cur_tc = [False]

    def add(cls, b, fin=False, rst=False, stage="connected"):
        cases.append((cls, {"bytes": b, "fin": fin, "rst": rst, "stage": stage, "tc": cur_tc[0]}))

    for tc in (False, True):
        cur_tc[0] = tc
        # 1. every header field at the boundary values of its C type
        for fld, vals in (("msg_type", I32), ("msg_count", I32), ("send_time", DBL), ("recv_time", DBL),
                          ("src_host_id", I16), ("src_mod_id", I16), ("dest_host_id", I16), ("dest_mod_id", I16),
                          ("remaining_bytes", I32), ("is_dynamic", I32), ("reserved", U32)):
            for v in vals:
                add(f"hdrfield:{fld}", pack_hdr(tc, **{fld: v}, num_data_bytes=len(pl)) + pl)
                if tier == "quick" and tc:
                    break
        # 2. declared payload length classes
        for nb in (-1, -2**31, 2**20, 2**20 + 1, 2**31 - 1, 65536, 17):
            body = pl if nb == 17 else b""
            add(f"len:{nb}", pack_hdr(tc, num_data_bytes=nb) + body, fin=True)
        # 3. message type classes, empty and garbage payload, connected and not yet connected
        types = list(range(0, 100)) + [9999, 10000, 10001, 65535, 2**31 - 2, 2**31 - 1, -1, -7, -2**31]
        if tier == "quick":
            types = [t for t in types if t in (0, 1, 2, 4, 6, 8, 13, 14, 15, 16, 26, 30, 31, 32, 33, 34, 40, 80, 82, 85, 86)] + types[100:]
        for t in types:
            for stage in ("connected", "accepted"):
                add(f"type:{t}:empty", pack_hdr(tc, msg_type=t), stage=stage)
                add(f"type:{t}:garbage", pack_hdr(tc, msg_type=t, num_data_bytes=64) + bytes([0xFF] * 64), stage=stage)
                if tc or tier == "quick":
                    break
        # 4. control payload contents
        def ctl(t, payload, **kw):
            return pack_hdr(tc, msg_type=t, num_data_bytes=len(payload), **kw) + payload
        for name in (b"\xff" * 32, b"A" * 32, b"\x80abc" + b"\0" * 28, b"[/x]" + b"\0" * 28, b"%s{}[bold]" + b"\0" * 22):
            add("ctl:connect_v2:name", ctl(4, struct.pack("<hhhhi32s", 0, 0, 0, 0, 1, name)), stage="accepted")
            add("ctl:set_name", ctl(34, name))
        for mid in I16:
            add("ctl:connect_v2:id", ctl(4, struct.pack("<hhhhi32s", 0, 0, 0, mid, 1, b"x")), stage="accepted")
            add("ctl:connect:src", ctl(13, struct.pack("<hh", 0, 0), src_mod_id=mid), stage="accepted")
        for flags in ((2, 2, 2), (-1, -1, -1), (1, 1, 1)):
            add("ctl:connect_v2:flags", ctl(4, struct.pack("<hhhhi32s", flags[0], flags[1], flags[2], 0, -1, b"")), stage="accepted")
        for mt in I32 + (9999, 10000, 2**31 - 2):
            for t in (15, 16, 85, 86):
                add("ctl:sub:type", ctl(t, struct.pack("<i", mt)))
        for t, size in ((4, 44), (13, 4), (15, 4), (16, 4), (85, 4), (86, 4), (26, 4), (34, 32)):
            for n in (0, size - 1, size + 1):
                if n >= 0:
                    add(f"ctl:size:{t}", ctl(t, bytes(n)), stage=r.choice(("accepted", "connected")))
        add("ctl:ready:pid", ctl(26, struct.pack("<i", -1)))
        # 5. FIN / RST at byte offsets of protocol frames
        frames = {"connect_v2": (ctl(4, struct.pack("<hhhhi32s", 0, 0, 0, 0, 1, b"abc")), "accepted"),
                  "subscribe": (ctl(15, struct.pack("<i", 1234)), "connected"),
                  "data": (pack_hdr(tc, msg_type=1234, num_data_bytes=100) + bytes(100), "connected")}
        for fname, (fb, stage) in frames.items():
            offs = range(len(fb) + 1) if tier == "thorough" else sorted({0, 1, 24, 47, 48, 49, 55, 56, 57, len(fb) // 2, len(fb) - 1, len(fb)} & set(range(len(fb) + 1)))
            for k in offs:
                add(f"cut:{fname}:fin", fb[:k], fin=True, stage=stage)
                add(f"cut:{fname}:rst", fb[:k], rst=True, stage=stage)
        # random bytes
        for i in range(40 if tier == "thorough" else 8):
            n = r.choice((1, 47, 48, 56, 100, 200))
            add("random-bytes", bytes(r.randrange(256) for _ in range(n)), fin=True, stage=r.choice(("accepted", "connected")))
    # the manager's own logging (console + RTMA_LOG messages) handles client-supplied text: run the
    # cases that carry names / unusual ids once more with logging switched on
    for cls, case in list(cases):
        if cls.startswith(("ctl:connect_v2", "ctl:set_name", "ctl:connect:src", "cut:connect_v2")) and not case["tc"]:
            for lvl in (10, 20):
                cases.append((cls + ":logged", {**case, "log": lvl}))
            # ... and with the manager started in debug mode (-d)
            cases.append((cls + ":debug", {**case, "debug": True}))
    return cases


class Stand:
    """a hub with bystanders: monitor m (CLIENT_CLOSED, FAILED), subscriber s (type 1234), publisher p"""

    def __init__(self, timecode: bool, salt: int = 0, log_level: int = 100, debug: bool = False):
        self.log_level = log_level
        self.debug = debug
        self.h = Hub(timecode=timecode, salt=salt, log_level=log_level, debug=debug)
        h = self.h
        self.n = 0
        for name, mid in (("m", 2), ("s", 3), ("p", 4)):
            h.open(name)
            h.send(name, scenarios.con(mid))
        h.run_until_quiet()
        for name, mid, t in (("m", 2, 33), ("m", 2, 8), ("s", 3, 1234)):
            h.send(name, scenarios.sub(15, mid, t))
        h.run_until_quiet()

    def attack(self, case: dict):
        h = self.h
        self.n += 1
        name = f"h{self.n}"
        h.open(name)
        h.run_until_quiet()
        if case["stage"] == "connected":
            h.send(name, scenarios.con2(0, 1, ""))
            h.run_until_quiet()
        if case["bytes"]:
            h.send_raw(name, case["bytes"])
        if case["rst"]:
            h.rst(name)
        elif case["fin"]:
            h.fin(name)
        if h.alive():
            self._quiet()
        # statistics paths see whatever the frame left in the counters
        if h.alive():
            h.tick(3)
            h.round()
        if h.alive() and not (case["fin"] or case["rst"]):
            h.fin(name)
            self._quiet()
        return name

    def _quiet(self):
        from ..vio import WouldBlock
        try:
            self.h.run_until_quiet()
        except WouldBlock:
            raise

    def probe(self) -> Tuple[bool, str]:
        h = self.h
        if not h.alive():
            return False, "manager thread dead"
        self.n += 1
        a, b = f"pa{self.n}", f"pb{self.n}"
        try:
            h.open(a)
            h.open(b)
            h.run_until_quiet()
            h.send(a, scenarios.con2(0, 1, ""))
            h.send(a, scenarios.con(0))
            h.send(b, scenarios.con2(0, 1, ""))
            h.send(b, scenarios.con(0))
            h.run_until_quiet()
            h.send(b, scenarios.sub(15, 0, T9))
            h.run_until_quiet()
            n0 = len(h.rx.get(b, []))
            h.send(a, {"k": "f", "t": T9, "src": 0, "dst": 0, "dhost": 0, "p": {"k": "d", "id": 700 + self.n, "size": 24}})
            h.run_until_quiet()
        except Exception as e:  # manager died under us
            return False, f"{type(e).__name__}: {e}"
        if not h.alive():
            return False, "manager thread dead"
        rxa, rxb = h.rx.get(a, []), h.rx.get(b, [])
        acks_a = [f for f in rxa if f["t"] == 2]
        acks_b = [f for f in rxb if f["t"] == 2]
        got = [f for f in rxb[n0:] if f["t"] == T9 and f["p"].get("id", -1) > 0]
        ok = len(acks_a) >= 1 and len(acks_b) >= 2 and len(got) == 1
        why = "" if ok else f"acks a={len(acks_a)} b={len(acks_b)} data={len(got)}"
        # leave politely so that the table does not fill up
        for c in (a, b):
            if h.alive():
                h.fin(c)
        if h.alive():
            h.run_until_quiet()
        return ok, why

    def bystanders_closed(self) -> List[str]:
        return [c for c in ("m", "s", "p") if c in self.h.closed_by_mgr]


def run_hostile(tier: str, seed: int):
    cases = hostile_cases(tier, seed)
    viol = []
    classes = {}
    n = 0
    sample = []
    t0 = time.time()
    with engine.Quiet():
        st = None
        for cls, case in cases:
            want_log = case.get("log", 100)
            if st is None or not st.h.alive() or st.n > 400 or st.h.timecode != case["tc"] or st.log_level != want_log or st.debug != bool(case.get("debug")):
                if st is not None:
                    st.h.close()
                st = Stand(timecode=case["tc"], salt=seed, log_level=want_log, debug=bool(case.get("debug")))
            n += 1
            classes[cls.split(":")[0]] = classes.get(cls.split(":")[0], 0) + 1
            problem = None
            try:
                st.attack(case)
                ok, why = st.probe()
            except engine.tlc.TlcError:
                raise
            except Exception as e:
                ok, why = False, f"harness: {type(e).__name__}: {e}"
                if "WouldBlock" in type(e).__name__:
                    # the case withheld bytes the manager waits for: excluded by the property, skip
                    st.h.close()
                    st = None
                    continue
            if st.h.crashed and st.h.crashed.startswith("WouldBlock"):
                # the case made the manager wait for bytes that never come: excluded by the property
                st.h.close()
                st = None
                continue
            if st.h.crashed:
                problem = f"ManagerDied({st.h.crashed})"
            elif not ok:
                problem = f"ProbeNotServed({why})"
            elif st.bystanders_closed():
                problem = f"BystanderClosed({','.join(st.bystanders_closed())})"
            if len(sample) < 3:
                sample.append({"class": cls, "stage": case["stage"], "bytes_hex": case["bytes"][:64].hex(), "fin": case["fin"], "rst": case["rst"]})
            if problem:
                kind = problem.split("(")[0]
                crash = st.h.crashed or ""
                sig = f"C03/{kind}:{crash}/class:{cls.split(':')[0]}:{cls.split(':')[1] if ':' in cls else ''}"
                viol.append({"signature": sig, "replay": {"kind": "hostile", "class": cls, "case": {**case, "bytes": case["bytes"].hex()},
                                                          "problem": problem, "traceback": st.h.net.mgr_tb[-1500:]}})
                st.h.close()
                st = None
        if st is not None:
            st.h.close()
    return {"cases": n, "classes": classes, "violations": viol, "samples": sample, "wall": time.time() - t0}


def run_many(tier: str, seed: int):
    """hundreds of connections: dynamic ids run out, ACTIVE_CLIENTS overflows its 256 slots"""
    viol = []
    res = {}
    with engine.Quiet():
        for n_conn, mode in ((120, "dynamic"), (300, "mixed"), (120, "massdeath"), (300, "massdeath")):
            st = Stand(False, salt=seed)
            h = st.h
            try:
                for i in range(n_conn):
                    c = f"x{i}"
                    h.open(c)
                    if mode == "massdeath":
                        h.send(c, scenarios.con2(50, 1, ""))
                        h.send(c, scenarios.con(50))
                    elif mode == "dynamic" or i % 3 == 0:
                        h.send(c, scenarios.con2(0, 1, ""))
                    else:
                        h.send(c, scenarios.con2(1 + i % 99, 1, ""))
                    if i % 16 == 0:
                        h.run_until_quiet()
                if h.alive():
                    h.run_until_quiet()
                if mode == "massdeath":
                    # every one of them subscribes to everything, then all are gone at the same instant (their
                    # writes fail); the next published message finds them all dead in ONE forward
                    for i in range(n_conn):
                        h.send(f"x{i}", scenarios.sub(15, 50, 0x7FFFFFFF))
                        if i % 16 == 0:
                            h.run_until_quiet()
                    h.run_until_quiet()
                    for i in range(n_conn):
                        h.die(f"x{i}", "hdr" if i % 2 else "pay")
                    h.send("p", {"k": "f", "t": 1234, "src": 4, "dst": 0, "dhost": 0, "p": {"k": "d", "id": 9, "size": 24}})
                    h.run_until_quiet()
                for k in range(3):
                    if h.alive():
                        h.tick(11)
                        h.round()
                ok, why = st.probe() if h.alive() else (False, "dead")
                # the dynamic range may be exhausted: free some, then a probe must work
                if h.alive() and not ok:
                    for i in range(0, 40):
                        h.fin(f"x{i}")
                    h.run_until_quiet()
                    ok, why = st.probe()
            except Exception as e:
                ok, why = False, f"harness: {type(e).__name__}: {e}"
            problem = None
            if h.crashed:
                problem = f"ManagerDied({h.crashed})"
            elif not ok:
                problem = f"ProbeNotServed({why})"
            elif st.bystanders_closed():
                problem = f"BystanderClosed({','.join(st.bystanders_closed())})"
            res[f"{n_conn}:{mode}"] = problem or "ok"
            if problem:
                crashed = h.crashed or ""
                if crashed.startswith("RecursionError"):
                    crashed = "RecursionError"   # the frame in which the stack ran out is incidental
                cls = "mass-death" if mode == "massdeath" else "many-connections"
                viol.append({"signature": f"C03/{problem.split('(')[0]}:{crashed}/class:{cls}:{n_conn}",
                             "replay": {"kind": "many", "n": n_conn, "mode": mode, "problem": problem, "traceback": h.net.mgr_tb[-1500:]}})
            h.close()
    return res, viol


def mc_hostile(tier: str):
    d = tempfile.mkdtemp(prefix="fam_")
    try:
        cfg = families.render("Hostile", tier, outdir=d)
        mc = engine.model_check("MC_Hostile", cfg)
    finally:
        shutil.rmtree(d, ignore_errors=True)
    if mc["violation"]:
        raise tlc.TlcError("MC_Hostile violates " + str(mc["violation"]) + mc["out"][-3000:])
    return mc


def run(tier, seed):
    mc = mc_hostile(tier)
    base = hubprops.run("C03", tier, seed)          # fault schedules through TLC trace validation
    hres = run_hostile(tier, seed)
    mres, mviol = run_many(tier, seed)
    cov = base["coverage"]
    cov["states"] += mc.get("distinct", 0)
    cov["transitions"] += mc.get("states", 0)
    cov["families"].append({"family": "Hostile", "module": "MC_Hostile", "distinct_states": mc.get("distinct"),
                            "states_generated": mc.get("states"), "properties_checked": ["IProbeServed", "IUniqueIds"]})
    cov["hostile_cases_executed"] = hres["cases"]
    cov["hostile_classes"] = hres["classes"]
    cov["many_connections"] = mres
    cov["samples"] += hres["samples"]
    cov["explanation"] += ("; hostile inputs: every class is sent to the real manager, then liveness of the manager thread, "
                           "bystander connections and a fresh publisher/subscriber probe pair are checked (ProbeServed)")
    return {"level": "model_checking", "coverage": cov, "violations": base["violations"] + hres["violations"] + mviol,
            "notes": base.get("notes", []), "assumptions": hubprops.ASSUME}


def replay(path):
    rp = json.load(open(path))
    if rp.get("kind") == "hostile":
        case = dict(rp["case"])
        case["bytes"] = bytes.fromhex(case["bytes"])
        with engine.Quiet():
            st = Stand(bool(case.get("tc")), log_level=case.get("log", 100))
            st.attack(case)
            ok, why = st.probe()
            crashed = st.h.crashed
            st.h.close()
        engine.say(f"replay: crashed={crashed} probe_ok={ok} {why}")
        viol = []
        if crashed or not ok:
            viol.append({"signature": rp["signature"], "replay": rp})
        return {"level": "model_checking", "coverage": {}, "violations": viol}
    if rp.get("kind") == "many":
        res, viol = run_many("quick", 0)
        engine.say(f"replay: {res}")
        return {"level": "model_checking", "coverage": {}, "violations": viol}
    return hubprops.replay("C03", path)
