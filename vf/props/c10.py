"""C10 -- serialisation round trips, copies, version refusal.

TLC (Codec.tla) checks ValuePreserved / VersionRefused on the conversion machine, confirms that the variants "copy
shares storage" and "different version accepted" violate them, and exports every conversion path up to the bound for
every (validator kind, value class).  The driver (vf/codecdrv.py) builds, through the validated field API, a message of
every class of the shipped core definitions, tests/test_msg_defs, examples/msg_defs, the probe definitions and seeded
random definition files (all compiled by the real compiler), executes the paths and compares bytes at every object
state.  The observations, aggregated per (kind, value class, path), go back to TLC (Codec_Trace.tla), which names the
failing clause: C10.RoundTripDiffers(path) / CopyShares / VersionNotRefused / VersionWronglyRefused.
"""
from __future__ import annotations

import json
import os
import random
import shutil
import tempfile
from concurrent.futures import ThreadPoolExecutor
from typing import Any, Dict, List, Tuple

from .. import codecdrv, engine, probedefs, tlc

ALL_KINDS = ["Int8", "Int16", "Int32", "Int64", "Uint8", "Uint16", "Uint32", "Uint64", "Float", "Double", "Byte", "Char", "String"]
CFG = """SPECIFICATION Spec
CONSTANTS
  MaxPath = {maxpath}
  GenOn = {gen}
  Kinds = {kinds}
  Shares = {shares}
  RefuseDifferent = {refuse}
INVARIANT TypeOK
INVARIANT ValuePreserved
INVARIANT VersionRefused
INVARIANT GenInv
CHECK_DEADLOCK FALSE
"""
# value classes that the lead may decide are outside the property: demoted to notes, never violations
OUTSIDE_PROPERTY: set = set()

TIERS = {
    "quick": dict(maxpath=4, nrandom=2, variants=1, full_size=300, mid_size=300, sample=4, lens=[2, 3], strlens=[2, 8]),
    "thorough": dict(maxpath=5, nrandom=10, variants=2, full_size=300, mid_size=1500, sample=40, lens=[2, 3, 5], strlens=[2, 8, 32]),
}


def _cfg(d, name, **kw):
    p = os.path.join(d, name)
    kw.setdefault("kinds", "{" + ", ".join('"%s"' % k for k in ALL_KINDS) + "}")
    with open(p, "w") as f:
        f.write(CFG.format(**kw))
    return p


# ------------------------------------------------------------------------------------------------------------------
# class sources
# ------------------------------------------------------------------------------------------------------------------
def _load(src: dict):
    t = src["type"]
    if t == "core":
        import pyrtma.core_defs as m
        return m
    if t == "header":
        import pyrtma.header as m
        return m
    if t == "file":
        return codecdrv.load_module(src["path"], src["name"])
    if t == "probe":
        return probedefs.build(src["lens"], src["strlens"])
    if t == "random":
        return probedefs.random_defs(src["seed"], src["nstruct"], src["nmsg"])
    raise KeyError(t)


def _classes_of(src: dict, mod) -> List[type]:
    cl = codecdrv.message_classes(mod) if src["type"] != "header" else [mod.MessageHeader]
    if src["type"] == "probe":
        cl = [c for c in cl if c.__name__.startswith(("P_", "MDF_P_")) and not c.__name__.endswith(f"ARR{probedefs.EXTRA_LEN}")]
    if src["type"] == "random":
        cl = [c for c in cl if c.__name__.startswith(("R_", "MDF_R_"))]
    return cl


def _sources(par: dict, seed: int) -> List[dict]:
    out = [{"type": "core"}, {"type": "header"},
           {"type": "file", "path": __import__("os").environ.get("VF_REPO", "/repo") + "/tests/test_msg_defs/test_defs.py", "name": "vf_test_defs"},
           {"type": "file", "path": __import__("os").environ.get("VF_REPO", "/repo") + "/examples/msg_defs/example_messages.py", "name": "vf_example_messages"},
           {"type": "probe", "lens": par["lens"], "strlens": par["strlens"]}]
    out += [{"type": "random", "seed": seed * 1000 + i, "nstruct": 4, "nmsg": 8} for i in range(par["nrandom"])]
    return out


_CLASSES: List[Tuple[dict, type]] = []
_SKIPPED: List[str] = []
_TRIE: codecdrv.Trie = None
_ADJ: Dict[str, dict] = {}


def _collect(par: dict, seed: int):
    global _CLASSES
    _CLASSES = []
    del _SKIPPED[:]
    seen = set()
    for src in _sources(par, seed):
        if src["type"] == "file" and not os.path.exists(src["path"]):
            continue
        try:
            mod = _load(src)
        except Exception as ex:   # noqa: BLE001
            if src["type"] != "random":
                raise
            _SKIPPED.append(f"random definition file (seed {src['seed']}) was not compiled/imported: {type(ex).__name__}: {str(ex)[:100]}")
            continue
        for c in _classes_of(src, mod):
            key = (getattr(c, "type_name", c.__name__), getattr(c, "type_hash", None), c.__name__)
            if key in seen:
                continue            # test_defs / generated modules repeat the core definitions
            seen.add(key)
            _CLASSES.append((src, c))


def _exec(items: List[Tuple[int, str, str, int, str]]):
    """items: (class index, kind, tag, variant, adjacency name) -> (aggregate, failures)"""
    agg: Dict[Tuple[str, str, int], Dict[str, int]] = {}
    fails = []
    nrun = 0
    for ci, kind, tag, variant, adjname in items:
        cls = _CLASSES[ci][1]
        try:
            st = codecdrv.run_paths(cls, kind, tag, variant, _ADJ[adjname]) if kind != "-" else codecdrv.run_default(cls, variant, _ADJ[adjname])
        except (KeyboardInterrupt, SystemExit):
            raise
        except BaseException as ex:   # noqa: BLE001
            fails.append((ci, kind, tag, variant, -1, "unconstructible", type(ex).__name__ + ": " + str(ex)[:120]))
            continue
        if st is None:
            continue
        nrun += 1
        for node, (s, d) in st.items():
            a = agg.setdefault((kind, tag, node), {})
            a[s] = a.get(s, 0) + 1
            if s not in ("ok", "skipped"):
                fails.append((ci, kind, tag, variant, node, s, d))
    return agg, fails, nrun


def _segment(prefix: tuple) -> tuple:
    """the part of the path from the last object state before the failing step up to the failing step"""
    if prefix[-1][0] == "MutateCopy":
        return prefix[-2:]
    start = 0
    for i, (a, p) in enumerate(prefix[:-1]):
        if codecdrv.TARGET[a] == "obj":
            start = i + 1
    return prefix[start:]


def _segname(seg: tuple) -> str:
    """canonical name of a segment for signatures: dict<->json detours are removed as long as the set of
    representations visited stays the same (ToDict.DictToJson.JsonToDict.FromDict keeps its trip through JSON)"""
    names = [a for a, _ in seg]

    def reps(ns):
        return {codecdrv.TARGET[a] for a in ns[:-1]}

    changed = True
    while changed:
        changed = False
        for i in range(len(names) - 1):
            if {names[i], names[i + 1]} == {"DictToJson", "JsonToDict"}:
                cand = names[:i] + names[i + 2:]
                if reps(cand) == reps(names):
                    names, changed = cand, True
                    break
    return ".".join(names)


SIG_CLASS = {"NEGNAN": "NaNbits", "NANPAYLOAD": "NaNbits", "STALE_NUL": "STALE"}


def _family(kind: str) -> str:
    return "Int" if kind in probedefs.INT_KINDS else "Float" if kind in probedefs.FLOAT_KINDS else kind


def _validate(records: List[dict], timeout: int) -> Dict[int, dict]:
    if not records:
        return {}
    n = max(1, min(8, len(records) // 6000))
    chunks = [records[i::n] for i in range(n)]

    def one(chunk):
        d = tempfile.mkdtemp(prefix="c10tr_")
        try:
            path = os.path.join(d, "obs.ndjson")
            with open(path, "w") as f:
                for r in chunk:
                    f.write(json.dumps(r) + "\n")
            res = tlc.run_tlc("Codec_Trace", "Codec_Trace.cfg", workers=2, env={"TRACE_FILE": path}, timeout=timeout)
        finally:
            shutil.rmtree(d, ignore_errors=True)
        by = {v["tid"]: v for v in tlc.verdicts(res["out"])}
        for r in chunk:
            if r["tid"] not in by:
                raise tlc.TlcError("Codec_Trace gave no verdict for record %d %s\n%s" % (r["tid"], r["path"], res["out"][-3000:]))
        return by

    out: Dict[int, dict] = {}
    with ThreadPoolExecutor(max_workers=n) as ex:
        for part in ex.map(one, chunks):
            out.update(part)
    return out


def _records(pairs, trie: codecdrv.Trie, agg) -> List[dict]:
    recs = []
    leaves = trie.leaves()
    for (k, t) in pairs:
        for leaf in leaves:
            pref = trie.prefix[leaf]
            obs = []
            for i in range(1, len(pref) + 1):
                a = agg.get((k, t, trie.ids[pref[:i]]))
                obs.append(sorted(a) if a else ["skipped"])
            recs.append({"tid": len(recs) + 1, "k": k, "v": t, "path": [{"a": a, "p": p} for a, p in pref], "obs": obs, "leaf": leaf})
    return recs


def run(tier: str, seed: int) -> Dict[str, Any]:
    global _TRIE, _ADJ
    par = dict(TIERS["quick" if tier == "quick" else "thorough"])
    d = tempfile.mkdtemp(prefix="c10_")
    try:
        jobs = {"mc": _cfg(d, "mc.cfg", maxpath=par["maxpath"], gen="TRUE", shares="FALSE", refuse="TRUE"),
                "shares": _cfg(d, "m1.cfg", maxpath=3, gen="FALSE", shares="TRUE", refuse="TRUE", kinds='{"Int8"}'),
                "accepts": _cfg(d, "m2.cfg", maxpath=3, gen="FALSE", shares="FALSE", refuse="FALSE", kinds='{"Int8"}')}
        with ThreadPoolExecutor(max_workers=3) as ex:
            futs = {k: ex.submit(tlc.run_tlc, "Codec", c, workers=5, timeout=900) for k, c in jobs.items()}
            res = {k: f.result() for k, f in futs.items()}
    finally:
        shutil.rmtree(d, ignore_errors=True)
    for k, r in res.items():
        if r["error"] or not r.get("finished"):
            raise tlc.TlcError(f"TLC failed on Codec ({k}): {r['error']}\n{r['out'][-2000:]}")
    if res["mc"]["violation"]:
        raise tlc.TlcError("Codec.tla violates " + res["mc"]["violation"])
    if res["shares"]["violation"] != "ValuePreserved" or res["accepts"]["violation"] != "VersionRefused":
        raise tlc.TlcError("the defective variants of Codec.tla should violate ValuePreserved / VersionRefused: %s"
                           % {k: r["violation"] for k, r in res.items()})
    exported = tlc.behaviours(res["mc"]["out"], tag="PATH ")
    bypair: Dict[Tuple[str, str], set] = {}
    for p in exported:
        bypair.setdefault((p["k"], p["v"]), set()).add(tuple((e["a"], e["p"]) for e in p["path"]))
    pathsets = {frozenset(v) for v in bypair.values()}
    if len(pathsets) != 1 or not exported:
        raise tlc.TlcError(f"unexpected export: {len(exported)} paths, {len(pathsets)} distinct path sets")
    raw_paths = sorted(next(iter(pathsets)))
    ext_paths = sorted({codecdrv.extend(p) for p in raw_paths})
    _TRIE = codecdrv.Trie(ext_paths)
    rnd = random.Random(seed)
    segs = codecdrv.segments(ext_paths)
    _ADJ = {"full": _TRIE.full(),
            "mid": _TRIE.sub(sorted({codecdrv.extend(p[:4]) for p in raw_paths}))}    # every path of (at most) 4 conversions
    pairs = sorted(bypair)

    _collect(par, seed)
    items = []
    nsample = 0
    for ci, (src, cls) in enumerate(_CLASSES):
        import ctypes
        ks = codecdrv.kinds_in(cls)
        size = ctypes.sizeof(cls)
        full = src["type"] in ("probe", "header") or size <= par["full_size"]
        mine = [(k, t) for (k, t) in pairs if k in ks] or [("-", "DEFAULT")]
        generated = src["type"] in ("probe", "random")
        for (k, t) in mine:
            vs = list(range(par["variants"] if generated else 1))
            if k != "-" and codecdrv.has_struct_array(cls):
                vs.append(codecdrv.SPARSE)        # sparse struct arrays (the usual state of DATA_COLLECTION.data_sets)
            for v in vs:
                if full:
                    name = "full"
                elif size <= par["mid_size"]:
                    name = "mid"
                else:
                    # large shipped classes in the quick tier: every object-to-object segment + a seeded sample of whole paths
                    name = f"s{nsample}"
                    nsample += 1
                    _ADJ[name] = _TRIE.sub(segs + rnd.sample(ext_paths, min(par["sample"], len(ext_paths))))
                items.append((ci, k, t, v, name))
    rnd.shuffle(items)
    import multiprocessing as mp
    chunks = [items[i:i + 12] for i in range(0, len(items), 12)]
    agg: Dict[Tuple[str, str, int], Dict[str, int]] = {}
    fails, nrun = [], 0
    with engine.Quiet():
        with mp.get_context("fork").Pool(14) as pool:
            for a, f, n in pool.imap_unordered(_exec, chunks):
                nrun += n
                fails += f
                for key, sd in a.items():
                    t = agg.setdefault(key, {})
                    for s, c in sd.items():
                        t[s] = t.get(s, 0) + c
    # the DEFAULT pseudo pair (classes without fields) is reported under the first exported pair
    for (k, t, node), sd in list(agg.items()):
        if k == "-":
            tgt = agg.setdefault((pairs[0][0], pairs[0][1], node), {})
            for s, c in sd.items():
                tgt[s] = tgt.get(s, 0) + c
    records = _records(pairs, _TRIE, agg)
    verdicts = _validate([{k: v for k, v in r.items() if k != "leaf"} for r in records], timeout=1500)

    # attribute failing (pair, node) to classes and build violations
    byfail: Dict[Tuple[str, str, int], list] = {}
    notes: List[str] = list(_SKIPPED)
    uncon = [f for f in fails if f[5] == "unconstructible"]
    for f in fails:
        if f[5] != "unconstructible":
            k, t = (f[1], f[2]) if f[1] != "-" else pairs[0]
            byfail.setdefault((k, t, f[4]), []).append(f)
    if uncon:
        notes.append(f"{len(uncon)} value(s) could not be constructed through the validated API (see C09), e.g. "
                     f"{_CLASSES[uncon[0][0]][1].__name__} {uncon[0][1]}:{uncon[0][2]} {uncon[0][6]}")
    viol, seen, outside = [], {}, {}
    default_cache: Dict[Tuple[int, tuple], str] = {}
    for r in records:
        v = verdicts[r["tid"]]
        if v["res"] == "ok":
            continue
        for step, clause in v["props"]:
            pref = _TRIE.prefix[r["leaf"]][:step]
            node = _TRIE.ids[pref]
            fl = byfail.get((r["k"], r["v"], node), [])
            seg = _segment(pref)
            segname = _segname(seg)
            if clause == "C10.VersionNotRefused":
                fl = [(ci, r["k"], r["v"], 0, node, "ok", "") for ci, (s, c) in enumerate(_CLASSES) if codecdrv.is_message(c)
                      and r["k"] in codecdrv.kinds_in(c)][:1]
            for f in fl[:40]:
                ci = f[0]
                cls = _CLASSES[ci][1]
                key = (ci, seg)
                if key not in default_cache:
                    with engine.Quiet():
                        t1 = codecdrv.Trie([seg])
                        st = codecdrv.run_default(cls, f[3], t1.full())
                    default_cache[key] = st.get(t1.ids[seg], ("skipped", ""))[0]
                dflt = default_cache[key]      # the same segment on a default-constructed object of the class
                indep = dflt == "ok" if clause == "C10.VersionNotRefused" else dflt not in ("ok", "skipped")
                vclass = "any" if indep else f"{_family(r['k'])}:{SIG_CLASS.get(r['v'], r['v'])}"
                cname = clause.split(".")[-1]
                detail = f":exc={f[6]}" if f[5] == "raised" else ""
                sig = f"C10/{cname}({segname})/{vclass}{detail}" if cname == "RoundTripDiffers" else f"C10/{cname}/{vclass}{detail}"
                if r["v"] in OUTSIDE_PROPERTY and vclass != "any":
                    outside[sig] = outside.get(sig, 0) + 1
                    continue
                seen[sig] = seen.get(sig, 0) + 1
                if seen[sig] <= 2:
                    viol.append({"signature": sig, "replay": {
                        "source": _CLASSES[ci][0], "class": cls.__name__, "kind": r["k"], "vclass": r["v"], "variant": f[3],
                        "path": [list(e) for e in pref], "segment": segname, "clause": clause, "status": f[5], "detail": f[6], "par": par}})
    for sig, n in outside.items():
        notes.append(f"outside the property (not a violation): {sig} x{n}")
    # the timecode header is not part of the quantification of C10: reported as a note
    notes += _timecode_note()
    ncls = len(_CLASSES)
    cov = {
        "states": res["mc"].get("distinct", 0), "transitions": res["mc"].get("states", 0),
        "traces_validated_against_impl": len(records),
        "paths_exported": len(raw_paths), "paths_with_closing_step": len(ext_paths), "kind_value_pairs": len(pairs),
        "classes": ncls, "classes_by_source": _by_source(), "class_value_objects_built": nrun,
        "conversions_executed": sum(c for sd in agg.values() for s, c in sd.items() if s != "skipped"),
        "failing_signatures": seen, "mutants": {"copy_shares_storage": res["shares"]["violation"], "accepts_different_version": res["accepts"]["violation"]},
        "parameters": {k: par[k] for k in ("maxpath", "nrandom", "variants", "full_size", "mid_size", "sample")},
        "samples": [{"pair": list(pairs[0]), "path": [list(e) for e in ext_paths[0]]},
                    {"pair": list(pairs[-1]), "path": [list(e) for e in ext_paths[-1]]},
                    {"class": _CLASSES[0][1].__name__, "source": _CLASSES[0][0]["type"]},
                    {"class": _CLASSES[-1][1].__name__, "source": _CLASSES[-1][0]["type"]}],
        "exhaustive": False,
        "explanation": "Codec.tla model checked (ValuePreserved, VersionRefused; defective variants violate them); every exported "
                       "conversion path x (kind, value class) executed on every class that has a field of the kind (generated classes and "
                       "shipped classes up to full_size bytes: every path; up to mid_size: every path of <= 4 conversions; larger: every "
                       "object-to-object segment plus a seeded sample of whole paths); "
                       "bytes compared at every object state; per-path observations judged by TLC (Codec_Trace). Numeric fidelity "
                       "is byte comparison in Python; TLC contributes the path/value enumeration, the copy rule and the refusal rule",
    }
    return {"level": "model_checking", "coverage": cov, "violations": viol, "notes": notes,
            "assumptions": [
                "values are built only through descriptor assignment (validated API); value classes = the C09 classes that are in the domain "
                "plus: negative / payload NaN, a shorter string written over a longer one, mixed arrays",
                "header-plus-data JSON uses the plain MessageHeader (Message.from_json always decodes that class)",
                "`different` version hash: type_hash+1, ~type_hash, 1 (non-zero, != local hash)",
                "a copy is scribbled over with memmove and the source re-read (and vice versa); both are restored afterwards",
                "the local definition of a type id is registered with pyrtma.message_def(cls) before decoding (several modules redefine the core ids)",
            ]}


def _by_source() -> Dict[str, int]:
    out: Dict[str, int] = {}
    for s, c in _CLASSES:
        k = s["type"] + (":" + os.path.basename(s["path"]) if s["type"] == "file" else "")
        out[k] = out.get(k, 0) + 1
    return out


def _timecode_note() -> List[str]:
    try:
        from pyrtma.header import TimeCodeMessageHeader as H
        with engine.Quiet():
            h = H()
            h.msg_type = 5
            h.utc_seconds = 7
            ok = bytes(H.from_dict(h.to_dict())) == bytes(h)
        return [] if ok else ["TimeCodeMessageHeader.to_dict()/from_dict() loses the inherited header fields (outside C10: not a generated class)"]
    except Exception as ex:   # noqa: BLE001
        return [f"TimeCodeMessageHeader dict round trip raises {type(ex).__name__} (outside C10: not a generated class)"]


def replay(path: str) -> Dict[str, Any]:
    rp = json.load(open(path))
    mod = _load(rp["source"])
    cls = getattr(mod, rp["class"])
    pref = tuple(tuple(e) for e in rp["path"])
    trie = codecdrv.Trie([pref])
    with engine.Quiet():
        st = codecdrv.run_paths(cls, rp["kind"], rp["vclass"], rp["variant"], trie.full())
    if st is None:
        st = codecdrv.run_default(cls, rp["variant"], trie.full())
    obs = [[st.get(trie.ids[pref[:i]], ("skipped", ""))[0]] for i in range(1, len(pref) + 1)]
    rec = {"tid": 1, "k": rp["kind"], "v": rp["vclass"], "path": [{"a": a, "p": p} for a, p in pref], "obs": obs}
    v = _validate([rec], timeout=300)[1]
    engine.say(f"replay: {rp['class']} {rp['kind']}:{rp['vclass']} {'.'.join(a for a, _ in pref)} -> {obs} verdict {v['res']} {v['props']}")
    hit = v["res"] != "ok" and any(c == rp["clause"] for _, c in v["props"])
    return {"level": "model_checking", "coverage": {}, "violations": [{"signature": rp["signature"], "replay": rp}] if hit else [],
            "notes": [], "assumptions": []}
