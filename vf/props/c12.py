"""C12 -- id and name conflicts are always detected, never invented.

TLC proves on spec/Imports.tla that the depth-first traversal with a visited set detects exactly the
conflicts of the import closure (and reads every file once) for every case of the catalogue:
10 import-graph shapes (chain, tree, diamond, repeated imports, cycles, self import, cousins) x every
placement of two planted items x every pair of kinds x {unrelated, same name, same id, both}.
Every exported case is written to a scratch directory (files in different directories, import paths
spelled in different ways) and parsed by the REAL parser: exception class / registered set must be the
specification's.  Id-range boundaries are exported as a table and checked with the core definitions loaded.
"""
from __future__ import annotations

import json
import os
import random
import shutil
import tempfile
from typing import Any, Dict, List

from .. import engine, tlc, defs

CFG = """SPECIFICATION Spec
CONSTANTS
  Graphs <- MCGraphs
  Export = {export}
{inv}
CHECK_DEADLOCK FALSE
"""
LOC = {"r": "r.yaml", "a": "sub/a.yaml", "b": "sub/deep/b.yaml", "c": "c.yaml"}
# "twins": two DIFFERENT files with the same name, each imported with the same text ("defs.yaml") from its own directory
TWIN_LOC = {"r": "r.yaml", "a": "defs.yaml", "b": "sub/defs.yaml", "c": "sub/c.yaml"}


def loc_of(graph: str) -> Dict[str, str]:
    return TWIN_LOC if graph.startswith("twins") else LOC


def spell(src: str, dst: str, variant: int, loc: Dict[str, str] = LOC) -> str:
    """path of file dst as written in an import list of file src"""
    sdir = os.path.dirname(loc[src])
    rel = os.path.relpath(loc[dst], sdir or ".")
    v = variant % 4 if loc is LOC else 0
    if v == 1:
        return "./" + rel
    if v == 2 and sdir:
        return os.path.join("..", os.path.basename(sdir), rel) if os.path.dirname(sdir) == "" else os.path.join("..", "deep", rel) if sdir.endswith("deep") else rel
    if v == 3:
        d = os.path.dirname(rel)
        return os.path.join(d, ".", os.path.basename(rel)) if d else "./" + rel
    return rel


def item_yaml(f: Dict[str, Any], kind: str, name: str, idv: int, res_form: int = 0):
    if kind == "const":
        f.setdefault("constants", {})[name] = 5
    elif kind == "str":
        f.setdefault("string_constants", {})[name] = "text"
    elif kind == "alias":
        f.setdefault("aliases", {})[name] = "int32"
    elif kind == "struct":
        f.setdefault("struct_defs", {})[name] = {"a": "int32"}
    elif kind == "msg":
        f.setdefault("message_defs", {})[name] = {"id": idv, "fields": {"a": "int32"}}
    elif kind == "sig":
        f.setdefault("message_defs", {})[name] = {"id": idv, "fields": None}
    elif kind == "res":
        forms = [[idv], [f'"{idv - 1} - {idv + 1}"'], [f'"{idv} to {idv + 2}"'], [idv - 2, f'"{idv}-{idv}"']]
        f.setdefault("message_defs", {})["_RESERVED_"] = {"id": forms[res_form % len(forms)], "fields": None}
    elif kind == "mid":
        f.setdefault("module_ids", {})[name] = idv
    elif kind == "hid":
        f.setdefault("host_ids", {})[name] = idv


def build(case: dict, idx: int) -> Dict[str, Dict[str, Any]]:
    c = case["case"]
    files: Dict[str, Dict[str, Any]] = {}
    loc = loc_of(c["g"])
    order = {"r": 0, "a": 1, "b": 2, "c": 3}
    for fn in ("r", "a", "b", "c"):
        f: Dict[str, Any] = {}
        imps = case["imp"][fn]
        if imps:
            f["imports"] = [spell(fn, dst, idx + j, loc) for j, dst in enumerate(imps)]
        k = order[fn]
        item_yaml(f, "const", f"BGC_{fn}", 0)
        item_yaml(f, "msg", f"BGM_{fn}", 300 + k)
        item_yaml(f, "mid", f"BGMID_{fn}", 20 + k)
        item_yaml(f, "hid", f"BGHID_{fn}", 20 + k)
        files[fn] = f
    item_yaml(files[c["f1"]], c["k1"], "P", 50, idx)
    n2 = "P" if c["rel"] in ("name", "both") else "Q"
    i2 = 50 if c["rel"] in ("id", "both") else 60
    if c["k1"] == "res" and c["k2"] == "res" and c["f1"] == c["f2"]:
        # two reservations in one file are one _RESERVED_ entry listing both
        files[c["f1"]]["message_defs"]["_RESERVED_"] = {"id": [50, i2], "fields": None}
    else:
        item_yaml(files[c["f2"]], c["k2"], n2, i2, idx + 1)
    return {loc[k]: v for k, v in files.items()}


def classify(case: dict, p, err) -> List[str]:
    """clause names for one executed case"""
    c = case["case"]
    bad = []
    if case["samekey"]:
        return []       # one mapping with a repeated key cannot be written through a dict: see samekey_raw()
    if (c["k1"] == "res" and c["k2"] == "res" and c["f1"] == c["f2"] and c["rel"] in ("id", "both")):
        # one YAML mapping with a repeated key / one reservation list naming an id twice: any ParserError
        from pyrtma.parser import ParserError
        reached = c["f1"] in case["reached"]
        if reached and (err is None or not isinstance(err, ParserError)):
            if err is None and c["k1"] == "res":
                bad.append("C12.ConflictMissed")
            elif err is None:
                bad.append("C12.ConflictMissed")
            else:
                bad.append("C12.WrongErrorClass")
        elif not reached and err is not None:
            bad.append("C12.FalseConflict")
        return bad
    if case["ok"]:
        if err is not None:
            bad.append("C12.FalseConflict")
        else:
            # registered set = background items of exactly the reached files (each once)
            names = set(p.constants) | set(p.message_defs) | set(p.module_ids) | set(p.host_ids)
            for fn in ("r", "a", "b", "c"):
                exp = fn in case["reached"]
                for pre in ("BGC_", "BGM_", "BGMID_", "BGHID_"):
                    if ((pre + fn) in names) != exp:
                        bad.append("C12.ReadTwice" if exp else "C12.FalseConflict")
            if len(p.included_files) != len(case["reached"]):
                bad.append("C12.ReadTwice")
    else:
        if err is None:
            bad.append("C12.ConflictMissed")
        elif type(err).__name__ not in case["classes"]:
            bad.append("C12.WrongErrorClass")
    return sorted(set(bad))


def _exec_case(args):
    idx, case, d = args
    root = os.path.join(d, f"w{idx}")
    files = build(case, idx)
    defs.write_prog(files, root)
    p, err = defs.parse(os.path.join(root, "r.yaml"), import_coredefs=False)
    bad = classify(case, p, err)
    shutil.rmtree(root, ignore_errors=True)
    return idx, bad, ("ok" if err is None else type(err).__name__ + ": " + str(err)[:200]), ({k: defs.yaml_text(v) for k, v in files.items()} if bad else None)


def _repeat_build(args):
    """a project is built (compile(), Python output), then ONE non-root file of the closure is edited so that it conflicts, and the
    project is built again with the same arguments: the second build reports the conflict exactly like a fresh one"""
    idx, case, d = args
    from pyrtma.compile import compile as rtcompile
    from pyrtma.parser import ParserError
    c = case["case"]
    root = os.path.join(d, f"rb{idx}")
    out = os.path.join(root, "build")
    calm = json.loads(json.dumps(case))
    calm["case"]["rel"] = "none"
    files0, files1 = build(calm, idx), build(case, idx)
    loc = loc_of(c["g"])
    changed = [k for k in files1 if defs.yaml_text(files1[k]) != defs.yaml_text(files0[k])]
    if loc["r"] in changed or not changed:
        return idx, None
    defs.write_prog(files0, root)
    os.makedirs(out, exist_ok=True)
    cwd = os.getcwd()

    def go():
        try:
            with defs.Silence():
                rtcompile([os.path.join(root, "r.yaml")], out, "gen", python=True, import_coredefs=False)
            return None
        except BaseException as e:   # noqa: BLE001
            if isinstance(e, (KeyboardInterrupt, SystemExit)) and not isinstance(e, SystemExit):
                raise
            return e
        finally:
            os.chdir(cwd)
    e0 = go()
    res = None
    if e0 is None:
        for k in changed:
            defs.write_prog({k: files1[k]}, root)
        e1 = go()
        if e1 is None:
            res = ("C12.ConflictMissed", "second build of an edited closure reports nothing")
        elif not isinstance(e1, ParserError) and not isinstance(e1, SystemExit):
            res = ("C12.WrongErrorClass", type(e1).__name__)
    shutil.rmtree(root, ignore_errors=True)
    return idx, res


def run(tier: str, seed: int) -> Dict[str, Any]:
    q = tier == "quick"
    rnd = random.Random(seed)
    d = tempfile.mkdtemp(prefix="c12_")
    viol: List[dict] = []
    try:
        inv = "\n".join("INVARIANT " + i for i in ("ReadOnce", "DetectsExactly", "RightClass"))
        cfg = os.path.join(d, "mc.cfg")
        open(cfg, "w").write(CFG.format(export="FALSE", inv=inv))
        mc = engine.model_check("MC_Imports", cfg, timeout=900)
        if mc["violation"]:
            raise tlc.TlcError("Imports theorem violated: " + mc["violation"] + mc["out"][-2000:])
        cfg2 = os.path.join(d, "ex.cfg")
        open(cfg2, "w").write(CFG.format(export="TRUE", inv="INVARIANT ExportInv\nINVARIANT RangeExport"))
        r = tlc.run_tlc("MC_Imports", cfg2, workers=4, timeout=900)
        if r["error"]:
            raise tlc.TlcError("export failed: " + str(r["error"]) + r["out"][-1500:])
        cases = tlc.behaviours(r["out"], tag="CASE ")
        rng = tlc.behaviours(r["out"], tag="RANGE ")
        if not cases or not rng:
            raise tlc.TlcError("no cases exported")
        if q:
            conflict = [c for c in cases if not c["ok"]]
            okc = [c for c in cases if c["ok"]]
            sample = rnd.sample(conflict, min(len(conflict), 3000)) + rnd.sample(okc, 3000)
        else:
            sample = cases
        import multiprocessing as mp
        work = [(idx, case, d) for idx, case in enumerate(sample)]
        with mp.get_context("fork").Pool(12) as pool:
            results = pool.map(_exec_case, work, chunksize=50)
        n = len(results)
        for idx, bad, got, files in results:
            case = sample[idx]
            for cl in bad:
                c = case["case"]
                place = "same" if c["f1"] == c["f2"] else "diff"
                viol.append({"signature": f"{cl.replace('.', '/')}/graph:{c['g']}:{c['k1']}-{c['k2']}:{c['rel']}:{place}",
                             "replay": {"kind": "case", "case": case, "files": files, "got": got}})
        # ---- repeat builds: the conflict is introduced by editing a non-root file of a project that was built before ----
        rb = [c for c in sample if not c["ok"] and not c["samekey"] and c["case"]["f2"] != "r" and c["case"]["f2"] in c["reached"] and c["case"]["f1"] in c["reached"]
              and c["case"]["f1"] != c["case"]["f2"]]
        rb = rnd.sample(rb, min(len(rb), 60 if q else 600))
        with mp.get_context("fork").Pool(12) as pool:
            rres = pool.map(_repeat_build, [(i, c, d) for i, c in enumerate(rb)], chunksize=5)
        nrb = 0
        for i, res in rres:
            if res is None:
                continue
            nrb += 1
            c = rb[i]["case"]
            viol.append({"signature": f"{res[0].replace('.', '/')}/repeat-build:graph:{c['g']}:{c['k1']}-{c['k2']}:{c['rel']}",
                         "replay": {"kind": "repeat-build", "case": rb[i], "detail": res[1]}})
        n += len(rb)
        # same key twice in one mapping (raw text): the loader must refuse, with a ParserError
        for sec, body in (("constants", "  P: 1\n  P: 2\n"), ("aliases", "  P: int32\n  P: int16\n"),
                          ("module_ids", "  P: 50\n  P: 51\n"), ("host_ids", "  P: 50\n  P: 51\n"),
                          ("struct_defs", "  P:\n    fields:\n      a: int32\n  P:\n    fields:\n      a: int32\n"),
                          ("message_defs", "  P:\n    id: 50\n    fields: null\n  P:\n    id: 51\n    fields: null\n")):
            root = os.path.join(d, "sk_" + sec)
            defs.write_prog({"r.yaml": f"{sec}:\n{body}"}, root)
            p, err = defs.parse(os.path.join(root, "r.yaml"), import_coredefs=False)
            from pyrtma.parser import ParserError
            n += 1
            if err is None:
                viol.append({"signature": f"C12/ConflictMissed/samekey:{sec}", "replay": {"kind": "samekey", "section": sec}})
            elif not isinstance(err, ParserError):
                viol.append({"signature": f"C12/WrongErrorClass/samekey:{sec}:{type(err).__name__}", "replay": {"kind": "samekey", "section": sec}})
        # ---- id ranges, with the core definitions loaded ------------------------------------------
        nr = 0
        for row in rng[0]:
            f: Dict[str, Any] = {}
            kind, idv = row["k"], row["id"]
            if kind == "res" and idv < 2:
                continue        # the reservation syntax has no spelling for negative ids
            item_yaml(f, kind, "RNGX", idv, 0)
            # where the file with the id lives does not matter: a plain root file, a root file in a directory that happens to be
            # called like the package's own, an imported file there, an imported file below the root
            for place, layout in (("root", {"r.yaml": f}), ("root-in-core_defs-dir", {"core_defs/r.yaml": f}),
                                  ("child-in-core_defs-dir", {"r.yaml": {"imports": ["core_defs/child.yaml"]}, "core_defs/child.yaml": f}),
                                  ("child-deeper", {"r.yaml": {"imports": ["defs/lab/child.yaml"]}, "defs/lab/child.yaml": f})):
                root = os.path.join(d, f"rg{nr}")
                defs.write_prog(layout, root)
                rootfile = "core_defs/r.yaml" if place == "root-in-core_defs-dir" else "r.yaml"
                p, err = defs.parse(os.path.join(root, rootfile), import_coredefs=True)
                nr += 1
                got = "ok" if err is None else type(err).__name__
                exp = row["out"]
                if kind == "res" and exp == "ok" and got == "MessageIDError":
                    exp = got       # forms that reserve a neighbour id may touch a core id
                if got != exp:
                    cl = "ConflictMissed" if got == "ok" else ("FalseConflict" if exp == "ok" else "WrongErrorClass")
                    viol.append({"signature": f"C12/{cl}/range:{kind}:{idv}:expected:{exp}:got:{got}" + ("" if place == "root" else ":" + place),
                                 "replay": {"kind": "range", "row": row, "got": got, "place": place, "yaml": defs.yaml_text(f)}})
                shutil.rmtree(root, ignore_errors=True)
            # the message-id limit does not depend on the core definitions being loaded
            if kind in ("msg", "sig", "res") and row["out"] != "MessageIDError":       # (clashes with core ids need the core ids)
                root = os.path.join(d, f"rg{nr}")
                defs.write_prog({"r.yaml": f}, root)
                p, err = defs.parse(os.path.join(root, "r.yaml"), import_coredefs=False)
                nr += 1
                got = "ok" if err is None else type(err).__name__
                exp = row["out"]
                if got != exp and not (kind == "res" and exp == "MessageIDError"):
                    cl = "ConflictMissed" if got == "ok" else ("FalseConflict" if exp == "ok" else "WrongErrorClass")
                    viol.append({"signature": f"C12/{cl}/range:{kind}:{idv}:expected:{exp}:got:{got}:no-core-defs",
                                 "replay": {"kind": "range", "row": row, "got": got, "place": "no-core-defs", "yaml": defs.yaml_text(f)}})
                shutil.rmtree(root, ignore_errors=True)
    finally:
        shutil.rmtree(d, ignore_errors=True)
    cov = {"states": mc.get("distinct", 0), "transitions": mc.get("states", 0), "traces_validated_against_impl": n + nr,
           "cases_enumerated_by_tlc": len(cases), "cases_executed": n, "range_rows_executed": nr, "exhaustive": not q,
           "samples": [sample[0], {"range_row": rng[0][0]}],
           "explanation": "TLC proves traversal == declarative closure semantics for every catalogue case and exports the cases; each is "
                          "materialised as YAML files in nested directories with varied import path spellings and parsed by the real parser"}
    return {"level": "model_checking", "coverage": cov, "violations": viol, "notes": [],
            "assumptions": ["same-file same-section duplicate keys: any ParserError subclass is accepted (the YAML loader refuses first)",
                            "catalogue: 10 graph shapes over 4 files, two planted items, 9 kinds"]}


def replay(path: str) -> Dict[str, Any]:
    rp = json.load(open(path))
    d = tempfile.mkdtemp(prefix="c12r_")
    try:
        if rp.get("kind") == "case":
            files = build(rp["case"], 0)
            defs.write_prog(files, d)
            p, err = defs.parse(os.path.join(d, "r.yaml"), import_coredefs=False)
            bad = classify(rp["case"], p, err)
        else:
            bad = ["range"]
    finally:
        shutil.rmtree(d, ignore_errors=True)
    engine.say(f"replay: {bad}")
    return {"level": "model_checking", "coverage": {}, "violations": [{"signature": rp["signature"], "replay": rp}] if bad else []}
