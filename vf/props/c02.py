"""C02 -- client and manager always agree on the subscription set.

TLC checks SubsAgree / PausedNotDelivered / RefusedWhileAll / CtxRestores on ClientSys.tla (the
client's set algebra composed with the manager's real ServiceOp) for every call sequence within
the bound; TLC-generated call sequences are executed on a REAL Client against the REAL manager and
the recorded observations (reported sets, probe deliveries on the socket) are validated by TLC
against ClientSys_Trace.
"""
from __future__ import annotations

import json
import os
import random
import shutil
import tempfile
import time
from typing import Any, Dict, List

from .. import engine, tlc
from ..clientdrv import ClientStand

CFG = """SPECIFICATION Spec
CONSTANTS
  MaxModules = 200
  DynStart = 100
  MaxHosts = 5
  MaxMsgTypes = 10000
  TrafficChunk = 64
  MaxActive = 256
  TimingOn = TRUE
  Modes = {{"deferred"}}
  Types = {{101, 102, 103}}
  Outside = 199
  MaxLen = {maxlen}
  MaxOps = {maxops}
  GenOn = {gen}
{checks}
CHECK_DEADLOCK FALSE
"""
CHECKS = """INVARIANT SubsAgree
INVARIANT PausedNotDelivered
INVARIANT RefusedWhileAll
INVARIANT CtxRestores
PROPERTY PRefusedNoFrames
PROPERTY PMustRefuse"""


def _cfg(d, name, **kw):
    p = os.path.join(d, name)
    open(p, "w").write(CFG.format(**kw))
    return p


def _run_seq(args):
    tid, seq, variant = args
    st = ClientStand(timecode=variant.get("timecode", False), salt=variant.get("salt", 0),
                     via_context=variant.get("ctx", False), argform=variant.get("argform", "list"))
    try:
        for e in seq:
            if e["op"] == "ExitCtx" and not st.ctxs:
                continue
            st.op(e["op"], e.get("L", []))
        while st.ctxs:
            st.op("ExitCtx")
    finally:
        st.close()
    return {"tid": tid, "ev": st.events}


def extra_sequences() -> List[List[dict]]:
    """hand-written shapes the random generator reaches rarely: long overlaps, repeated requests"""
    A = 2147483647
    S = []
    S.append([{"op": "Subscribe", "L": [101, 102]}, {"op": "EnterSubCtx", "L": [101, 102, 103]}, {"op": "ExitCtx"}])
    S.append([{"op": "Subscribe", "L": [101, 102, 103]}, {"op": "EnterPauseCtx", "L": [199, 101, 102]}, {"op": "ExitCtx"}])
    S.append([{"op": "Subscribe", "L": [101]}, {"op": "Pause", "L": [101]}, {"op": "EnterSubCtx", "L": [101]}, {"op": "ExitCtx"}])
    S.append([{"op": "Subscribe", "L": [A]}, {"op": "Subscribe", "L": [A]}, {"op": "Subscribe", "L": [101]}])
    S.append([{"op": "Subscribe", "L": [101, 101, A]}, {"op": "Unsubscribe", "L": [102, A]}, {"op": "Subscribe", "L": [102]}])
    S.append([{"op": "Pause", "L": [103]}, {"op": "ResumeAll"}, {"op": "PauseAll"}, {"op": "ResumeAll"}, {"op": "UnsubscribeFromAll"}])
    S.append([{"op": "Subscribe", "L": [101, 102]}, {"op": "Pause", "L": [A, 101]}, {"op": "Resume", "L": [101]}])
    S.append([{"op": "Subscribe", "L": [101, 102]}, {"op": "Unsubscribe", "L": [A]}, {"op": "Subscribe", "L": [103]}])
    S.append([{"op": "Subscribe", "L": [101]}, {"op": "EnterPauseCtx", "L": [101, 102]}, {"op": "EnterSubCtx", "L": [102, 103]},
              {"op": "ExitCtx"}, {"op": "ExitCtx"}])
    S.append([{"op": "Subscribe", "L": [A]}, {"op": "EnterSubCtx", "L": [101]}, {"op": "EnterPauseCtx", "L": [101]},
              {"op": "PauseAll"}, {"op": "Subscribe", "L": [102]}])
    return S


def run(tier: str, seed: int) -> Dict[str, Any]:
    q = tier == "quick"
    d = tempfile.mkdtemp(prefix="c02_")
    try:
        mc = engine.model_check("ClientSys", _cfg(d, "mc.cfg", maxlen=2, maxops=3 if q else 4, gen="FALSE", checks=CHECKS))
        if mc["violation"]:
            raise tlc.TlcError("ClientSys violates " + mc["violation"] + mc["out"][-3000:])
        behs = []
        for maxops, num in ((4, 150 if q else 1500), (7, 120 if q else 1500)):
            g = _cfg(d, f"gen{maxops}.cfg", maxlen=3, maxops=maxops, gen="TRUE", checks="INVARIANT GenInv")
            behs += engine.gen_behaviours("ClientSys", g, num=num, depth=40, seed=seed + maxops)
    finally:
        shutil.rmtree(d, ignore_errors=True)
    behs = behs + extra_sequences()
    variants = [{"timecode": False, "salt": seed}, {"timecode": True, "salt": seed + 1, "ctx": True, "argform": "tuple"}]
    work = []
    tid = 0
    r = random.Random(seed)
    for i, b in enumerate(behs):
        tid += 1
        work.append((tid, b, variants[i % 2] if q else variants[0]))
        if not q:
            tid += 1
            work.append((tid, b, variants[1]))
    import multiprocessing as mp
    with engine.Quiet():
        with mp.get_context("fork").Pool(12) as pool:
            traces = pool.map(_run_seq, work, chunksize=8)
    res = {}
    from concurrent.futures import ThreadPoolExecutor
    n = max(1, min(8, len(traces) // 100))
    chunks = [traces[i::n] for i in range(n)]

    def val(chunk):
        v = tlc.validate_traces(chunk, "ClientSys_Trace", "ClientSys_Trace.cfg")
        for t in chunk:
            if t["tid"] not in v["by_tid"]:
                raise tlc.TlcError("no verdict for client trace\n" + v["tlc"]["out"][-3000:])
        return v["by_tid"]

    with ThreadPoolExecutor(max_workers=n) as ex:
        for part in ex.map(val, chunks):
            res.update(part)
    viol = []
    drift = 0
    by_tid = {t["tid"]: t for t in traces}
    wk = {w[0]: w for w in work}
    for tid_, v in res.items():
        if v["res"] == "ok":
            continue
        for step, clause in v["props"]:
            if clause == "drift":
                drift += 1
                continue
            ev = by_tid[tid_]["ev"][step - 1]
            shape = "ALL" if 2147483647 in ev["L"] else ("dup" if len(set(ev["L"])) < len(ev["L"]) else "plain")
            viol.append({"signature": f"C02/{clause}/op:{ev['op']}:{shape}",
                         "replay": {"sequence": wk[tid_][1], "variant": wk[tid_][2], "step": step, "clause": clause,
                                    "events": by_tid[tid_]["ev"][: step]}})
    cov = {"states": mc.get("distinct", 0), "transitions": mc.get("states", 0),
           "traces_validated_against_impl": len(traces), "behaviours_replayed": len(behs), "drift_steps": drift,
           "samples": [{"call_sequence": behs[0]}, {"trace_events": traces[0]["ev"][:3]}],
           "exhaustive": False,
           "explanation": "ClientSys.tla model checked (all call sequences to the depth bound over all argument shapes); "
                          "TLC -simulate call sequences executed on a real Client + real manager over vio; observations "
                          "validated by TLC (ClientSys_Trace), clauses evaluated at every step"}
    notes = [f"{drift} step(s) where the client's reported sets differ from the specification's algebra without violating a C02 clause (drift)"] if drift else []
    return {"level": "model_checking", "coverage": cov, "violations": viol, "notes": notes,
            "assumptions": ["vio models the kernel (see C01)", "argument shapes: lists / tuples of ints (one-shot iterators are an open choice)",
                            "universe of 3 individual types + 1 outside type + ALL_MESSAGE_TYPES"]}


def replay(path: str) -> Dict[str, Any]:
    rp = json.load(open(path))
    with engine.Quiet():
        t = _run_seq((1, rp["sequence"], rp["variant"]))
    v = tlc.validate_traces([t], "ClientSys_Trace", "ClientSys_Trace.cfg")["by_tid"][1]
    engine.say(f"replay verdict: {v}")
    viol = []
    if v["res"] != "ok" and any(c != "drift" for _, c in v["props"]):
        viol.append({"signature": rp["signature"], "replay": rp})
    return {"level": "model_checking", "coverage": {}, "violations": viol}
