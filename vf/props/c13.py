"""C13 -- the version hash identifies the definition text, everywhere the same.

TLC checks on spec/HashCanon.tla that every edit action changes the canonical key and no noise action
does, and exports behaviours (sequences of versions of one definition: edits and relocations).  Every
version is materialised as a YAML program and compiled by the REAL compiler; within a behaviour two
versions must have equal hashes iff their canonical keys are equal; the value printed into the Python,
C, JavaScript and MATLAB outputs must be that hash; a real Client stamps it into header.version.
"""
from __future__ import annotations

import json
import os
import random
import re
import shutil
import subprocess
import sys
import tempfile
from typing import Any, Dict, List, Optional

from .. import engine, tlc, defs

CFG = """SPECIFICATION Spec
CONSTANTS
  MaxSteps = {steps}
  GenOn = {gen}
{checks}
CHECK_DEADLOCK FALSE
"""


def _write(path: str, text: str):
    """like an editor: a file whose content did not change is not touched"""
    try:
        if open(path).read() == text:
            return
    except OSError:
        pass
    with open(path, "w") as f:
        f.write(text)


def materialise(v: dict, root: str) -> str:
    """write the YAML program of one version; returns the root file"""
    d, pl = v["def"], v["place"]
    lines: List[str] = []
    ident = hex(d["id"]) if pl["hexid"] else str(d["id"])
    body = [f"  {d['name']}:"]
    for i in range(pl["comments"]):
        body.append(f"    # comment {i} about {d['name']}: id {d['id']} fields int32")
    idline = f"    id: {ident}" + ("   # the id" if pl["comments"] else "")
    flines = []
    if not d["fields"]:
        flines.append("    fields: null")
    else:
        flines.append("    fields:")
        for fn, ft in d["fields"]:
            if pl["blanks"]:
                flines.append("")
            flines.append(f"      {fn}: {ft}" + ("  # a field" if pl["comments"] > 1 else ""))
    body += (flines + [idline]) if pl.get("keyorder", 0) else ([idline] + flines)
    if d["fields"]:
        # a second message that takes its field list from the definition under edit (the documented `fields: OTHER` form)
        rid = d["id"] + 500 + 7 * pl.get("reuseid", 0)
        body += ["  REUSE_M:"] + ([f"    fields: {d['name']}", f"    id: {rid}"] if pl.get("keyorder", 0) else [f"    id: {rid}", f"    fields: {d['name']}"])
    unrelated = ["  UNREL%d:\n    id: %d\n    fields:\n      q: int16\n      r: int16" % (i, 2000 + i) for i in range(pl["unrelated"])]
    sbody = "      x: int32\n" + ("      y: int32\n" if pl.get("structbody", 0) else "")
    other = "struct_defs:\n  OTHER_S:\n    fields:\n" + sbody + "constants:\n  OTHER_C: 3\n"
    uses_struct = any("OTHER_S" in ft for _, ft in d["fields"])
    os.makedirs(os.path.join(root, "sub", "deep"), exist_ok=True)
    _write(os.path.join(root, "other.yaml"), other)
    target = "\n".join(["message_defs:"] + unrelated[: len(unrelated) // 2] + body + unrelated[len(unrelated) // 2:]) + "\n"
    blanks = "\n" * (2 * pl["blanks"])
    if pl["file"] == "root":
        imps = ["other.yaml"]
        rootdoc = "imports:\n" + "".join(f"  - {i}\n" for i in imps) + blanks + "constants:\n  ROOT_C: 1\n" + blanks + target
    else:
        rel = "imp.yaml" if pl["file"] == "imported" else "sub/deep/imp.yaml"
        back = "other.yaml" if pl["file"] == "imported" else "../../other.yaml"
        _write(os.path.join(root, rel), ("# moved here\n" if pl["comments"] else "") + (f"imports:\n  - {back}\n" if uses_struct else "") + target)
        if pl["file"] == "nested":
            # root -> sub/mid.yaml -> deep/imp.yaml (path relative to the importing file)
            _write(os.path.join(root, "sub", "mid.yaml"), "imports:\n  - deep/imp.yaml\nconstants:\n  MID_C: 2\n")
            rel = "sub/mid.yaml"
        imps = ["other.yaml", rel] if pl["imporder"] == 0 else [rel, "other.yaml"]
        rootdoc = "imports:\n" + "".join(f"  - {i}\n" for i in imps) + blanks + "constants:\n  ROOT_C: 1\n"
    if pl["file"] == "root" and pl["imporder"] == 1:
        rootdoc = rootdoc.replace("constants:\n  ROOT_C: 1\n", "constants:\n  ROOT_C: 1\n  ROOT_D: 2\n")
    _write(os.path.join(root, "root.yaml"), rootdoc)
    return os.path.join(root, "root.yaml")


def real_hash(v: dict, root: str) -> Optional[str]:
    path = materialise(v, root)
    p, err = defs.parse(path, import_coredefs=False, validate_alignment=not v["place"].get("noalign", 0))
    if err is not None:
        raise RuntimeError(f"version does not compile: {err!r}")
    r = p.message_defs.get("REUSE_M")
    REUSE_HASH[json.dumps(v, sort_keys=True)] = r.hash[:8] if r is not None else None
    return p.message_defs[v["def"]["name"]].hash[:8]


REUSE_HASH: Dict[str, Optional[str]] = {}

SUB = r"""
import sys, json, os
sys.path.insert(0, __import__("os").environ.get("VF_REPO", "/repo") + "/src")
os.chdir(sys.argv[2])
from pyrtma.parser import Parser
import logging; logging.disable(logging.CRITICAL)
p = Parser(import_coredefs=False)
import io, contextlib
with contextlib.redirect_stdout(io.StringIO()), contextlib.redirect_stderr(io.StringIO()):
    p.parse(sys.argv[1])
print(json.dumps({n: m.hash[:8] for n, m in p.message_defs.items()}))
"""


def subprocess_hash(path: str, name: str, seed: int, cwd: str) -> str:
    env = dict(os.environ, PYTHONHASHSEED=str(seed))
    r = subprocess.run(["/venv/bin/python", "-c", SUB, path, cwd], capture_output=True, text=True, timeout=120, env=env)
    if r.returncode != 0:
        raise RuntimeError("subprocess compile failed: " + r.stderr[-500:])
    return json.loads(r.stdout.strip().splitlines()[-1])[name]


def outputs_hashes(v: dict, root: str, out: Optional[str] = None) -> Dict[str, Optional[str]]:
    """compile to all four languages, extract the hash each output carries for the definition.
    `out` may be a directory that already holds the outputs of an earlier version (in-place rebuild)."""
    from pyrtma.compile import compile as rtcompile
    path = materialise(v, root)
    out = out or os.path.join(root, "out")
    os.makedirs(out, exist_ok=True)
    cwd = os.getcwd()
    try:
        with defs.Silence():
            rtcompile([path], out, "gen", python=True, javascript=True, matlab=True, c_lang=True, import_coredefs=False)
    finally:
        os.chdir(cwd)
    name = v["def"]["name"]
    res: Dict[str, Optional[str]] = {}
    py = open(os.path.join(out, "gen.py")).read()
    m = re.search(r"class MDF_%s\(.*?type_hash: ClassVar\[int\] = 0x([0-9A-Fa-f]+)" % name, py, re.S)
    res["python"] = m.group(1).lower().rjust(8, "0") if m else None
    h = open(os.path.join(out, "gen.h")).read()
    m = re.search(r"#define HASH_%s\s+0x([0-9A-Fa-f]+)" % name, h)
    res["c"] = m.group(1).lower().rjust(8, "0") if m else None
    js = open(os.path.join(out, "gen.js")).read()
    m = re.search(r'RTMA\.HASH\.%s = "([0-9A-Fa-f]+)"' % name, js)
    res["javascript"] = m.group(1).lower().rjust(8, "0") if m else None
    ml = open(os.path.join(out, "gen.m")).read()
    m = re.search(r'RTMA\.hash\.%s = "([0-9A-Fa-f]+)"' % name, ml)
    res["matlab"] = m.group(1).lower().rjust(8, "0") if m else None
    return res


STAMP = r"""
import sys, json, os, struct, importlib.util
sys.path.insert(0, __import__("os").environ.get("VF_REPO", "/repo") + "/src"); sys.path.insert(0, "/verif")
import logging; logging.disable(logging.CRITICAL)
from vf.readdrv import ScriptSock, _Select, _Time
import pyrtma.client as C
clock = [0.0]
C.select = _Select(clock); C.time = _Time(clock)
spec = importlib.util.spec_from_file_location("gen", sys.argv[1])
mod = importlib.util.module_from_spec(spec); sys.modules["gen"] = mod; spec.loader.exec_module(mod)
out = {}
for tc in (False, True):
    c = C.Client(module_id=11, timecode=tc)
    s = ScriptSock(); c._sock = s; c._connected = True
    for n in json.loads(sys.argv[2]):
        cls = getattr(mod, "MDF_" + n)
        before = len(s.sent)
        c.send_message(cls())
        hdr = bytes(s.sent[before:before + 48])
        out[f"{n}:{int(tc)}"] = [struct.unpack_from("<I", hdr, 44)[0], cls.type_hash, struct.unpack_from("<i", hdr, 0)[0], cls.type_id]
    c._connected = False
keep = C.Client(module_id=12)
keep_sock = ScriptSock(); keep._sock = keep_sock; keep._connected = True
keep.send_message(mod.MDF_MSGA())
if len(sys.argv) <= 3:
    keep._connected = False
if len(sys.argv) > 3:
    # the definitions were edited and recompiled; the new module is loaded into the same interpreter
    spec2 = importlib.util.spec_from_file_location("gen", sys.argv[3])
    mod2 = importlib.util.module_from_spec(spec2); sys.modules["gen"] = mod2; spec2.loader.exec_module(mod2)
    import re
    want = int(re.search(r"class MDF_MSGA\(.*?type_hash: ClassVar\[int\] = (0x[0-9A-Fa-f]+)", open(sys.argv[3]).read(), re.S).group(1), 16)
    c = C.Client(module_id=11)
    s = ScriptSock(); c._sock = s; c._connected = True
    c.send_message(mod2.MDF_MSGA())
    hdr = bytes(s.sent[:48])
    out["MSGA:reloaded"] = [struct.unpack_from("<I", hdr, 44)[0], want, struct.unpack_from("<i", hdr, 0)[0], 1010]
    c._connected = False
    # ... and a client that was connected all along (it sent the old definition before the reload) stamps the new hash too
    before = len(keep_sock.sent)
    keep.send_message(mod2.MDF_MSGA())
    hdr = bytes(keep_sock.sent[before:before + 48])
    out["MSGA:reloaded-same-client"] = [struct.unpack_from("<I", hdr, 44)[0], want, struct.unpack_from("<i", hdr, 0)[0], 1010]
    keep._connected = False
print(json.dumps(out))
"""


def run(tier: str, seed: int) -> Dict[str, Any]:
    q = tier == "quick"
    rnd = random.Random(seed)
    d = tempfile.mkdtemp(prefix="c13_")
    viol: List[dict] = []
    nver = npairs = nlang = nsub = nstamp = nreuse = nfail = 0
    fail_kinds: set = set()
    try:
        cfg = os.path.join(d, "mc.cfg")
        open(cfg, "w").write(CFG.format(steps=3 if q else 4, gen="FALSE", checks="PROPERTY EditChanges\nPROPERTY NoiseKeeps"))
        mc = engine.model_check("HashCanon", cfg, timeout=900)
        if mc["violation"]:
            raise tlc.TlcError("HashCanon violated: " + mc["violation"])
        g = os.path.join(d, "gen.cfg")
        open(g, "w").write(CFG.format(steps=5, gen="TRUE", checks="INVARIANT GenInv"))
        behs = engine.gen_behaviours("HashCanon", g, num=150 if q else 1200, depth=12, seed=seed + 5)
        if q and len(behs) > 260:
            behs = rnd.sample(behs, 260)
        cache: Dict[str, str] = {}
        for bi, beh in enumerate(behs):
            hashes = []
            broken = False
            for k, step in enumerate(beh):
                root = os.path.join(d, f"v{bi}_{k}")
                os.makedirs(root)
                v = step["v"]
                try:
                    key = json.dumps(v, sort_keys=True)
                    if key in cache and step["a"] != "RecompileOtherProcess" and (bi + k) % (9 if q else 5) != 0:
                        hashes.append(cache[key])
                        continue
                    h = real_hash(v, root)
                    cache[key] = h
                    nver += 1
                    # a recompilation in another process: other hash seed, other working directory
                    if step["a"] == "RecompileOtherProcess" and (nsub < (25 if q else 400)):
                        h2 = subprocess_hash(os.path.join(root, "root.yaml"), v["def"]["name"], seed=1 + nsub, cwd=d if nsub % 2 else root)
                        nsub += 1
                        if h2 != h:
                            viol.append({"signature": "C13/NotDeterministic/other-process", "replay": {"version": v, "hashes": [h, h2]}})
                    if (bi + k) % (9 if q else 5) == 0 and nlang < (40 if q else 600):
                        oh = outputs_hashes(v, root)
                        nlang += 1
                        for lang, hv in oh.items():
                            if hv != h:
                                viol.append({"signature": f"C13/LanguageDisagrees/{lang}", "replay": {"version": v, "parser_hash": h, "outputs": oh}})
                except RuntimeError as ex:
                    # a version the compiler does not accept has no hash to judge (C15's subject, not C13's): skip the behaviour
                    broken = True
                    nfail += 1
                    fail_kinds.add(str(ex)[:120])
                    break
                finally:
                    shutil.rmtree(root, ignore_errors=True)
                hashes.append(h)
            if broken:
                continue
            # the reuse-form message, step by step: its key is (REUSE_M, id + 500, the field list it takes over)
            for k in range(1, len(beh)):
                a = beh[k]["a"]
                d0, d1 = beh[k - 1]["v"]["def"], beh[k]["v"]["def"]
                r0, r1 = REUSE_HASH.get(json.dumps(beh[k - 1]["v"], sort_keys=True)), REUSE_HASH.get(json.dumps(beh[k]["v"], sort_keys=True))
                if r0 is None or r1 is None:
                    continue
                nreuse += 1
                p0, p1 = beh[k - 1]["v"]["place"], beh[k]["v"]["place"]
                key_same = (d0["id"] + 7 * p0.get("reuseid", 0), d0["fields"]) == (d1["id"] + 7 * p1.get("reuseid", 0), d1["fields"])
                if key_same and r0 != r1:
                    viol.append({"signature": f"C13/SensitiveToNoise/reuse-form:{a}", "replay": {"behaviour": beh[k - 1: k + 1], "hashes": [r0, r1]}})
                if not key_same and r0 == r1:
                    viol.append({"signature": f"C13/InsensitiveToEdit/reuse-form:{a}", "replay": {"behaviour": beh[k - 1: k + 1], "hashes": [r0, r1]}})
            canon = [json.dumps([s["v"]["def"]["name"], s["v"]["def"]["id"], s["v"]["def"]["fields"]]) for s in beh]
            for i in range(len(beh)):
                for j in range(i + 1, len(beh)):
                    npairs += 1
                    same_c = canon[i] == canon[j]
                    same_h = hashes[i] == hashes[j]
                    if same_c and not same_h:
                        acts = [beh[k]["a"] for k in range(i + 1, j + 1)]
                        noise = [a for a in acts if a.startswith(("Add", "MoveTo", "Hex", "Reorder", "Recompile", "EditUsedStruct"))]
                        kind = "LocationDependent" if any(a.startswith(("MoveTo", "Reorder")) for a in noise) else "SensitiveToNoise"
                        viol.append({"signature": f"C13/{kind}/{'+'.join(sorted(set(noise))) or 'edits-cancel'}",
                                     "replay": {"behaviour": beh[i: j + 1], "hashes": hashes[i: j + 1]}})
                    if not same_c and same_h:
                        acts = [beh[k]["a"] for k in range(i + 1, j + 1)]
                        edits = [a for a in acts if not a.startswith(("Add", "MoveTo", "Hex", "Reorder", "Recompile", "EditUsedStruct"))]
                        viol.append({"signature": f"C13/InsensitiveToEdit/{'+'.join(sorted(set(edits)))}",
                                     "replay": {"behaviour": beh[i: j + 1], "hashes": hashes[i: j + 1]}})
        # ---- in-place rebuilds: one project directory, edited and recompiled version after version ------
        nrebuild = 0
        chains = []
        for plc in ("root", "imported", "subdir", "nested"):
            base = {"file": plc, "comments": 0, "blanks": 0, "unrelated": 1, "hexid": False, "imporder": 0, "proc": 0}
            dfs = [[["a", "int32"]], [["a", "uint32"]], [["a", "uint32"], ["b", "char[8]"]], [["b", "char[8]"]], []]
            chains.append([{"a": "edit", "v": {"def": {"name": "MSGA", "id": 1010, "fields": f}, "place": base}} for f in dfs])
        for bi, beh in enumerate(chains + behs[: (8 if q else 120)]):
            root = os.path.join(d, f"proj{bi}")
            os.makedirs(root)
            out = os.path.join(root, "build")
            for k, step in enumerate(beh):
                v = step["v"]
                oh = outputs_hashes(v, root, out)
                p, err = defs.parse(os.path.join(root, "root.yaml"), import_coredefs=False)
                h = p.message_defs[v["def"]["name"]].hash[:8]
                nrebuild += 1
                for lang, hv in oh.items():
                    if hv != h:
                        viol.append({"signature": f"C13/LanguageDisagrees/{lang}:stale-after-rebuild:{v['place']['file']}",
                                     "replay": {"behaviour": beh[: k + 1], "definition_hash": h, "outputs": oh}})
            shutil.rmtree(root, ignore_errors=True)
        # ---- the sender stamps the hash into header.version -----------------------------------
        root = os.path.join(d, "stamp")
        os.makedirs(root)
        v = {"def": {"name": "MSGA", "id": 1010, "fields": [["a", "int32"], ["b", "char[8]"]]}, "place": {"file": "subdir", "comments": 1, "blanks": 1, "unrelated": 2, "hexid": True, "imporder": 1, "proc": 0}}
        from pyrtma.compile import compile as rtcompile
        path = materialise(v, root)
        cwd = os.getcwd()
        try:
            with defs.Silence():
                rtcompile([path], root, "gen", python=True, import_coredefs=True)
        finally:
            os.chdir(cwd)
        names = ["MSGA", "UNREL0", "UNREL1"]
        # second generation of the same definition (same name and id, edited fields) compiled next to the first
        v2 = json.loads(json.dumps(v))
        v2["def"]["fields"] = [["a", "uint32"], ["c", "double[2]"]]
        root2 = os.path.join(d, "stamp2")
        os.makedirs(root2)
        path2 = materialise(v2, root2)
        try:
            with defs.Silence():
                rtcompile([path2], root2, "gen", python=True, import_coredefs=True)
        finally:
            os.chdir(cwd)
        r = subprocess.run(["/venv/bin/python", "-c", STAMP, os.path.join(root, "gen.py"), json.dumps(names), os.path.join(root2, "gen.py")],
                           capture_output=True, text=True, timeout=120)
        if r.returncode != 0:
            raise RuntimeError("stamp probe failed: " + r.stderr[-800:])
        st = json.loads(r.stdout.strip().splitlines()[-1])
        for k, (ver, th, mt, tid) in st.items():
            nstamp += 1
            if ver != th or mt != tid:
                viol.append({"signature": "C13/NotStamped/send_message", "replay": {"case": k, "header_version": ver, "type_hash": th}})
    finally:
        shutil.rmtree(d, ignore_errors=True)
    cov = {"states": mc.get("distinct", 0), "transitions": mc.get("states", 0), "traces_validated_against_impl": len(behs),
           "versions_compiled": nver, "version_pairs_compared": npairs, "four_language_comparisons": nlang,
           "other_process_recompiles": nsub, "in_place_rebuilds": nrebuild, "stamped_headers_checked": nstamp, "reuse_form_steps_compared": nreuse, "exhaustive": False,
           "samples": [{"behaviour": behs[0]}],
           "explanation": "HashCanon.tla model checked (edits change Canon, noise does not); TLC -simulate behaviours of edits/relocations are "
                          "materialised and compiled by the real compiler; equal hash <=> equal canonical key for every pair of versions"}
    notes = [f"{nfail} behaviour(s) skipped: a version did not compile ({sorted(fail_kinds)[:3]})"] if nfail else []
    return {"level": "model_checking", "coverage": cov, "violations": viol, "notes": notes,
            "assumptions": ["the hash is treated as an injective function of the canonical key (sha256 truncated to 32 bits: accidental collisions are ignored)",
                            "type text is compared as written (char[ 8 ] and char[8] are different texts)"]}


def replay(path: str) -> Dict[str, Any]:
    rp = json.load(open(path))
    res = run("quick", 0)
    v = [x for x in res["violations"] if x["signature"] == rp["signature"]]
    engine.say(f"replay: {'reproduced' if v else 'not reproduced'}")
    return {"level": "model_checking", "coverage": {}, "violations": v[:1]}


# ------------------------------------------------------------------------------------------------
# growth: the sender half (spec/ClientSend.tla) - what every send call puts on the wire
# ------------------------------------------------------------------------------------------------
def _send_case(args):
    tid, beh, timecode = args
    import struct
    from ..readdrv import ScriptSock, _Select, _Time
    import pyrtma.client as C
    import pyrtma.core_defs as cd
    import pyrtma.exceptions as E
    clock = [0.0]
    saved = (C.select, C.time)
    C.select, C.time = _Select(clock), _Time(clock)
    bad = []
    try:
        c = C.Client(module_id=11, host_id=3, timecode=timecode)
        s = ScriptSock()
        c._sock, c._connected = s, True
        hs = 56 if timecode else 48
        for e in beh:
            if e["a"] == "Disconnect":
                c._connected = False
                continue
            before = len(s.sent)
            kind, dst, dhost, exp = e["kind"], e["dst"], e["dhost"], e["exp"]
            msg = cd.MDF_MODULE_READY()
            got = {"res": "sent", "exc": ""}
            try:
                if kind == "message":
                    c.send_message(msg, dest_mod_id=dst, dest_host_id=dhost)
                elif kind == "message0":
                    c.send_message(cd.MDF_EXIT(), dest_mod_id=dst, dest_host_id=dhost)
                elif kind == "signal":
                    c.send_signal(cd.MT_EXIT, dest_mod_id=dst, dest_host_id=dhost)
                else:
                    h = c.header_cls()
                    h.msg_type, h.dest_mod_id, h.dest_host_id = cd.MT_MODULE_READY, max(-32768, min(32767, dst)), max(-32768, min(32767, dhost))
                    h.msg_count = c.msg_count
                    c.forward_message(h, msg)
            except Exception as ex:  # noqa
                got = {"res": "raise", "exc": type(ex).__name__}
            new = bytes(s.sent[before:])
            if (got["res"], got["exc"]) != (exp["res"], exp["exc"]):
                bad.append((f"ClientSend/outcome:{kind}", f"{got} expected {exp}"))
                continue
            if exp["res"] == "raise":
                if new:
                    bad.append((f"ClientSend/refusal-wrote-bytes:{kind}", new[:16].hex()))
                continue
            want_len = hs + (4 if kind in ("message", "forward") else 0)
            if len(new) != want_len:
                bad.append((f"ClientSend/frame-length:{kind}", f"{len(new)} != {want_len}"))
                continue
            f = struct.unpack_from("<iiddhhhhiiiI", new, 0)
            mt, cnt, shost, smod, dh, dm, nb, ver = f[0], f[1], f[4], f[5], f[6], f[7], f[8], f[11]
            if cnt != exp["count"]:
                bad.append((f"ClientSend/msg_count:{kind}", f"{cnt} != {exp['count']}"))
            if kind != "forward" and (smod != 11 or shost != 3 or dm != dst or dh != dhost):
                bad.append((f"ClientSend/addressing:{kind}", f"src {smod}/{shost} dst {dm}/{dh}"))
            if kind == "message" and ver != cd.MDF_MODULE_READY.type_hash:
                bad.append(("C13/NotStamped/send_message", f"version {ver:#x}"))
            if kind == "signal" and ver != 0:
                # send_signal() has no definition instance at hand: the field stays 0 ("not filled in"), never another definition's hash
                bad.append(("C13/NotStamped/send_signal:foreign-hash", f"version {ver:#x} in a signal sent after other messages"))
            if kind == "message0" and (ver != cd.MDF_EXIT.type_hash or mt != cd.MT_EXIT):
                bad.append(("C13/NotStamped/send_message:no-fields", f"type {mt} version {ver:#x}"))
        c._connected = False
    finally:
        C.select, C.time = saved
    return tid, bad


def sender_half(tier: str, seed: int):
    d = tempfile.mkdtemp(prefix="c13s_")
    try:
        mc = engine.model_check("ClientSend", "ClientSend.cfg", timeout=600)
        if mc["violation"]:
            raise tlc.TlcError("ClientSend violated: " + mc["violation"])
        behs = engine.gen_behaviours("ClientSend", "ClientSend_Gen.cfg", num=150 if tier == "quick" else 1500, depth=20, seed=seed + 9)
    finally:
        shutil.rmtree(d, ignore_errors=True)
    viol, drift = [], []
    with engine.Quiet():
        for i, b in enumerate(behs):
            _, bad = _send_case((i, b, bool(i % 2)))
            for sig, detail in bad:
                (viol if sig.startswith("C13/") else drift).append((sig, detail, b))
    return mc, len(behs), viol, drift


_run13 = run


def run(tier, seed):  # noqa: F811
    res = _run13(tier, seed)
    mc, n, viol, drift = sender_half(tier, seed)
    seen = set()
    for sig, detail, b in viol:
        if sig not in seen:
            seen.add(sig)
            res["violations"].append({"signature": sig, "replay": {"kind": "sender", "behaviour": b, "detail": detail}})
    res["coverage"]["states"] += mc.get("distinct", 0)
    res["coverage"]["transitions"] += mc.get("states", 0)
    res["coverage"]["sender_behaviours_replayed"] = n
    res["coverage"]["traces_validated_against_impl"] += n
    if drift:
        kinds = sorted({s for s, _, _ in drift})
        res["notes"].append(f"sender half (ClientSend.tla, outside the listed properties): {len(drift)} call(s) differ from the specification: {kinds[:6]}")
    res["coverage"]["explanation"] += ("; ClientSend.tla (refusal before writing, gap-free msg_count, addressing, version stamp) model checked and its "
                                       "behaviours replayed on a real Client writing to a scripted socket")
    return res
