"""C16 -- compilation is deterministic and the shipped core definitions are current.

Same program family as C04 (spec/Defs.tla, exported by TLC with its expected Signature).  For every
program: (1) a second compilation in ANOTHER PROCESS (other PYTHONHASHSEED), from another working
directory, with another spelling of the input path, into another output directory must give
byte-identical .py/.h/.js/.m/_combined.yaml files; (2) re-parsing the combined YAML must give the same
ids, hashes, sizes, layouts and constants as the original closure (and as the specification's Signature);
(3) the generated Python core definitions shipped in the package must carry exactly the signature the
compiler produces now from the shipped core YAML files (same extractor on both).
"""
from __future__ import annotations

import json
import os
import shutil
import subprocess
import tempfile
from typing import Any, Dict, List

from .. import engine, defprog, defs


def sig_digest(sig: dict) -> Dict[str, Any]:
    out = {"constants": sig["constants"], "mids": sig["mids"], "hids": sig["hids"], "strings": sig.get("strings", {}), "defs": {}}
    for kind in ("structs", "messages"):
        for n, d in sig[kind].items():
            out["defs"][n] = {"id": d.get("id"), "hash": d["hash"], "size": d["size"],
                              "fields": [(f["name"], f.get("native") or f.get("struct") or f.get("class"), f["count"], f["size"]) for f in d["fields"]]}
    return out


def core_defs_current(d: str) -> List[dict]:
    """regenerate core_defs.py from the shipped YAML and compare signatures with the shipped module"""
    viol = []
    src = __import__("os").environ.get("VF_REPO", "/repo") + "/src/pyrtma"
    out = os.path.join(d, "core")
    os.makedirs(out)
    r = subprocess.run(["/venv/bin/python", "-m", "pyrtma.compile", "-i", os.path.join(src, "core_defs", "core_defs.yaml"), "--py", "-o", out, "-n", "core_defs"],
                       capture_output=True, text=True, timeout=300, env=dict(os.environ, PYTHONPATH=__import__("os").environ.get("VF_REPO", "/repo") + "/src"))
    if r.returncode != 0 or not os.path.exists(os.path.join(out, "core_defs.py")):
        return [{"signature": "C16/CoreDefsStale/core-yaml-does-not-compile", "replay": {"stderr": r.stderr[-800:]}}]
    # "exactly what the compiler produces": byte for byte, from the package's own build command, from two working directories
    shipped = open(os.path.join(src, "core_defs.py"), "rb").read()
    if open(os.path.join(out, "core_defs.py"), "rb").read() != shipped:
        import difflib
        dl = [l for l in difflib.unified_diff(shipped.decode(errors="replace").splitlines(), open(os.path.join(out, "core_defs.py"), errors="replace").read().splitlines(), lineterm="", n=0)
              if l[:1] in "+-" and not l.startswith(("+++", "---"))]
        viol.append({"signature": "C16/CoreDefsStale/bytes-differ", "replay": {"differing_lines": len(dl), "first": dl[:6]}})
    out2 = os.path.join(d, "core2")
    os.makedirs(out2)
    r2 = subprocess.run(["/venv/bin/python", "-m", "pyrtma.compile", "-i", "core_defs/core_defs.yaml", "--py", "--combined", "-o", out2, "-n", "core_defs"], cwd=src,
                        capture_output=True, text=True, timeout=300, env=dict(os.environ, PYTHONPATH=__import__("os").environ.get("VF_REPO", "/repo") + "/src"))
    if r2.returncode != 0 or open(os.path.join(out2, "core_defs.py"), "rb").read() != open(os.path.join(out, "core_defs.py"), "rb").read():
        viol.append({"signature": "C16/NonDeterministicOutput/py:core-defs-from-another-working-directory", "replay": {"stderr": r2.stderr[-400:]}})
    else:
        # the combined YAML of the core definitions through the command line again
        out3 = os.path.join(d, "core3")
        os.makedirs(out3)
        r3 = subprocess.run(["/venv/bin/python", "-m", "pyrtma.compile", "-i", os.path.join(out2, "core_defs_combined.yaml"), "--py", "-o", out3, "-n", "core_defs"], cwd=d,
                            capture_output=True, text=True, timeout=300, env=dict(os.environ, PYTHONPATH=__import__("os").environ.get("VF_REPO", "/repo") + "/src"))
        if r3.returncode != 0 or not os.path.exists(os.path.join(out3, "core_defs.py")):
            viol.append({"signature": "C16/YamlRoundTrip/core-combined-does-not-compile-from-command-line", "replay": {"out": (r3.stdout + r3.stderr)[-600:]}})
        else:
            s3, e3 = defs.sig_python(os.path.join(out3, "core_defs.py"), "core_defs_rt")
            s1, e1b = defs.sig_python(os.path.join(out, "core_defs.py"), "core_defs_regen0")
            if s3 is None or s1 is None or any(s3[sec] != s1[sec] for sec in ("messages", "structs", "constants", "mids", "strings")):
                viol.append({"signature": "C16/YamlRoundTrip/core-combined-differs", "replay": {"errors": [str(e3)[-300:], str(e1b)[-300:]]}})
    new, e1 = defs.sig_python(os.path.join(out, "core_defs.py"), "core_defs_regen")
    old, e2 = defs.sig_python(os.path.join(src, "core_defs.py"), "core_defs_shipped")
    if new is None or old is None:
        return [{"signature": "C16/CoreDefsStale/module-does-not-load", "replay": {"errors": [e1[-400:], e2[-400:]]}}]
    for sec in ("messages", "structs", "constants", "mids", "strings"):
        a, b = old[sec], new[sec]
        for k in sorted(set(a) | set(b)):
            if a.get(k) != b.get(k):
                what = "missing-in-shipped-py" if k not in a else ("missing-in-yaml" if k not in b else "differs")
                viol.append({"signature": f"C16/CoreDefsStale/{sec}:{what}", "replay": {"name": k, "shipped": a.get(k), "regenerated": b.get(k)}})
    return viol


def cli_output_dirs(prog, d: str) -> List[dict]:
    """the command line from different working directories, with every way of naming the output directory: same bytes"""
    viol = []
    root = os.path.join(d, "cli", "proj")
    defs.write_prog(defprog.build(prog["p"]), root)
    env = dict(os.environ, PYTHONPATH=__import__("os").environ.get("VF_REPO", "/repo") + "/src", PYTHONHASHSEED="0")
    other = os.path.join(d, "cli", "elsewhere")
    os.makedirs(other)
    runs = [("absolute", root, os.path.join(d, "cli", "o_abs"), os.path.join(d, "cli", "o_abs")),
            ("relative", root, "gen_rel", os.path.join(root, "gen_rel")),
            ("relative-nested", root, "build/defs", os.path.join(root, "build", "defs")),
            ("relative-up", root, "../o_up", os.path.join(d, "cli", "o_up")),
            ("dot", root, ".", root),
            ("other-cwd", other, "../proj/o_other", os.path.join(root, "o_other"))]
    ref = None
    for tag, cwd, o, real in runs:
        os.makedirs(real, exist_ok=True)
        inp = "root.yaml" if cwd == root else os.path.join("..", "proj", "root.yaml")
        r = subprocess.run(["/venv/bin/python", "-m", "pyrtma.compile", "-i", inp, "--py", "--c", "--js", "--mat", "--combined", "--no_core_import", "-o", o, "-n", "gen"],
                           cwd=cwd, capture_output=True, text=True, timeout=300, env=env)
        files = {}
        for fn in ("gen.py", "gen.h", "gen.js", "gen.m", "gen_combined.yaml"):
            pth = os.path.join(real, fn)
            files[fn] = open(pth, "rb").read() if os.path.exists(pth) else None
        if r.returncode != 0 or any(v is None for v in files.values()):
            viol.append({"signature": f"C16/NonDeterministicOutput/command-line-fails:{tag}", "replay": {"params": prog["p"], "out": (r.stdout + r.stderr)[-500:]}})
            continue
        if ref is None:
            ref = files
            continue
        for fn, b in files.items():
            if b != ref[fn]:
                viol.append({"signature": f"C16/NonDeterministicOutput/{fn.split('.')[-1]}:output-directory:{tag}", "replay": {"params": prog["p"], "file": fn, "cwd_kind": tag}})
    return viol


SEQ = r"""
import sys, os, json
sys.path.insert(0, os.environ.get("VF_REPO", "/repo") + "/src"); sys.path.insert(0, "/verif")
from vf import defs
mode, rootA, outA, rootB, outB = sys.argv[1:6]
if mode == "both":
    e = defs.compile_all(rootA, outA, "gen", import_coredefs=False, combined=True)
    if e is not None:
        print("ERR A", repr(e)); sys.exit(3)
e = defs.compile_all(rootB, outB, "gen", import_coredefs=False, combined=True)
if e is not None:
    print("ERR B", repr(e)); sys.exit(4)
"""


def two_closures_one_process(progs, d) -> List[dict]:
    """closure A and then closure B (different names) compiled by ONE process: B's outputs must be byte-identical to B compiled alone"""
    import re
    viol = []
    names = ["INNER", "MID", "A1", "A2", "K2", "BIG", "HALF", "INV", "SPAN", "GREETING", "MYHOST", "MYMOD", "SIG", "MSG_A", "MSG_B", "EXTRA_C",
             "INDEP_C", "INDEP_S", "INDEP_M", "ALPHA_C", "ALPHA_M", "CONSTANT_WITH_A_NAME_THAT_GOES_PAST_COLUMN_FORTY_EIGHT",
             "SIGNAL_WITH_A_NAME_THAT_GOES_PAST_COLUMN_FORTY_EIGHT", "K"]
    pat = re.compile(r"\b(" + "|".join(names) + r")\b")

    def materialise(p, prefix, root, idshift):
        files = defprog.build(p)
        out = {}
        for rel, f in files.items():
            txt = defs.yaml_text(f)
            txt = pat.sub(lambda m: prefix + m.group(1), txt)
            txt = re.sub(r"id: (\d+)", lambda m: "id: %d" % (int(m.group(1)) + idshift), txt)
            txt = txt.replace("[1003, \"1005 - 1007\"]", "[%d]" % (1003 + idshift))
            out[rel] = txt
        defs.write_prog(out, root)
        return os.path.join(root, "root.yaml")

    jobs = []
    for k in range(0, min(len(progs), 6), 2):
        a, b = progs[k]["p"], progs[k + 1]["p"]
        jobs.append((f"seq{k}", a, b, "AA_", "BB_", 300, "second-closure"))
        # the SAME names and expression texts in both closures, other constant values and native types:
        # nothing may be remembered by name or by expression text from one compile to the next
        b2 = dict(b, k=a["k"] + 1)
        jobs.append((f"same{k}", a, b2, "", "", 0, "same-names-other-values"))
    for tag, a, b, pa, pb, shift, what in jobs:
        ra = materialise(a, pa, os.path.join(d, tag, "a"), 0)
        rb = materialise(b, pb, os.path.join(d, tag, "b"), shift)
        outs = {}
        for mode in ("both", "alone"):
            oa, ob = os.path.join(d, tag, mode, "outA"), os.path.join(d, tag, mode, "outB")
            r = subprocess.run(["/venv/bin/python", "-c", SEQ, mode, ra, oa, rb, ob], capture_output=True, text=True, timeout=600,
                               env=dict(os.environ, PYTHONHASHSEED="0"))
            if r.returncode != 0:
                viol.append({"signature": f"C16/NonDeterministicOutput/{what}-in-one-process-fails", "replay": {"mode": mode, "out": (r.stdout + r.stderr)[-600:]}})
                break
            outs[mode] = ob
        else:
            import filecmp
            for fn in ("gen.py", "gen.h", "gen.js", "gen.m", "gen_combined.yaml"):
                if not filecmp.cmp(os.path.join(outs["both"], fn), os.path.join(outs["alone"], fn), shallow=False):
                    viol.append({"signature": f"C16/NonDeterministicOutput/{fn.split('.')[-1]}:depends-on-earlier-compile-in-process:{what}",
                                 "replay": {"params_a": a, "params_b": b, "file": fn}})
            p2, e2 = defs.parse(os.path.join(outs["both"], "gen_combined.yaml"), import_coredefs=False)
            if e2 is not None:
                viol.append({"signature": "C16/YamlRoundTrip/combined-of-second-closure-does-not-compile:" + type(e2).__name__,
                             "replay": {"params_a": a, "params_b": b, "error": str(e2)[:300]}})
    return viol


def run(tier: str, seed: int) -> Dict[str, Any]:
    mc, progs = defprog.export_programs(tier)
    if tier == "quick":
        progs = progs[::2]
    with engine.Quiet():
        results = defprog.run_all(progs, {"determinism": True})
    viol: List[dict] = []
    ndet = nrt = 0
    for res, prog in zip(results, progs):
        p = res["p"]
        if "harness_error" in res:
            raise RuntimeError(res["harness_error"])
        if "parse_error" in res or "compile_error" in res:
            viol.append({"signature": "C16/CompilerRejected/" + (res.get("parse_error") or res.get("compile_error")).split(":")[0],
                         "replay": {"params": p, "error": res.get("parse_error") or res.get("compile_error")}})
            continue
        if res.get("second_compile_rc") != 0:
            viol.append({"signature": "C16/NonDeterministicOutput/second-compile-fails", "replay": {"params": p, "rc": res.get("second_compile_rc")}})
        ndet += 1
        for fn in res.get("nondeterministic", []):
            viol.append({"signature": f"C16/NonDeterministicOutput/{fn.split('.')[-1]}", "replay": {"params": p, "file": fn}})
        if "combined_error" in res:
            viol.append({"signature": "C16/YamlRoundTrip/combined-does-not-compile:" + res["combined_error"].split(":")[0],
                         "replay": {"params": p, "error": res["combined_error"]}})
        elif "combined" in res:
            nrt += 1
            a, b = sig_digest(res["parser"]), sig_digest(res["combined"])
            if a != b:
                keys = [k for k in a["defs"] if a["defs"].get(k) != b["defs"].get(k)] + [k for k in ("constants", "mids", "hids") if a[k] != b[k]]
                viol.append({"signature": "C16/YamlRoundTrip/signature-differs", "replay": {"params": p, "differs": keys[:8]}})
            # and the round-tripped closure still denotes the specification's signature
            exp = prog["sig"]
            for n, ed in exp["defs"].items():
                kd = "structs" if n in ("INNER", "MID") else "messages"
                got = res["combined"][kd].get(n)
                if got is None or got["size"] != ed["size"]:
                    viol.append({"signature": "C16/YamlRoundTrip/layout-differs-from-spec", "replay": {"params": p, "def": n}})
    d = tempfile.mkdtemp(prefix="c16_")
    try:
        viol += core_defs_current(d)
        viol += two_closures_one_process(progs, d)
        viol += cli_output_dirs(progs[0], d)
    finally:
        shutil.rmtree(d, ignore_errors=True)
    uniq, seen = [], set()
    for x in viol:
        if x["signature"] not in seen:
            seen.add(x["signature"])
            uniq.append(x)
    cov = {"programs": len(progs), "disagreements_checked": ndet * 5 + nrt + 1, "states": mc.get("distinct", 0),
           "second_compiles_byte_compared": ndet, "combined_yaml_round_trips": nrt, "core_defs_compared": True,
           "samples": [{"params": progs[0]["p"]}], "exhaustive": False,
           "explanation": "two compilations (in-process; subprocess with other hash seed, cwd, path spelling, output dir) byte-compared for all five outputs; "
                          "combined YAML re-parsed and compared; shipped core_defs.py vs regenerated from shipped YAML through the same ctypes extractor"}
    return {"level": "translation_validation", "coverage": cov, "violations": uniq, "notes": [],
            "assumptions": ["byte identity is the oracle; the TLA+ side contributes the program enumeration and the expected signature"]}


def replay(path: str) -> Dict[str, Any]:
    rp = json.load(open(path))
    res = run("quick", 0)
    v = [x for x in res["violations"] if x["signature"] == rp["signature"]]
    engine.say(f"replay: {'reproduced' if v else 'not reproduced'}")
    return {"level": "translation_validation", "coverage": {}, "violations": v[:1]}
