"""C15 -- accepted definitions always yield outputs that load in their language.

TLC enumerates the program family of spec/Defs.tla in its construct VARIANTS (types defined in an
imported file and used by aliases / structs / messages of the importing file: alias of a struct, struct
holding a message, message inside a message, arrays of aliases, struct arrays of nested structs, the
documented `signed char`).  Each program is compiled by the real compiler; then: the Python module must
import and register every message, the C header must compile, the JavaScript module must import and every
factory must return a fresh object whose array elements are distinct objects, the MATLAB script must only
use what it has defined.  Any exception that is not a ParserError is an internal error.
"""
from __future__ import annotations

import json
from typing import Any, Dict, List

from .. import engine, defprog

VARIANTS = '{"base", "alias_of_struct", "struct_with_message", "message_in_message", "message_array", "alias_array", "struct_array_of_alias_struct", "sections_reversed", "struct_reuses_message"}'


def run(tier: str, seed: int) -> Dict[str, Any]:
    mc, progs = defprog.export_programs(tier, VARIANTS)
    if tier == "quick":
        # every variant with a spread of native names; the base variant is exercised in full by C04
        keep = [pr for i, pr in enumerate(progs) if pr["p"]["variant"] != "base" or i % 7 == 0]
        import random
        progs = random.Random(seed).sample(keep, min(len(keep), 420))
    else:
        # thorough: every program of the base variant is C04's job; here every variant gets a large seeded sample
        import random
        rnd = random.Random(seed)
        byv: Dict[str, list] = {}
        for pr in progs:
            byv.setdefault(pr["p"]["variant"], []).append(pr)
        progs = [pr for v, lst in sorted(byv.items()) for pr in rnd.sample(lst, min(len(lst), 900))]
    with engine.Quiet():
        results = defprog.run_all(progs, {"determinism": False})
    viol: List[dict] = []
    nload = 0
    for res in results:
        p = res["p"]
        v = p["variant"]
        if "harness_error" in res:
            raise RuntimeError(res["harness_error"])
        if "parse_error" in res:
            cl = "CompilerRejected" if res.get("parse_error_is_parser_error") else "InternalError"
            viol.append({"signature": f"C15/{cl}/{v}:{res['parse_error'].split(':')[0]}", "replay": {"params": p, "error": res["parse_error"]}})
            continue
        if "compile_error" in res:
            viol.append({"signature": f"C15/InternalError/{v}:backend:{res['compile_error'].split(':')[0]}", "replay": {"params": p, "error": res["compile_error"]}})
            continue
        nload += 1
        msgs = set(res["parser"]["messages"])
        if res.get("python") is None:
            viol.append({"signature": f"C15/PythonLoad/{v}", "replay": {"params": p, "error": (res.get("python_err") or "")[-700:]}})
        else:
            missing = sorted(m for m in msgs if m not in res["python"]["registered"])
            if missing:
                viol.append({"signature": f"C15/PythonLoad/{v}:not-registered", "replay": {"params": p, "missing": missing[:10]}})
        if res.get("c") is None:
            viol.append({"signature": f"C15/CCompile/{v}", "replay": {"params": p, "error": (res.get("c_err") or "")[-700:]}})
        js = res.get("js")
        if js is None:
            viol.append({"signature": f"C15/JsLoad/{v}", "replay": {"params": p, "error": (res.get("js_err") or "")[-500:]}})
        else:
            for e in js["errors"][:3]:
                viol.append({"signature": f"C15/JsLoad/{v}:factory-throws", "replay": {"params": p, "error": e}})
            for kind in ("structs", "messages"):
                for n, d in js[kind].items():
                    if not d["fresh"]:
                        viol.append({"signature": f"C15/JsLoad/{v}:not-fresh", "replay": {"params": p, "def": n}})
                    if any(f.get("shared") for f in d["fields"]):
                        viol.append({"signature": "C15/JsSharedElement/struct-array", "replay": {"params": p, "def": n,
                                     "fields": [f["name"] for f in d["fields"] if f.get("shared")]}})
        for pr in res.get("matlab_problems", [])[:3]:
            viol.append({"signature": f"C15/MatlabUseBeforeDef/{v}", "replay": {"params": p, "problem": pr}})
    # one signature per class is enough for the report
    uniq, seen = [], set()
    for x in viol:
        if x["signature"] not in seen:
            seen.add(x["signature"])
            uniq.append(x)
    cov = {"programs": len(progs), "disagreements_checked": nload * 4, "states": mc.get("distinct", 0),
           "variants": VARIANTS, "loaded_in_all_languages": nload,
           "samples": [{"params": progs[0]["p"]}], "exhaustive": False,
           "explanation": "each program variant is compiled and every output is loaded in its language (python import + registry, gcc, node "
                          "incl. factory calls and element identity, MATLAB define-before-use)"}
    return {"level": "translation_validation", "coverage": cov, "violations": uniq, "notes": [],
            "assumptions": ["MATLAB is checked by interpreting the assignment grammar; a MATLAB-only runtime error is out of reach",
                            "identifiers of the family are legal in all four languages"]}


def replay(path: str) -> Dict[str, Any]:
    rp = json.load(open(path))
    res = run("quick", 0)
    v = [x for x in res["violations"] if x["signature"] == rp["signature"]]
    engine.say(f"replay: {'reproduced' if v else 'not reproduced'}")
    return {"level": "translation_validation", "coverage": {}, "violations": v[:1]}
