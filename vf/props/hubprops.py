"""Shared implementation of the hub properties (C01 C05 C06 C07 C14 C18 C19 ...)."""
from __future__ import annotations

import json
import os
import shutil
import tempfile
import time
from typing import Any, Dict, List

from .. import engine, families, tlc
from ..replay import Profile, replay as replay_beh

# which families decide which property, and how many behaviours are generated per tier
PLAN: Dict[str, List[dict]] = {}

ASSUME = [
    "vio (in-memory sockets, scripted select, virtual clock) models the kernel: MSG_WAITALL short read on FIN, "
    "ConnectionResetError on RST, write failure on a vanished peer, EBADF on a closed socket",
    "bounded model checking: the clauses are proved on Manager.tla only within the family's constants",
    "blocking peers (withheld frame remainder, reader that stops reading) are excluded as in the property text",
    "manager log level is above CRITICAL in replays (RTMA_LOG traffic from the manager itself is not generated)",
]


def sig_of(prop: str, run: dict, verdict: dict) -> str:
    evs = run["ev"]
    step = verdict.get("step", 0)
    ev = evs[step - 1] if 0 < step <= len(evs) else {}
    a = ev.get("a", "?")
    it = ev.get("in", {})
    kind = it.get("k", "-")
    t = it.get("t", "-")
    tags = ",".join(sorted(p for p in verdict.get("props", []) if p.startswith(prop)))
    crash = run.get("crashed") or ""
    return f"{prop}/{a}:{kind}:{t}/{tags}" + (f"/crash:{crash}" if crash and prop == "C03" else "")


def partial_frame_step(evs: List[dict]) -> int:
    """1-based index of the first event that leaves a partial frame on a connection which is not closed in that round"""
    for i, e in enumerate(evs):
        for c in e.get("partial", []) or []:
            closed = set()
            for f in evs[i:]:
                closed |= set(f.get("closed", []) or [])
                if f.get("a") == "Begin" and f is not evs[i]:
                    break
            if c not in closed:
                return i + 1
    return 0


def closed_twice_step(evs: List[dict]) -> int:
    """1-based index of the first event in which some connection receives a SECOND CLIENT_CLOSED notice about the same departed
    module (judged on the observation alone)"""
    seen: Dict[str, set] = {}
    for i, e in enumerate(evs):
        for c, frames in (e.get("emit") or {}).items():
            for f in frames:
                if f.get("t") == 33 and f.get("src") == 0 and isinstance(f.get("p"), dict) and "uid" in f["p"]:
                    k = f["p"]["uid"]
                    if k in seen.setdefault(c, set()):
                        return i + 1
                    seen[c].add(k)
    return 0


def repo_test_traces() -> List[dict]:
    """run the repository's own integration tests on vio under the recording plugin (vf/pytest_vio.py)"""
    import subprocess
    d = tempfile.mkdtemp(prefix="repotests_")
    try:
        out = os.path.join(d, "traces.ndjson")
        env = dict(os.environ, VERIF_TRACE_OUT=out, PYTHONPATH=os.path.dirname(os.path.dirname(os.path.dirname(os.path.abspath(__file__)))) + ":" + os.environ.get("VF_REPO", "/repo") + "/src")
        r = subprocess.run(["/venv/bin/python", "-m", "pytest", "-q", "-p", "no:cacheprovider", "-p", "vf.pytest_vio", "--timeout=300",
                            "tests/test_integration.py", "tests/test_sync.py", "tests/test_encoding.py"],
                           cwd=os.environ.get("VF_REPO", "/repo"), env=env, capture_output=True, text=True, timeout=900)
        if not os.path.exists(out):
            raise RuntimeError("recording plugin produced no traces:\n" + (r.stdout + r.stderr)[-1500:])
        return [json.loads(l) for l in open(out)], r.returncode
    finally:
        shutil.rmtree(d, ignore_errors=True)


def run_repo_tests(prop: str) -> Dict[str, Any]:
    traces, rc = repo_test_traces()
    verdicts = engine.run_and_validate([{"tid": t["tid"], "ev": t["ev"]} for t in traces])
    viol, other, nok, kinds = [], 0, 0, {}
    for t in traces:
        v = verdicts[t["tid"]]
        if t.get("crashed"):
            v = dict(v, res="fail", props=sorted(set(v.get("props", [])) | {"C03"}), step=v.get("step") or len(t["ev"]))
        if v["res"] == "ok":
            nok += 1
            continue
        tags = [p for p in v.get("props", []) if p.startswith(prop)]
        if not tags:
            other += 1
            k = ",".join(sorted(v.get("props", []))) or "drift"
            kinds[k] = kinds.get(k, 0) + 1
            continue
        viol.append({"signature": sig_of(prop, {"ev": t["ev"], "crashed": t.get("crashed")}, v) + "/repo-test",
                     "replay": {"family": "repo-tests", "test": t.get("test"), "verdict": v, "events": t["ev"][max(0, v["step"] - 6): v["step"]]}})
    mc = {"distinct": 0, "states": 0, "depth": 0, "wall_s": 0.0}
    runs = [{"ev": t["ev"], "tid": t["tid"]} for t in traces]
    return {"fam": "repo-tests", "mc": mc, "behs": [t.get("test") for t in traces], "runs": runs, "nok": nok, "other": other,
            "other_kinds": kinds, "violations": viol, "pytest_rc": rc}


def run_family(prop: str, fam: str, tier: str, seed: int, num: int, depth: int, nprof: int, scen=None, timing: bool = True, log_level=None, force_log: bool = False) -> Dict[str, Any]:
    if scen == "repo-tests":
        return run_repo_tests(prop)
    if scen is not None:
        mc = {"distinct": 0, "states": 0, "depth": 0, "wall_s": 0.0}
        behs = scen(seed, num)
    else:
        d = tempfile.mkdtemp(prefix="fam_")
        try:
            cfg = families.render(fam, tier, gen=False, outdir=d)
            gcfg = families.render(fam, tier, gen=True, outdir=d)
            module = families.FAMILIES[fam]["module"]
            mc = engine.model_check(module, cfg)
            if mc["violation"]:
                raise tlc.TlcError(f"specification family {fam} violates its own property {mc['violation']} "
                                   f"(machinery defect, not a verdict on the code)\n" + mc["out"][-3000:])
            behs = engine.gen_behaviours(module, gcfg, num=num, depth=depth, seed=seed + 1)
        finally:
            shutil.rmtree(d, ignore_errors=True)
    profiles = [Profile(seed * 7 + i) for i in range(nprof)]
    if nprof >= 2:
        # at least one concretisation runs with the manager's own logging switched on (its default in production)
        profiles[-1] = Profile(seed * 7 + nprof - 1, log_level=20 if seed % 2 == 0 else 10)
    if log_level is not None:
        profiles = [Profile(seed * 7 + i, log_level=log_level) for i in range(nprof)]      # the manager's own logging switched on
    for pr in profiles:
        pr.timing = timing          # send_msg_timing option of the manager
    runs = engine.replay_all(behs, profiles, log_level=log_level if force_log else None)     # force_log: logging stays on although peers die
    verdicts = engine.run_and_validate([{"tid": r["tid"], "ev": r["ev"]} for r in runs], cfg="Manager_Trace.cfg" if timing else "Manager_Trace_notiming.cfg")
    violations = []
    other = 0
    other_kinds: Dict[str, int] = {}
    nok = 0
    for r in runs:
        v = verdicts[r["tid"]]
        # C05 whole frames (projection-level clause): a connection the manager keeps open never holds a partial frame
        pf = partial_frame_step(r["ev"])
        if pf and (v["res"] == "ok" or pf < v.get("step", 0)):
            v = {"tid": v["tid"], "res": "fail", "step": pf, "props": ["C05.PartialFrame"]}
        elif pf and pf == v.get("step", 0):
            # the step the specification rejects ALSO leaves a torn frame on a connection that stays open
            v = dict(v, props=sorted(set(v.get("props", [])) | {"C05.PartialFrame"}))
        # C07 exactly one CLIENT_CLOSED (observation-level clause)
        ct = closed_twice_step(r["ev"])
        if ct and (v["res"] == "ok" or ct <= v.get("step", 0) or r.get("crashed")):
            v = dict(v, res="fail", step=min(ct, v.get("step") or ct), props=sorted(set(v.get("props", [])) | {"C07.ClosedTwice"}))
        # the manager thread died with an exception: C03, whatever else the trace shows
        if r.get("crashed") and not str(r["crashed"]).startswith(("WouldBlock", "HarnessError")):
            v = dict(v, res="fail", props=sorted(set(v.get("props", [])) | {"C03"}), step=v.get("step") or len(r["ev"]))
        if v["res"] == "ok":
            nok += 1
            continue
        tags = [p for p in v.get("props", []) if p.startswith(prop)]
        if not tags:
            other += 1
            key = ",".join(sorted(v.get("props", []))) or "drift"
            other_kinds[key] = other_kinds.get(key, 0) + 1
            if os.environ.get("VERIF_DEBUG") and other_kinds[key] == 1:
                engine.say("DEBUG other-property rejection", key, "step", v["step"], json.dumps(r["prof"].to_json()))
                for e in r["ev"][max(0, v["step"] - 3): v["step"]]:
                    engine.say("   ", json.dumps(e)[:900])
            continue
        violations.append({
            "signature": sig_of(prop, r, v),
            "replay": {"family": fam, "behaviour": behs[r["beh"]], "profile": r["prof"].to_json(),
                       "verdict": v, "events": r["ev"][max(0, v["step"] - 6): v["step"]], "crashed": r["crashed"]},
        })
    return {"fam": fam, "mc": mc, "behs": behs, "runs": runs, "nok": nok, "other": other,
            "other_kinds": other_kinds, "violations": violations}


def run(prop: str, tier: str, seed: int) -> Dict[str, Any]:
    plan = PLAN[prop]
    states = trans = 0
    ntr = 0
    viol: List[dict] = []
    notes: List[str] = []
    samples: List[Any] = []
    fams = []
    nbeh = 0
    for item in plan:
        q = tier == "quick"
        res = run_family(prop, item["fam"], tier, seed, num=item["num_q"] if q else item["num_t"],
                         depth=item.get("depth", 80), nprof=item.get("prof_q", 2) if q else item.get("prof_t", 4),
                         scen=item.get("scen"), timing=item.get("timing", True), log_level=item.get("log_level"), force_log=item.get("force_log", False))
        states += res["mc"].get("distinct", 0)
        trans += res["mc"].get("states", 0)
        ntr += len(res["runs"])
        nbeh += len(res["behs"])
        viol += res["violations"]
        if res["other"]:
            notes.append(f"family {item['fam']}: {res['other']} trace(s) rejected on clauses of OTHER properties "
                         f"(not counted against {prop}): {res['other_kinds']}")
        if item.get("scen") == "repo-tests":
            fams.append({"family": "repo-tests", "source": "the repository's own tests/test_integration.py, test_sync.py, test_encoding.py executed on vio under the "
                         "recording plugin vf/pytest_vio.py; every manager loop iteration validated by Manager_Trace",
                         "tests": len(res["behs"]), "traces": len(res["runs"]), "accepted": res["nok"], "rejected_other_property": res["other"],
                         "events": sum(len(r["ev"]) for r in res["runs"]), "pytest_rc": res.get("pytest_rc")})
        elif item.get("scen") is not None:
            fams.append({"family": item["fam"], "source": "vf/scenarios.py enumeration (oracle: Manager_Trace)",
                         "behaviours": len(res["behs"]), "traces": len(res["runs"]), "accepted": res["nok"],
                         "rejected_other_property": res["other"]})
        else:
          fams.append({"family": item["fam"], "module": families.FAMILIES[item["fam"]]["module"],
                       "distinct_states": res["mc"].get("distinct"), "states_generated": res["mc"].get("states"),
                       "depth": res["mc"].get("depth"), "tlc_wall_s": round(res["mc"]["wall_s"], 1),
                       "properties_checked": families.FAMILIES[item["fam"]].get("properties", []) +
                                             families.FAMILIES[item["fam"]].get("invariants", []),
                       "behaviours": len(res["behs"]), "traces": len(res["runs"]), "accepted": res["nok"],
                       "rejected_other_property": res["other"]})
        if res["behs"] and item.get("scen") != "repo-tests":
            samples.append({"behaviour": res["behs"][0][-6:]})
        if res["runs"]:
            evs = res["runs"][0]["ev"]
            samples.append({"trace_events": evs[-2:]})
    cov = {
        "states": states, "transitions": trans, "traces_validated_against_impl": ntr,
        "behaviours_replayed": nbeh, "samples": samples, "families": fams,
        "exhaustive": False,
        "explanation": "TLC checks the clause(s) on MCBase+Manager.tla exhaustively within the family bounds; "
                       "TLC -simulate exports behaviours; each is executed on the real MessageManager over vio "
                       "under several concretisations; TLC validates every recorded execution against Manager_Trace",
    }
    return {"level": "model_checking", "coverage": cov, "violations": viol, "notes": notes, "assumptions": ASSUME}


def replay(prop: str, path: str) -> Dict[str, Any]:
    rp = json.load(open(path))
    prof = Profile(rp["profile"]["seed"], log_level=rp["profile"].get("log_level"))
    prof.timing = rp["profile"].get("timing", True)
    with engine.Quiet():
        h = replay_beh(rp["behaviour"], prof)
    v = engine.run_and_validate([{"tid": 1, "ev": h.events}], cfg="Manager_Trace.cfg" if prof.timing else "Manager_Trace_notiming.cfg")[1]
    viol = []
    if v["res"] != "ok" and any(p.startswith(prop) for p in v.get("props", [])):
        viol.append({"signature": sig_of(prop, {"ev": h.events, "crashed": h.crashed}, v),
                     "replay": {**rp, "verdict": v}})
    engine.say(f"replay verdict: {v}")
    return {"level": "model_checking", "coverage": {}, "violations": viol}
