"""C17 -- the data logger loses, duplicates and reorders nothing.

  1. TLC model-checks DataLogger.tla (recorder + writer thread at synchronisation-operation granularity, explicit clock,
     double buffer, subdivision, pause/resume/stop/close): Conservation, FilesComplete, TerminalComplete over all
     interleavings in the bound, for the THREE handshakes of the model (clear_then_set = the original code, set_then_clear =
     the first repair, handoff = request cleared at pickup / write_finished set last and tested by the recorder; the one the
     code has is observed by a probe run on the real DataCollection); StopTerminates / WriterLeaves under weak fairness on a
     smaller bound.  If TLC violates the model of the handshake the code HAS, its counterexamples are executed on the code
     (and, should no execution show a failing clause, the model-level verdict itself is reported: an unsafe handshake never
     passes as "conformant to an unsafe model").
  2. spec -> code: TLC exports the complete state graph of a small bound; a path cover of ALL its transitions (every model
     transition in its context, including every path into a state that violates Conservation/FilesComplete) plus
     TLC -simulate behaviours of a larger bound are replayed on the REAL DataCollection/DataSet under the deterministic
     two-thread scheduler (vf/logger_drv.py), for every formatter of the package; after stop()/close() the files are read
     back with the package's readers and compared with the arrival script: the C17 clauses.
  3. code -> spec: the recorded synchronisation operations of every run are validated by TLC (DataLogger_Trace); TLC also
     evaluates the clauses on the read-back files.  A trace the model cannot follow without a failing clause = drift.
  4. RESTART: a stopped collection is started again (MaxRec = 2 in the model: stop -> start -> record -> stop, buffers,
     events, writer and _elapsed_time as the code leaves them).  Conservation / FilesComplete are stated per recording and
     model checked on a bound of their own; the complete state graph of a small restart bound is covered path by path on
     the real DataCollection, restart scripts are enumerated / fuzzed on the code, the simulated behaviours contain
     restarts.  The files of each recording are read back separately (metadata-dependent names, as a user of the package
     has them) and each recording is judged against the arrivals of that recording.
"""
from __future__ import annotations

import json
import os
import random
import re
import shutil
import tempfile
from collections import defaultdict, deque
from typing import Any, Dict, List, Optional, Tuple

from .. import engine, tlc

CFG = """SPECIFICATION {spec}
CONSTANTS
  DS = {{"d1", "d2"}}
  Types = {{"A", "B"}}
  MaxMsgs = {msgs}
  MaxNone = {none}
  MaxTicks = {ticks}
  MaxPause = {pause}
  MaxRec = {rec}
  EaccReset = {eres}
  Dts = {dts}
  WriterOrder = "{order}"
  I1 = {i1}
  I2 = {i2}
  GenOn = {gen}
  EdgeOn = {edge}
{checks}
CHECK_DEADLOCK FALSE
"""
SAFETY = "\n".join("INVARIANT " + i for i in ("Conservation", "FilesComplete", "TerminalComplete"))
LIVENESS = "PROPERTY StopTerminates\nPROPERTY WriterLeaves"
ORDERS = ("clear_then_set", "set_then_clear", "handoff")     # WriterOrder of DataLogger.tla; the one the code has is observed
FORMAT_PAIRS = [("raw", "json"), ("quicklogger", "msg_header"), ("json", "quicklogger"), ("msg_header", "raw"),
                ("quicklogger", "quicklogger"), ("raw", "raw")]
LOSS_CLASS = {"R.s_clearfin": "stop-restages-over-unwritten-buffer", "R.u_isset": "update-restages-over-unwritten-buffer"}
SAFE_ORDER = "handoff"       # the handshake for which TLC finds no violation (one and two recordings, safety and liveness)
NAMINGS = ("file", "dir")
EACC_RESET = ["FALSE"]   # does start() reset _elapsed_time? observed on the code by a probe run (set in run / replay), a constant of every cfg


def _cfg(d: str, name: str, **kw) -> str:
    base = dict(spec="Spec", msgs=2, none=0, ticks=2, pause=0, rec=1, eres=EACC_RESET[0], dts="{16}", order=ORDERS[0], i1=30, i2=0, gen="FALSE", edge="FALSE", checks="")
    base.update(kw)
    p = os.path.join(d, name)
    with open(p, "w") as f:
        f.write(CFG.format(**base))
    return p


# ------------------------------------------------------------------------------------------------------------
# state graph -> behaviours covering every transition
def path_cover(edges: List[dict], rng: random.Random) -> Tuple[List[List[dict]], Dict[str, int]]:
    key = lambda s: json.dumps(s, sort_keys=True)  # noqa: E731
    ids: Dict[str, int] = {}
    E: List[Tuple[int, dict, int, bool]] = []
    seen = set()
    for e in edges:
        u = ids.setdefault(key(e["s"]), len(ids))
        v = ids.setdefault(key(e["t"]), len(ids))
        k = (u, json.dumps(e["l"], sort_keys=True), v)
        if k in seen:
            continue
        seen.add(k)
        E.append((u, e["l"], v, bool(e["bad"])))
    out: Dict[int, List[int]] = defaultdict(list)
    rin: Dict[int, List[int]] = defaultdict(list)
    for i, (u, _, v, _) in enumerate(E):
        out[u].append(i)
        rin[v].append(i)
    roots = [n for n in range(len(ids)) if not rin[n]]
    if len(roots) != 1:
        raise tlc.TlcError(f"state graph export: {len(roots)} initial states")
    init = roots[0]
    term = [n for n in range(len(ids)) if not out[n]]

    def rbfs(sources: List[int]) -> Tuple[Dict[int, int], Dict[int, int]]:
        d = {s: 0 for s in sources}
        hop: Dict[int, int] = {}
        q = deque(sources)
        while q:
            n = q.popleft()
            for ei in rin[n]:
                s = E[ei][0]
                if s not in d:
                    d[s] = d[n] + 1
                    hop[s] = ei
                    q.append(s)
        return d, hop

    _, thop = rbfs(term)
    unc = set(range(len(E)))
    paths: List[List[int]] = []
    while unc:
        d, hop = rbfs(sorted({E[i][0] for i in unc}))
        if init not in d:
            raise tlc.TlcError("state graph export: transitions unreachable from the initial state")
        n, path, fresh = init, [], 0
        while True:
            cand = [i for i in out[n] if i in unc]
            if cand:
                ei = cand[rng.randrange(len(cand))]
            elif n in hop and d.get(n, 0) > 0 and len(path) < 400:
                ei = hop[n]  # towards the nearest transition not yet covered
            elif n in thop:
                ei = thop[n]
            else:
                break
            if ei in unc:
                unc.discard(ei)
                fresh += 1
            path.append(ei)
            n = E[ei][2]
        if fresh == 0:
            raise tlc.TlcError("path cover made no progress")
        paths.append(path)
    behs = [[E[i][1] for i in p] for p in paths]
    stats = {"graph_states": len(ids), "graph_transitions": len(E), "bad_transitions": sum(1 for e in E if e[3]),
             "paths": len(paths), "paths_through_bad": sum(1 for p in paths if any(E[i][3] for i in p))}
    return behs, stats


def export_graph(d: str, name: str, rng: random.Random, **kw) -> Tuple[List[List[dict]], Dict[str, int]]:
    cfg = _cfg(d, name, edge="TRUE", **kw)
    r = tlc.run_tlc("DataLogger", cfg, workers=4, timeout=900)
    if r["error"] or not r.get("finished"):
        raise tlc.TlcError(f"state graph export failed: {r['error']}\n{r['out'][-1500:]}")
    edges = tlc.behaviours(r["out"], "EDGE ")
    if len(edges) + 1 < r.get("states", 0):
        raise tlc.TlcError(f"state graph export: {len(edges)} EDGE lines for {r.get('states')} generated states")
    behs, stats = path_cover(edges, rng)
    stats["tlc_distinct"] = r.get("distinct", 0)
    return behs, stats


# ------------------------------------------------------------------------------------------------------------
def _run(args) -> Dict[str, Any]:
    tid, beh, variant = args
    from .. import logger_drv as L

    res = L.run_behaviour(beh, fmts=tuple(variant["fmts"]), intervals=tuple(variant["intervals"]), typemap=variant["typemap"],
                          stutters=variant.get("stutters"), naming=variant.get("naming", "file"))
    res["tid"] = tid
    res["judge"] = L.judge(res)
    return res


def _explore(args) -> Dict[str, Any]:
    """exhaustive enumeration (stateless, depth first) of the interleavings of one recorder script with the writer, on the real code"""
    script, variant, max_runs, stack = args
    from .. import logger_drv as L

    out, stack = [], list(stack)
    while stack and len(out) < max_runs:
        res, alts = L.run_schedule(script, stack.pop(), fmts=tuple(variant["fmts"]), intervals=tuple(variant["intervals"]),
                                   typemap=variant["typemap"], naming=variant.get("naming", "file"))
        stack += alts
        res["judge"] = L.judge(res)
        out.append(res)
    return {"runs": out, "truncated": bool(stack)}


def _fuzz(args) -> Dict[str, Any]:
    script, variant, seed = args
    from .. import logger_drv as L

    res, _ = L.run_schedule(script, None, seed=seed, p_stutter=variant.get("p_stutter", 0.1), fmts=tuple(variant["fmts"]), intervals=tuple(variant["intervals"]),
                            typemap=variant["typemap"], naming=variant.get("naming", "file"))
    res["judge"] = L.judge(res)
    return res


def _scripts(behs: List[List[dict]]) -> List[List[dict]]:
    """the recorder's API call sequences of complete behaviours (projection), distinct"""
    seen, out = set(), []
    for b in behs:
        sc = [x for x in b if x["th"] == "R" and x["a"] != "Op"]
        if not sc or sc[-1]["a"] != "Close":
            continue
        k = json.dumps(sc, sort_keys=True)
        if k not in seen:
            seen.add(k)
            out.append(sc)
    return out


RESTART_SCRIPTS = (24, 200)     # restart scripts enumerated on the code (quick, thorough)
RESTART_CAP = (400, 4000)       # runs per open subtree of such a script


def _second_flushes(sc: List[dict]) -> bool:
    """does the script give the second recording a flush deadline (a tick after the second start) followed by an update?"""
    starts = [i for i, x in enumerate(sc) if x["a"] == "Start"]
    if len(starts) < 2:
        return False
    tail = sc[starts[1]:]
    ticks = [i for i, x in enumerate(tail) if x["a"] == "Tick"]
    return bool(ticks) and any(x["a"] == "Update" for x in tail[ticks[0]:])


def _between(ev: List[dict]) -> bool:
    """an update() between two recordings (after a stop, before the next start)"""
    stopped = False
    for e in ev:
        if e["a"] == "Stop":
            stopped = True
        elif e["a"] == "Start":
            stopped = False
        elif e["a"] == "Update" and stopped and e["rec"] >= 1 and any(x["a"] == "Start" and x["rec"] > e["rec"] for x in ev):
            return True
    return False


_ACT = {"RStart": "Start", "RTick": "Tick", "RUpdate": "Update", "RPause": "Pause", "RResume": "Resume", "RStop": "Stop", "RClose": "Close",
        "ROp": "Op", "WOp": "Op"}
TLC_CLAUSE = {"Conservation": "Lost", "FilesComplete": "Lost", "TerminalComplete": "Lost", "StopTerminates": "StopHangs", "WriterLeaves": "StopHangs"}


def _cex(out: str) -> List[dict]:
    """the behaviour (step labels) of the counterexample TLC printed: 'State 7: <RUpdate("A") line ..>' -> {"th": "R", "a": "Update", "t": "A"}"""
    beh = []
    for m in re.finditer(r"^State \d+: <(\w+)(?:\(([^)]*)\))? line ", out, re.M):
        act, arg = m.group(1), (m.group(2) or "").strip()
        if act not in _ACT:
            raise tlc.TlcError(f"counterexample: unknown action {act}")
        st = {"th": "W" if act == "WOp" else "R", "a": _ACT[act], "t": "", "dt": 0}
        if act == "RTick":
            st["dt"] = int(arg)
        elif act == "RUpdate":
            st["t"] = arg.strip('"')
        beh.append(st)
    return beh


def _probe(_=None) -> Tuple[str, bool]:
    from .. import logger_drv as L
    return L.probe_order(), L.probe_elapsed_carried()


def _pool_map(fn, work, jobs=12, chunksize=8):
    import multiprocessing as mp
    with engine.Quiet():
        if len(work) < 8:
            return [fn(w) for w in work]
        with mp.get_context("fork").Pool(min(jobs, max(1, len(work) // 4))) as pool:
            return pool.map(fn, work, chunksize=chunksize)


def _validate(d: str, results: List[Dict[str, Any]], order: str) -> Dict[int, dict]:
    """TLC on every recorded run; one cfg per (intervals) group, several JVMs in parallel"""
    from concurrent.futures import ThreadPoolExecutor

    groups: Dict[Tuple[int, int], List[dict]] = defaultdict(list)
    for r in results:
        groups[tuple(r["variant"]["intervals"])].append({"tid": r["tid"], "ev": r["ev"]})
    jobs = []
    for (i1, i2), items in groups.items():
        cfg = _cfg(d, f"trace_{i1}_{i2}.cfg", spec="TSpec", msgs=1000, none=1000, ticks=1000, pause=1000, rec=1000, order=order, i1=i1, i2=i2)
        n = max(1, min(8, len(items) // 120), -(-len(items) // 8000))
        for k in range(n):
            jobs.append((cfg, items[k::n]))

    def val(job):
        cfg, chunk = job
        v = tlc.validate_traces(chunk, "DataLogger_Trace", cfg, timeout=1500)
        for t in chunk:
            if t["tid"] not in v["by_tid"]:
                raise tlc.TlcError("no verdict for a data logger trace\n" + v["tlc"]["out"][-3000:])
        return v["by_tid"]

    out: Dict[int, dict] = {}
    with ThreadPoolExecutor(max_workers=8) as ex:
        for part in ex.map(val, jobs):
            out.update(part)
    return out


def _signature(clause: str, verdict: dict, res: Dict[str, Any]) -> str:
    name = clause.split(".", 1)[1]
    la = verdict.get("lostAt", "")
    det = res["judge"]["detail"]
    fm = dict(zip(sorted({d for f in res["files"] for d in f}), res["variant"]["fmts"]))
    tags = det.get(name, [])                       # "<ds>@<recording>" / "<ds>@<r1>+<r2>" (duplicate across recordings)
    restart = bool(tags) and all("+" in t or int(t.split("@")[1]) > 1 for t in tags)   # only later recordings are affected
    if name.startswith("FileUnreadable"):
        f = name[name.index("(") + 1:-1]
        why = sorted({u.split(":")[2] for u in res["unread"] if u.split(":")[1] == f})
        return f"C17/{name}/{'+'.join(why) or 'reader'}"
    if name == "StopHangs":
        w = [e for e in res["ev"] if e["th"] == "W" and e.get("exc")]
        return f"C17/StopHangs/{'writer-died:' + w[-1]['exc'] if w else 'writer-alive'}"
    if la:
        base, _, sfx = la.partition("@")
        return f"C17/{name}/{LOSS_CLASS.get(base, 'model:' + base)}{'-after-' + sfx if sfx else ''}"
    dr = sorted(st for st, c in verdict["props"] if c == "drift" and st < len(res["ev"]))
    if dr:   # the run left the model before the files went wrong: the class is the step the model could not follow
        e = res["ev"][dr[0] - 1]
        what = f"{e['op']}.{e['ev']}" if e["a"] == "Op" else e["a"]
        return f"C17/{name}/diverges-from-model@{e['th']}.{what}{'!' + e['exc'] if e['exc'] else ''}"
    if res["hang"]:   # stop() of the last recording never returned: its files were not finalised
        return f"C17/{name}/stop-never-returned"
    fmts = sorted({fm[t.split("@")[0]] for t in tags})
    return f"C17/{name}/not-in-model:{'after-restart:' if restart else ''}{'fmt:' + fmts[0] if len(fmts) == 1 else 'any-format'}"


DISAGREE: List[int] = []


def _assess(results: List[Dict[str, Any]], verdicts: Dict[int, dict]):
    drift: List[int] = []
    best: Dict[str, Tuple[int, dict]] = {}
    count: Dict[str, int] = defaultdict(int)
    for r in results:
        v = verdicts[r["tid"]]
        clauses = sorted({c for _, c in v["props"] if c != "drift"})
        if sorted(r["judge"]["clauses"]) != clauses:
            # the two evaluations of the same predicates (TLC on the trace, the driver on the files) disagree: keep every clause
            # either of them found - a violating run is never dropped because the cross-check tripped
            clauses = sorted(set(clauses) | set(r["judge"]["clauses"]))
            DISAGREE.append(r["tid"])
        if any(c == "drift" for _, c in v["props"]) or (r["desync"] is not None and not clauses):
            drift.append(r["tid"])
        for c in clauses:
            sig = _signature(c, v, r)
            rp = {"behaviour": r["behaviour"], "variant": r["variant"], "clause": c, "files": r["files"], "unread": r["unread"],
                  "expected": _expected(r), "lostAt": v.get("lostAt", ""), "writer_order": r["order"],
                  "sync_trace": [f"{e['th']} {e['a'] if e['a'] != 'Op' else e['op'] + ' ' + e['ev']}"
                                 + (f" {e['t']}" if e['t'] else "") + (" ->T" if e["res"] else "") for e in r["ev"][:-1]]}
            n = len(r["behaviour"])
            if sig not in best or n < best[sig][0]:
                best[sig] = (n, {"signature": sig, "replay": rp})
            count[sig] += 1
    # a clause that fails for data sets of different formatters does not depend on the formatter: one signature
    groups: Dict[str, List[str]] = defaultdict(list)
    for sig in best:
        m = re.match(r"^(.*:)(fmt:\w+|any-format)$", sig)
        if m:
            groups[m.group(1)].append(sig)
    for pre, sigs in groups.items():
        if len(sigs) > 1:
            tgt = pre + "any-format"
            n, v = min((best[x] for x in sigs), key=lambda bv: bv[0])
            total = sum(count.pop(x) for x in sigs)
            for x in sigs:
                del best[x]
            v["signature"] = tgt
            best[tgt], count[tgt] = (n, v), total
    # one violation per signature: the shortest schedule that shows it (the CLI stores one replay file per signature)
    viol = [best[sig][1] for sig in sorted(best)]
    for x in viol:
        x["replay"]["runs_with_this_signature"] = count[x["signature"]]
    return viol, drift


def _expected(r: Dict[str, Any]) -> List[Dict[str, List[int]]]:
    """per recording: the serial numbers every data set has to hold"""
    arr = [e for e in r["ev"] if e["a"] == "Update" and e["t"] != "None"]
    return [{d: [e["id"] for e in arr if e["live"] and e["rec"] == k and (e["t"] == "A" or d != "d1")] for d in sorted(f)}
            for k, f in enumerate(r["files"], start=1)]


# ------------------------------------------------------------------------------------------------------------
def run(tier: str, seed: int) -> Dict[str, Any]:
    q = tier == "quick"
    rng = random.Random(seed * 7919 + 17)
    d = tempfile.mkdtemp(prefix="c17_")
    notes: List[str] = []
    import time as _time
    t0, phases = _time.time(), {}

    def lap(name):
        nonlocal t0
        phases[name] = round(_time.time() - t0, 1)
        t0 = _time.time()
    try:
        order, carried = _pool_map(_probe, [None])[0]
        EACC_RESET[0] = "FALSE" if carried else "TRUE"
        if carried:
            notes.append("start() does not reset _elapsed_time: after a recording that was paused, elapsed_time of the NEXT recording starts at "
                         "the paused value (flush / subdivision deadlines of the second recording come early); modelled as the code has it "
                         "(EaccReset = FALSE), no C17 clause depends on it")
        model_order = order if order in ORDERS else SAFE_ORDER      # an unknown handshake is followed with the safe model
        if order not in ORDERS:
            notes.append(f"writer handshake order observed on the code is '{order}': the model uses {model_order}; expect drift")

        # 1. + 2. all TLC jobs run concurrently: model checking (both writer orders, safety and liveness), the state graph exports
        #          of the small bounds (-> transition cover) and the simulation of a larger bound
        from concurrent.futures import ThreadPoolExecutor

        def mcjob(cfg, workers):
            r = tlc.run_tlc("DataLogger", cfg, workers=workers, timeout=2400)
            m = re.search(r"Error: Temporal property (\S+) was violated", r["out"])   # (a message format vf.tlc.run_tlc does not know)
            if m and r["violation"] is None:
                r["violation"] = m.group(1)
            if r["error"] or (not r.get("finished") and r["violation"] is None):
                raise tlc.TlcError(f"TLC failed on {cfg}: {r['error']}\n{r['out'][-1500:]}")
            r["cex"] = _cex(r["out"]) if r["violation"] else []
            return r

        bound = dict(msgs=3, none=1, ticks=2, pause=1, dts="{16}") if q else dict(msgs=4, none=1, ticks=3, pause=1, dts="{16, 40}")
        lb = dict(msgs=2, none=1, ticks=2, pause=1, dts="{16}") if q else dict(msgs=3, none=1, ticks=2, pause=1, dts="{16}")
        plans = [dict(msgs=2, none=0, ticks=2, pause=0, dts="{16}", i1=30, i2=0)]
        if q:
            plans.append(dict(msgs=1, none=1, ticks=2, pause=1, dts="{16}", i1=30, i2=0))
        else:
            plans.append(dict(msgs=2, none=1, ticks=2, pause=1, dts="{16}", i1=30, i2=0))
            plans.append(dict(msgs=3, none=0, ticks=3, pause=0, dts="{16}", i1=30, i2=45))
        # restart (MaxRec = 2): a bound of its own for model checking, the smallest restart graph for the transition cover
        rbound = dict(msgs=2, none=1, ticks=2, pause=1, dts="{16}", rec=2) if q else dict(msgs=3, none=1, ticks=3, pause=1, dts="{16}", rec=2)
        rlb = dict(msgs=1, none=1, ticks=2, pause=0, dts="{16}", rec=2) if q else dict(msgs=2, none=1, ticks=2, pause=1, dts="{16}", rec=2)
        rplan = len(plans)
        plans.append(dict(msgs=2, none=0, ticks=2, pause=0, dts="{16}", i1=30, i2=0, rec=2))
        if not q:
            plans.append(dict(msgs=2, none=0, ticks=2, pause=1, dts="{16}", i1=30, i2=0, rec=2))
        sim = dict(msgs=5, none=2, ticks=4, pause=2, dts="{16, 40}", i1=30, i2=45, rec=2)
        with ThreadPoolExecutor(max_workers=12) as ex:
            f_mc = {o: ex.submit(mcjob, _cfg(d, f"mc_{o}.cfg", order=o, checks=SAFETY, **bound), 4 if q else 8) for o in ORDERS}
            f_live = {o: ex.submit(mcjob, _cfg(d, f"live_{o}.cfg", spec="FairSpec", order=o, checks=LIVENESS, **lb), 2) for o in ORDERS}
            f_mcr = {o: ex.submit(mcjob, _cfg(d, f"mcr_{o}.cfg", order=o, checks=SAFETY, **rbound), 4 if q else 8) for o in ORDERS}
            f_liver = {o: ex.submit(mcjob, _cfg(d, f"liver_{o}.cfg", spec="FairSpec", order=o, checks=LIVENESS, **rlb), 2) for o in ORDERS}
            f_graph = [ex.submit(export_graph, d, f"graph{k}.cfg", random.Random(seed * 31 + k), order=model_order, **pl)
                       for k, pl in enumerate(plans)]
            f_sim = ex.submit(engine.gen_behaviours, "DataLogger",
                              _cfg(d, "sim.cfg", order=model_order, gen="TRUE", checks="INVARIANT GenInv", **sim),
                              num=400 if q else 4000, depth=150, seed=seed + 5, timeout=900)
            cexs: List[Tuple[str, str, List[dict]]] = []     # (TLC job, violated property, behaviour) for the handshake the code has
            mc: Dict[str, Dict[str, Any]] = {}
            mcr: Dict[str, Dict[str, Any]] = {}
            live: Dict[str, Any] = {}
            liver: Dict[str, Any] = {}
            for o in ORDERS:
                r = f_mc[o].result()
                mc[o] = {"violation": r["violation"], "states": r.get("distinct", 0), "transitions": r.get("states", 0),
                         "depth": r.get("depth", 0), "complete": r["violation"] is None}
                r = f_mcr[o].result()
                mcr[o] = {"violation": r["violation"], "states": r.get("distinct", 0), "transitions": r.get("states", 0),
                          "depth": r.get("depth", 0), "complete": r["violation"] is None}
                r = f_live[o].result()
                live[o] = {"violation": r["violation"], "states": r.get("distinct", 0)}
                r = f_liver[o].result()
                liver[o] = {"violation": r["violation"], "states": r.get("distinct", 0)}
                if o == model_order:
                    cexs += [(job, f[o].result()["violation"], f[o].result()["cex"]) for job, f in
                             (("safety", f_mc), ("liveness", f_live), ("safety, restart", f_mcr), ("liveness, restart", f_liver))
                             if f[o].result()["violation"]]
            graphs = [f.result() for f in f_graph]
            sims = f_sim.result()
        for o in ORDERS:
            if mc[o]["violation"] or live[o]["violation"]:
                notes.append(f"specification with WriterOrder={o}{' (the order the code has)' if o == order else ''}: TLC finds "
                             f"{mc[o]['violation'] or live[o]['violation']} violated")
            elif mcr[o]["violation"] or liver[o]["violation"]:
                what = " and ".join(x for x in (mcr[o]["violation"], liver[o]["violation"]) if x)
                notes.append(f"specification with WriterOrder={o}{' (the order the code has)' if o == order else ''} and a RESTART "
                             f"(MaxRec=2): TLC finds {what} violated (no violation with one recording)")
        work: List[Tuple[List[dict], Tuple[int, int], str]] = []
        gstats = []
        plan_behs: List[List[List[dict]]] = []
        for pl, (behs, st) in zip(plans, graphs):
            st["bound"] = {k2: pl.get(k2, 1) for k2 in ("msgs", "none", "ticks", "pause", "rec", "dts", "i1", "i2")}
            gstats.append(st)
            plan_behs.append(behs)
            work += [(b, (pl["i1"], pl["i2"]), "cover") for b in behs]
        work += [(b, (sim["i1"], sim["i2"]), "simulate") for b in sims]
        # the handshake the code has is UNSAFE in the model: TLC's own counterexamples are executed on the code, once per format pair
        # (the path cover below contains such paths only where the small graphs reach them)
        work += [(b, (30, 0), "counterexample") for _, _, b in cexs for _ in FORMAT_PAIRS]

        lap("tlc_model_checking_and_generation_s")
        # 3. replay on the real code (spec-driven schedules)
        jobs = []
        for i, (b, iv, src) in enumerate(work):
            pairs = [FORMAT_PAIRS[(i + j) % len(FORMAT_PAIRS)] for j in range(1 if q or src == "counterexample" else 3)]
            for j, fm in enumerate(pairs):
                st = sorted(rng.sample(range(len(b)), min(3, len(b)))) if (i + j) % 3 == 0 else None
                jobs.append((0, b, {"fmts": list(fm), "intervals": list(iv), "typemap": "sig" if (i + j) % 4 == 3 else "std",
                                    "stutters": st, "source": src, "naming": NAMINGS[1 if (i + j) % 5 == 4 else 0]}))
        results = _pool_map(_run, jobs)
        for r, (_, b, var) in zip(results, jobs):
            r["behaviour"], r["variant"] = b, var

        lap("replay_spec_driven_s")
        # 3b. code-driven schedules: the recorder scripts of the small graph, EVERY interleaving with the writer (stateless
        #     depth-first enumeration on the real code); random interleavings of the scripts of the simulated behaviours
        scripts = _scripts(plan_behs[0])
        cap = 1500 if q else 40000
        ejobs = [(sc, {"fmts": list(FORMAT_PAIRS[i % 4]), "intervals": [plans[0]["i1"], plans[0]["i2"]], "typemap": "std" if i % 3 else "sig",
                       "stutters": None, "source": "explore", "naming": "file"}, cap) for i, sc in enumerate(scripts)]
        # ... and recorder scripts WITH A RESTART (two starts), taken from the restart graph: a seeded sample, the scripts in
        # which the second recording reaches a flush first (those are the ones in which left-overs of the first can surface)
        rscripts = [sc for sc in _scripts(plan_behs[rplan]) if sum(1 for x in sc if x["a"] == "Start") == 2]
        rng.shuffle(rscripts)
        rscripts.sort(key=lambda sc: not _second_flushes(sc))
        rscripts = rscripts[:RESTART_SCRIPTS[0 if q else 1]]
        scripts += rscripts
        ejobs += [(sc, {"fmts": list(FORMAT_PAIRS[i % len(FORMAT_PAIRS)]), "intervals": [plans[rplan]["i1"], plans[rplan]["i2"]],
                        "typemap": "std" if i % 3 else "sig", "stutters": None, "source": "explore-restart", "naming": NAMINGS[i % 2]},
                   RESTART_CAP[0 if q else 1]) for i, sc in enumerate(rscripts)]
        if not q:   # deeper: a sample of the recorder scripts of the largest graph, interleavings enumerated up to a cap
            deep = _scripts(plan_behs[rplan - 1])
            rng.shuffle(deep)
            ejobs += [(sc, {"fmts": list(FORMAT_PAIRS[i % 4]), "intervals": [plans[rplan - 1]["i1"], plans[rplan - 1]["i2"]], "typemap": "std",
                            "stutters": None, "source": "explore-deep", "naming": "file"}, 2000) for i, sc in enumerate(deep[:40])]
        # the root schedule of every script is run here; each alternative it leaves open is a disjoint subtree = one pool job
        from .. import logger_drv as L
        sub, roots = [], []
        with engine.Quiet():
            for sc, var, cp in ejobs:
                res, alts = L.run_schedule(sc, [], fmts=tuple(var["fmts"]), intervals=tuple(var["intervals"]), typemap=var["typemap"],
                                           naming=var["naming"])
                res["judge"] = L.judge(res)
                res["behaviour"], res["variant"] = res["steps"], var
                roots.append(res)
                sub += [(sc, var, cp, [a]) for a in alts]
        results += roots
        sub.sort(key=lambda j: len(j[3][0]))   # short prefixes = large subtrees first
        explored = _pool_map(_explore, sub, chunksize=1)
        truncated_scripts = set()
        for ex, (sc, var, _, _) in zip(explored, sub):
            if ex["truncated"] and var["source"] in ("explore", "explore-restart"):
                truncated_scripts.add(json.dumps(sc, sort_keys=True))
            for r in ex["runs"]:
                r["behaviour"], r["variant"] = r["steps"], var
                results.append(r)
        truncated = len(truncated_scripts)
        fscripts = _scripts(sims)
        fjobs = []
        for i, sc in enumerate(fscripts):
            for k in range(2 if q else 4):
                fjobs.append((sc, {"fmts": list(FORMAT_PAIRS[(i + k) % len(FORMAT_PAIRS)]), "intervals": [sim["i1"], sim["i2"]],
                                   "typemap": "sig" if (i + k) % 4 == 3 else "std", "stutters": None, "source": "fuzz",
                                   "naming": NAMINGS[(i + k) % 2]},
                              seed * 100003 + i * 17 + k))
        # long waits: a thread that is polling (stop() waiting for the writer, the writer waiting for a request) is scheduled many
        # times in a row before the other one moves - patience must not run out
        for i, sc in enumerate(fscripts[: (12 if q else 80)]):
            fjobs.append((sc, {"fmts": list(FORMAT_PAIRS[i % len(FORMAT_PAIRS)]), "intervals": [sim["i1"], sim["i2"]], "typemap": "std",
                               "stutters": None, "source": "fuzz-long-waits", "naming": NAMINGS[i % 2], "p_stutter": 0.97}, seed * 100003 + 7919 + i))
        fuzzed = _pool_map(_fuzz, fjobs)
        for r, (sc, var, _) in zip(fuzzed, fjobs):
            r["behaviour"], r["variant"] = r["steps"], var
            results.append(r)
        for i, r in enumerate(results):
            r["tid"] = i + 1
        if truncated:
            notes.append(f"exhaustive interleaving enumeration truncated (cap {cap} runs per script, {RESTART_CAP[0 if q else 1]} per subtree of a "
                         f"restart script) for {truncated} of {len(scripts)} recorder scripts")
        orders = sorted({r["order"] for r in results if r["order"] != "unknown"})
        if orders and orders != [order]:
            # the code under test does not show one handshake in all runs (e.g. a call that performs extra synchronisation
            # operations): every run is still validated against the model of the probed handshake - it will diverge there
            notes.append(f"handshake observed per run differs: {orders}; validating against the probed one ({order})")

        lap("code_driven_schedules_s")
        # 4. every run validated by TLC
        verdicts = _validate(d, results, model_order)
        lap("trace_validation_s")
    finally:
        shutil.rmtree(d, ignore_errors=True)
    viol, drift = _assess(results, verdicts)
    if cexs:
        notes.append(f"the handshake the code has ({order}) is UNSAFE in the model: TLC violates " +
                     ", ".join(f"{p} ({job})" for job, p, _ in cexs) + "; the counterexamples were executed on the code")
        if not viol:
            # never let an unsafe handshake pass because the executions happened not to show it: TLC's verdict on the model of the
            # handshake the code was observed to have is reported (the replay file holds the counterexample schedule)
            for job, p, b in cexs:
                sig = f"C17/{TLC_CLAUSE.get(p, p)}/unsafe-handshake:{order}"
                if sig not in {v["signature"] for v in viol}:
                    viol.append({"signature": sig, "replay": {"behaviour": b, "variant": {"fmts": list(FORMAT_PAIRS[0]), "intervals": [30, 0],
                                 "typemap": "std", "stutters": None, "source": "counterexample", "naming": "file"},
                                 "clause": "C17." + TLC_CLAUSE.get(p, p), "tlc_property": p, "tlc_job": job, "writer_order": order,
                                 "note": "model-level verdict: no execution of this run showed a failing clause"}})
    if drift:
        notes.append(f"{len(drift)} run(s) the model could not follow although no C17 clause failed (drift), e.g. tid {drift[:5]}")
    by_src: Dict[str, int] = defaultdict(int)
    by_fmt: Dict[str, int] = defaultdict(int)
    for r in results:
        by_src[r["variant"]["source"]] += 1
        for f in r["variant"]["fmts"]:
            by_fmt[f] += 1
    m = mc[model_order]
    sample_run = results[0]
    mfull = m if m["complete"] else next((mc[o] for o in reversed(ORDERS) if mc[o]["complete"]), m)
    cov = {"states": mfull["states"], "transitions": mfull["transitions"],
           "traces_validated_against_impl": len(results),
           "writer_order_observed_on_code": order, "handshake_safe_in_model": not cexs,
           "tlc_counterexamples_executed_on_code": len(cexs), "elapsed_time_carried_over_restart_on_code": carried, "model_check_by_writer_order": mc, "liveness_by_writer_order": live,
           "model_check_restart_by_writer_order": mcr, "liveness_restart_by_writer_order": liver, "restart_bound": rbound,
           "runs_with_restart": sum(1 for r in results if len(r["files"]) > 1),
           "runs_with_flush_in_second_recording": sum(1 for r in results if any(e["th"] == "W" and e["op"] == "wait" and e["res"] and e["rec"] > 1
                                                                                for e in r["ev"])),
           "runs_with_update_between_recordings": sum(1 for r in results if _between(r["ev"])),
           "restart_scripts_explored": len(rscripts),
           "state_graphs_covered": gstats, "runs_by_source": dict(by_src), "runs_by_formatter": dict(by_fmt),
           "scripts_explored_exhaustively": len(scripts) - truncated, "scripts_explored_truncated": truncated, "scripts_fuzzed": len(fscripts),
           "runs_with_subdivision": sum(1 for r in results if any(len(f) > 1 for rf in r["files"] for f in rf.values())),
           "runs_with_pause": sum(1 for r in results if any(e["a"] == "Pause" for e in r["ev"])),
           "runs_with_busy_flush": sum(1 for r in results if any(e["th"] == "R" and e["op"] == "is_set" and e["ret"] for e in r["ev"])),
           "runs_stop_waited": sum(1 for r in results if any(e["th"] == "R" and e["op"] == "wait" and not e["res"] for e in r["ev"])),
           "sync_steps_validated": sum(len(r["ev"]) - 1 for r in results), "drift_runs": len(drift),
           "runs_with_failing_clause": len({r["tid"] for r in results if r["judge"]["clauses"]}),
           "runs_by_violation_signature": {x["signature"]: x["replay"]["runs_with_this_signature"] for x in viol},
           "samples": [{"behaviour": sample_run["behaviour"], "variant": sample_run["variant"], "files": sample_run["files"]},
                       {"trace_events": sample_run["ev"][-4:]}],
           "phase_wall_s": phases, "exhaustive": False,
           "explanation": "DataLogger.tla model checked for the three handshakes (states/transitions = the complete run: of the "
                          "handshake the code has if it is safe, otherwise of a safe one; see model_check_by_writer_order). Executed on the "
                          "real DataCollection with BatonEvent/BatonThread/virtual clock: (cover) a path cover of every transition of the "
                          "complete state graphs of the small bounds, (simulate) TLC -simulate behaviours of a larger bound, (explore) EVERY "
                          "interleaving of recorder and writer for each recorder script of the smallest graph, enumerated on the code itself, "
                          "(fuzz) random interleavings of the simulated scripts. RESTART: model checked with MaxRec=2 on restart_bound "
                          "(model_check_restart_by_writer_order), the restart graph is one of the covered graphs, restart scripts are "
                          "enumerated on the code (explore-restart), the simulated bound allows two recordings. Files of each recording read "
                          "back separately per formatter with the package's readers and judged against the arrivals of that recording; "
                          "each run's synchronisation trace and files validated by TLC (DataLogger_Trace)"}
    return {"level": "model_checking", "coverage": cov, "violations": viol, "notes": notes,
            "assumptions": ["interleaving granularity = synchronisation operations (Event.set/clear/is_set/wait, Thread.join) plus one "
                            "scheduling point before every DataSet.write() of the writer; code between two such points of a thread is atomic", "a wait(timeout) that is scheduled while its event is down returns False; "
                            "timeouts do not advance the virtual clock", "at most two recordings per collection (start .. stop, start .. stop, close), the "
                            "metadata key the names depend on is changed before every start; messages handed over while paused or between "
                            "two recordings are not required in the files (and reported as drift if present)",
                            "d1 selects one message type, d2 selects ALL_MESSAGE_TYPES; core message definitions with 0/4/24/32 payload bytes",
                            "msg_header (.csv) files are read back with a line parser (the package has no reader for them)"]}


def replay(path: str) -> Dict[str, Any]:
    rp = json.load(open(path))
    EACC_RESET[0] = "FALSE" if _pool_map(_probe, [None])[0][1] else "TRUE"
    res = _pool_map(_run, [(1, rp["behaviour"], rp["variant"])])[0]
    res["behaviour"], res["variant"] = rp["behaviour"], rp["variant"]
    d = tempfile.mkdtemp(prefix="c17_")
    try:
        order = res["order"] if res["order"] in ORDERS else ORDERS[0]
        verdicts = _validate(d, [res], order)
    finally:
        shutil.rmtree(d, ignore_errors=True)
    engine.say(f"replay: writer order {res['order']}, files {res['files']}, expected {_expected(res)}, unreadable {res['unread']}, "
               f"verdict {verdicts[1]}")
    viol, drift = _assess([res], verdicts)
    return {"level": "model_checking", "coverage": {}, "violations": [v for v in viol if v["signature"] == rp["signature"]] or viol,
            "notes": ["drift on replay"] if drift else []}


# ------------------------------------------------------------------------------------------------------------------
# the control side (spec/LoggerCtl.tla, vf/props/c17ctl.py): whole DataLogger.run() behaviours - recordings started, paused,
# resumed, stopped, restarted, ended by errors / reset / exit - judged on the files of every recording
# ------------------------------------------------------------------------------------------------------------------
_run17 = run
_replay17 = replay


def run(tier: str, seed: int) -> Dict[str, Any]:  # noqa: F811
    from . import c17ctl
    res = _run17(tier, seed)
    ctl = c17ctl.run_ctl(tier, seed)
    seen = set()
    for sig, detail, beh in ctl["violations"]:
        if sig not in seen:
            seen.add(sig)
            res["violations"].append({"signature": sig, "replay": {"kind": "ctl", "behaviour": beh, "detail": detail}})
    cov = res["coverage"]
    cov["states"] = cov.get("states", 0) + (ctl["mc"].get("distinct") or 0)
    cov["transitions"] = cov.get("transitions", 0) + (ctl["mc"].get("states") or 0)
    cov["traces_validated_against_impl"] = cov.get("traces_validated_against_impl", 0) + ctl["behaviours"]
    cov["logger_control_behaviours_replayed"] = ctl["behaviours"]
    cov["explanation"] = cov.get("explanation", "") + ("; LoggerCtl.tla (control state machine of DataLogger.run(): start / stop / pause / resume / reset / "
                                                        "reconfiguration / error path / exit) model checked and its behaviours replayed on the real DataLogger with "
                                                        "real collections and files: the files of every recording hold exactly the messages delivered while recording")
    if ctl["drift"]:
        kinds = sorted({s for s, _, _ in ctl["drift"]})
        res["notes"].append(f"logger control protocol (LoggerCtl.tla, outside the listed properties): {len(ctl['drift'])} difference(s): {kinds[:6]}")
    return res


def replay(path: str) -> Dict[str, Any]:  # noqa: F811
    rp = json.load(open(path))
    if rp.get("kind") == "ctl":
        from .. import loggerctl_drv as drv
        with engine.Quiet():
            r = drv.replay(rp["behaviour"])
        for sig, detail in r["verdicts"]:
            engine.say(f"replay: {sig}: {detail[:300]}")
        return {"level": "model_checking", "coverage": {}, "violations": [{"signature": s, "replay": rp} for s, _ in r["verdicts"] if s.startswith("C17/")]}
    return _replay17(path)
