from . import hubprops
from .. import scenarios

hubprops.PLAN["C07"] = [
    {"fam": "repo-tests", "scen": "repo-tests", "num_q": 0, "num_t": 0},
    {"fam": "Identity", "num_q": 40, "num_t": 600, "depth": 100},
    {"fam": "Routing", "num_q": 50, "num_t": 600, "depth": 80},
    {"fam": "Failures", "num_q": 60, "num_t": 600, "depth": 80},
    {"fam": "leave-and-reuse", "scen": scenarios.leave_and_reuse, "num_q": 0, "num_t": 0, "prof_q": 2, "prof_t": 6},
    {"fam": "routing-edges", "scen": scenarios.routing_edges, "num_q": 0, "num_t": 0, "prof_q": 2, "prof_t": 4},
    {"fam": "departure-with-logging", "scen": scenarios.departure_with_logging, "num_q": 0, "num_t": 0, "prof_q": 2, "prof_t": 4, "log_level": 20, "force_log": True},
    {"fam": "death-during-manager-msg", "scen": scenarios.death_during_manager_msg, "num_q": 0, "num_t": 0, "prof_q": 3, "prof_t": 8},
]


def run(tier, seed):
    return hubprops.run("C07", tier, seed)


def replay(path):
    return hubprops.replay("C07", path)
