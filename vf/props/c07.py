from . import hubprops

hubprops.PLAN["C07"] = [{"fam": "Identity", "num_q": 60, "num_t": 600, "depth": 100},
                       {"fam": "Routing", "num_q": 30, "num_t": 300, "depth": 80}]


def run(tier, seed):
    return hubprops.run("C07", tier, seed)


def replay(path):
    return hubprops.replay("C07", path)
