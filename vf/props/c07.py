from . import hubprops
from .. import scenarios

hubprops.PLAN["C07"] = [
    {"fam": "Identity", "num_q": 40, "num_t": 600, "depth": 100},
    {"fam": "Routing", "num_q": 40, "num_t": 400, "depth": 80},
    {"fam": "leave-and-reuse", "scen": scenarios.leave_and_reuse, "num_q": 0, "num_t": 0, "prof_q": 2, "prof_t": 6},
]


def run(tier, seed):
    return hubprops.run("C07", tier, seed)


def replay(path):
    return hubprops.replay("C07", path)
