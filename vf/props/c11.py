"""C11 -- accepted layouts are naturally aligned with only explicit padding.

TLC checks the layout theorems of spec/Layout.tla for EVERY field sequence over the kind alphabet
(native widths x array shapes, nested structs of alignment 1/2/4/8 as scalars and array elements)
up to the length bound and exports each sequence with its expected padded layout.  Every exported
sequence is written as a YAML definition, parsed by the REAL parser (auto_pad on: padded field
list, offsets, size, alignment must equal the specification's; auto_pad off: accepted exactly when
no padding is needed), the accepted layouts are compiled to C and checked with gcc
(_Static_assert on sizeof / offsetof / _Alignof).
"""
from __future__ import annotations

import json
import os
import random
import shutil
import subprocess
import tempfile
import time
from typing import Any, Dict, List, Tuple

from .. import engine, tlc, defs

PRELUDE = {
    "S1": {"a": "char", "b": "char[2]"},
    "S2": {"a": "int16", "b": "char[2]", "c": "int16"},
    "S4": {"a": "int32", "b": "int16", "c": "char[2]", "d": "float"},
    "S8": {"a": "double", "b": "int32", "c": "int16", "d": "char[2]"},
    "R1": "S1", "R2": "S2", "R4": "S4", "R8": "S8",          # field-list reuse of the structs above
}
STRUCT_ALIGN = {"S1": 1, "S2": 2, "S4": 4, "S8": 8}

CFG = """SPECIFICATION Spec
CONSTANTS
  Kinds <- {kinds}
  MaxLen = {maxlen}
  Export = {export}
{inv}
CHECK_DEADLOCK FALSE
"""
INV = "\n".join("INVARIANT " + i for i in ("Natural", "OnlyCharPadding", "UserFieldsPreserved", "Minimal", "NoPadIffAccepted"))


def _cfg(d, name, **kw):
    p = os.path.join(d, name)
    open(p, "w").write(CFG.format(**kw))
    return p


def type_of(kind: dict, salt: int) -> Tuple[str, int]:
    """YAML type text for a kind"""
    if kind["k"] in ("nat", "pad"):
        names = defs.BY_WIDTH[kind["s"]]
        base = "char" if kind["k"] == "pad" else names[salt % len(names)]
    else:
        base = kind["k"] if salt % 2 == 0 else "R" + kind["k"][1:]
    return base, kind["n"]


def field_text(kind: dict, salt: int) -> str:
    base, n = type_of(kind, salt)
    return base if n == 0 else f"{base}[{n}]"


def expected_fields(case: dict, salt: int) -> List[dict]:
    out = []
    ui = 0
    for e in case["lay"]:
        if e["pad"]:
            out.append({"pad": True, "count": e["f"]["n"], "offset": e["off"]})
        else:
            base, n = type_of(case["fs"][ui], salt + ui)
            out.append({"pad": False, "name": f"f{ui}", "type": base, "count": n, "offset": e["off"], "size": e["f"]["s"] * max(1, e["f"]["n"])})
            ui += 1
    return out


def compare(name: str, d: dict, case: dict, salt: int) -> List[str]:
    """d: parser signature entry. returns clause names"""
    bad = []
    exp = expected_fields(case, salt)
    got = d["fields"]
    ug = [f for f in got if not f["name"].startswith("padding_")]
    ue = [e for e in exp if not e["pad"]]
    if [(f["name"], f["type"], f["count"]) for f in ug] != [(e["name"], e["type"], e["count"]) for e in ue]:
        bad.append("C11.UserFieldChanged")
    if d["size"] != case["size"]:
        bad.append("C11.SizeNotSum" if sum(f["size"] for f in got) != d["size"] else "C11.HiddenPadding")
    # padding entries: position, amount, char typed
    pg = [(i, f) for i, f in enumerate(got) if f["name"].startswith("padding_")]
    for _, f in pg:
        if f["type"] != "char" or f["native"] != "char":
            bad.append("C11.NonCharPadding")
    if len(got) == len(exp):
        for f, e in zip(got, exp):
            if e["pad"] != f["name"].startswith("padding_"):
                bad.append("C11.HiddenPadding")
                break
            if e["pad"] and max(1, f["count"]) != e["count"]:
                bad.append("C11.HiddenPadding")
                break
            if f["offset"] not in (-1, e["offset"]):
                bad.append("C11.Misaligned")
                break
    else:
        bad.append("C11.HiddenPadding")
    if d["align"] != case["align"]:
        bad.append("C11.Misaligned")
    return sorted(set(bad))


def batch_yaml(cases: List[dict], base_idx: int, as_messages: bool) -> Dict[str, Any]:
    f: Dict[str, Any] = {"struct_defs": dict(PRELUDE)}
    tgt: Dict[str, Any] = {}
    for j, c in enumerate(cases):
        name = f"D{base_idx + j}"
        fields = {f"f{i}": field_text(k, base_idx + j + i) for i, k in enumerate(c["fs"])}
        if as_messages:
            tgt[name] = {"id": 100 + j, "fields": fields}
        else:
            f["struct_defs"][name] = fields
    if as_messages:
        f["message_defs"] = tgt
    return f


def gcc_check(p, names: List[str], sigs: Dict[str, dict], d: str) -> List[str]:
    """compile the generated header and assert the parser's model with the C compiler"""
    from pyrtma.compilers.c99 import CDefCompiler
    import pathlib
    with defs.Silence():
        CDefCompiler(p, filename="lay", debug=False).generate(pathlib.Path(d) / "lay.h")
    lines = ['#include <stddef.h>', '#include "lay.h"']
    for n in names:
        s = sigs[n]
        cname = n
        lines.append(f'_Static_assert(sizeof({cname}) == {s["size"]}, "size {n}");')
        lines.append(f'_Static_assert(_Alignof({cname}) == {s["align"]}, "align {n}");')
        off = 0
        for f in s["fields"]:
            lines.append(f'_Static_assert(offsetof({cname}, {f["name"]}) == {off}, "off {n}.{f["name"]}");')
            off += f["size"]
    lines.append("int main(void){return 0;}")
    open(os.path.join(d, "probe.c"), "w").write("\n".join(lines))
    r = subprocess.run(["gcc", "-std=c11", "-fsyntax-only", "probe.c"], cwd=d, capture_output=True, text=True, timeout=300)
    bad = []
    if r.returncode != 0:
        for line in r.stderr.splitlines():
            if "static assertion failed" in line:
                bad.append(line.split("static assertion failed:")[-1].strip().strip('"'))
        if not bad:
            bad.append("gcc: " + r.stderr[-300:])
    return bad


def run(tier: str, seed: int) -> Dict[str, Any]:
    q = tier == "quick"
    rnd = random.Random(seed)
    d = tempfile.mkdtemp(prefix="c11_")
    viol: List[dict] = []
    try:
        mc = engine.model_check("MC_Layout", _cfg(d, "mc.cfg", kinds="MCKinds", maxlen=3, export="FALSE", inv=INV), timeout=900)
        if mc["violation"]:
            raise tlc.TlcError("Layout theorem violated: " + mc["violation"] + mc["out"][-2000:])
        mcb = engine.model_check("MC_Layout", _cfg(d, "mcb.cfg", kinds="BigKinds", maxlen=3, export="FALSE", inv=INV), timeout=900)
        if mcb["violation"]:
            raise tlc.TlcError("Layout theorem violated (big): " + mcb["violation"])
        cases: List[dict] = []
        for kinds, maxlen in (("MCKinds", 3), ("BigKinds", 3 if not q else 2)):
            r = tlc.run_tlc("MC_Layout", _cfg(d, f"ex_{kinds}.cfg", kinds=kinds, maxlen=maxlen, export="TRUE", inv="INVARIANT ExportInv"),
                            workers=4, timeout=900)
            if r["error"]:
                raise tlc.TlcError("export failed: " + str(r["error"]))
            got = tlc.behaviours(r["out"], tag="LAY ")
            for c in got:
                c["big"] = kinds == "BigKinds"
            cases += got
        small = [c for c in cases if not c["big"]]
        big = [c for c in cases if c["big"]]
        if q:
            sample = [c for c in small if len(c["fs"]) <= 2] + rnd.sample([c for c in small if len(c["fs"]) == 3], 3500)
        else:
            sample = small
        # ---- auto_pad on: whole batches -------------------------------------------------
        nparsed = 0
        nbatches = 0
        ngcc = 0
        B = 400
        for bi in range(0, len(sample), B):
            chunk = sample[bi: bi + B]
            as_msg = (bi // B) % 3 == 2
            path = os.path.join(d, f"b{bi}.yaml")
            defs.write_prog({f"b{bi}.yaml": batch_yaml(chunk, bi, as_msg)}, d)
            p, err = defs.parse(path, auto_pad=True, import_coredefs=False)
            nbatches += 1
            if err is not None:
                viol.append({"signature": f"C11/AcceptRejectBoundary/batch-rejected:{type(err).__name__}",
                             "replay": {"kind": "batch", "error": repr(err)[:500], "yaml": open(path).read()[:3000]}})
                continue
            sig = defs.parser_signature(p)
            table = sig["messages"] if as_msg else sig["structs"]
            for j, c in enumerate(chunk):
                name = f"D{bi + j}"
                nparsed += 1
                if c["auto"] != "ok":
                    continue
                bad = compare(name, table[name], c, bi + j)
                for cl in bad:
                    viol.append({"signature": f"{cl.replace('.', '/')}/len{len(c['fs'])}:{'nested' if any(k['k'] not in ('nat',) for k in c['fs']) else 'native'}",
                                 "replay": {"kind": "layout", "fs": c["fs"], "expected": c["lay"], "size": c["size"], "align": c["align"],
                                            "got": table[name], "yaml_fields": {f"f{i}": field_text(k, bi + j + i) for i, k in enumerate(c["fs"])}}})
            # gcc on some batches
            if (bi // B) % (2 if q else 1) == 0 and ngcc < (6 if q else 60):
                names = [f"D{bi + j}" for j in range(len(chunk))]
                gd = tempfile.mkdtemp(prefix="gcc_", dir=d)
                cn = {n: table[n] for n in names}
                cnames = {n: (("MDF_" + n) if as_msg else n) for n in names}
                bad = gcc_check(p, names if not as_msg else [], cn, gd) if not as_msg else []
                ngcc += 1 if not as_msg else 0
                for b in bad[:5]:
                    viol.append({"signature": "C11/HiddenPadding/gcc-disagrees", "replay": {"kind": "gcc", "assert": b}})
        # ---- size limit family (one definition per file: rejection expected) ----------------
        nbig = 0
        for j, c in enumerate(big):
            for auto in (True, False):
                path = os.path.join(d, f"big{j}_{int(auto)}.yaml")
                defs.write_prog({os.path.basename(path): batch_yaml([c], 0, j % 2 == 0)}, d)
                p, err = defs.parse(path, auto_pad=auto, import_coredefs=False)
                nbig += 1
                exp = c["auto"] if auto else c["noauto"]
                got = "ok" if err is None else type(err).__name__
                both = (not auto) and c["npad"] > 0 and c["size"] > 65535     # two reasons to refuse: either class is fine
                if both and got in ("AlignmentError", "InvalidMessageSize"):
                    continue
                if got != exp:
                    cl = "SizeLimit" if "InvalidMessageSize" in (got, exp) else "AcceptRejectBoundary"
                    viol.append({"signature": f"C11/{cl}/expected:{exp}:got:{got}:auto_pad={auto}",
                                 "replay": {"kind": "big", "fs": c["fs"], "auto_pad": auto, "expected": exp, "got": got, "size": c["size"]}})
                os.remove(path)
        # ---- auto_pad off: accept exactly when no padding is needed ----------------------------
        off_sample = rnd.sample(small, 1500 if q else min(len(small), 12000))
        noff = 0
        for j, c in enumerate(off_sample):
            path = os.path.join(d, f"off{j}.yaml")
            defs.write_prog({os.path.basename(path): batch_yaml([c], 7 + j, j % 2 == 0)}, d)
            p, err = defs.parse(path, auto_pad=False, import_coredefs=False)
            noff += 1
            exp = c["noauto"]
            got = "ok" if err is None else type(err).__name__
            if got != exp:
                viol.append({"signature": f"C11/AcceptRejectBoundary/expected:{exp}:got:{got}",
                             "replay": {"kind": "noauto", "fs": c["fs"], "expected": exp, "got": got, "error": repr(err)[:300],
                                        "yaml_fields": {f"f{i}": field_text(k, 7 + j + i) for i, k in enumerate(c["fs"])}}})
            os.remove(path)
        # ---- parsers with different options alive at the same time: each keeps its own options ----------------
        nco = 0
        for j, c in enumerate(rnd.sample(small, 300 if q else 3000)):
            path = os.path.join(d, f"co{j}.yaml")
            defs.write_prog({os.path.basename(path): batch_yaml([c], 11 + j, j % 2 == 0)}, d)
            older_strict = j % 2 == 0
            older = defs.make_parser(auto_pad=not older_strict)
            younger = defs.make_parser(auto_pad=older_strict)          # created later, with the opposite option
            p, err = defs.parse_on(older, path)
            nco += 1
            exp = c["noauto"] if older_strict else c["auto"]
            got = "ok" if err is None else type(err).__name__
            if got != exp:
                viol.append({"signature": f"C11/AcceptRejectBoundary/two-parsers:expected:{exp}:got:{got}:auto_pad={not older_strict}",
                             "replay": {"kind": "coexist", "fs": c["fs"], "expected": exp, "got": got, "older_auto_pad": not older_strict}})
            elif err is None and older_strict:
                sig = defs.parser_signature(p)
                ent = (sig["messages"] if j % 2 == 0 else sig["structs"]).get(f"D{11 + j}")
                if ent is not None and any(f["name"].startswith("padding_") for f in ent["fields"]):
                    viol.append({"signature": "C11/HiddenPadding/two-parsers:padding-inserted-with-auto_pad-off",
                                 "replay": {"kind": "coexist", "fs": c["fs"], "got": ent}})
            del younger
            os.remove(path)
    finally:
        shutil.rmtree(d, ignore_errors=True)
    cov = {"states": mc.get("distinct", 0) + mcb.get("distinct", 0), "transitions": mc.get("states", 0) + mcb.get("states", 0),
           "traces_validated_against_impl": nparsed + noff + nbig + nco, "parsed_with_two_parsers_alive": nco,
           "sequences_enumerated_by_tlc": len(cases), "parsed_auto_pad_on": nparsed, "parsed_auto_pad_off": noff, "size_limit_cases": nbig,
           "gcc_batches": ngcc, "exhaustive": not q,
           "samples": [{"field_sequence": sample[len(sample) // 2]["fs"], "expected_layout": sample[len(sample) // 2]["lay"]}],
           "explanation": "TLC checks Natural/OnlyCharPadding/UserFieldsPreserved/Minimal/NoPadIffAccepted for every sequence and exports "
                          "the expected layout; the real parser is run on each exported sequence (one implementation test per spec state)"}
    return {"level": "model_checking", "coverage": cov, "violations": viol, "notes": [],
            "assumptions": ["gcc 12 x86-64 natural alignment is the reference C layout", "kind alphabet: widths 1/2/4/8 x {scalar,[1],[2],[3],[5]}, structs S1/S2/S4/S8 (+reuse) scalar and arrays"]}


def replay(path: str) -> Dict[str, Any]:
    rp = json.load(open(path))
    res = run("quick", 0)
    v = [x for x in res["violations"] if x["signature"] == rp["signature"]]
    engine.say(f"replay: signature {'reproduced' if v else 'not reproduced'}")
    return {"level": "model_checking", "coverage": {}, "violations": v[:1]}
