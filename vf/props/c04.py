"""C04 -- all language outputs of the compiler describe the same wire format.

TLC enumerates programs of spec/Defs.tla (every native type name in every role: scalar, array with a
literal / constant-expression length, through aliases of aliases, inside nested structs and struct
arrays, with auto padding, field-list reuse, a signal, reserved ids, across an import) and computes the
expected Signature from its own native-type table and LayoutOps!Pad.  The real compiler produces the
Python, C, JavaScript and MATLAB outputs; each is LOADED in its language (ctypes import, gcc-built
probe, node, an interpreter of the .m assignments) and its signature is compared with the spec's.
"""
from __future__ import annotations

import json
from typing import Any, Dict, List

from .. import engine, defprog


def run(tier: str, seed: int) -> Dict[str, Any]:
    mc, progs = defprog.export_programs(tier)
    with engine.Quiet():
        results = defprog.run_all(progs, {"determinism": False})
    viol: List[dict] = []
    ncmp = 0
    for res, prog in zip(results, progs):
        p = res["p"]
        if "harness_error" in res:
            raise RuntimeError(res["harness_error"])
        if "parse_error" in res or "compile_error" in res:
            viol.append({"signature": f"C04/CompilerRejected/{(res.get('parse_error') or res.get('compile_error')).split(':')[0]}",
                         "replay": {"params": p, "error": res.get("parse_error") or res.get("compile_error")}})
            continue
        for lang, key in (("python", "python_err"), ("c", "c_err"), ("javascript", "js_err")):
            k = "js" if lang == "javascript" else lang
            if res.get(k) is None:
                viol.append({"signature": f"C04/OutputDoesNotLoad/{lang}", "replay": {"params": p, "error": (res.get(key) or "")[-600:]}})
        bad = defprog.compare_language(res, prog["sig"])
        ncmp += 1
        seen = set()
        for clause, detail in bad:
            names = sorted({p[k] for k in ("n1", "n2", "n3", "n4")})
            sig = f"C04/{clause}"
            if sig in seen:
                continue
            seen.add(sig)
            viol.append({"signature": sig, "replay": {"params": p, "detail": detail, "all": [f"{c}: {d}" for c, d in bad][:12]}})
    cov = {"programs": len(progs), "disagreements_checked": ncmp * 5,
           "states": mc.get("distinct", 0), "tlc_invariants": ["AllNatural", "NativeSane"],
           "languages": ["parser model", "python (ctypes import)", "c (gcc probe: sizeof/offsetof/_Alignof/_Generic)", "javascript (node)", "matlab (assignment interpreter)"],
           "samples": [{"params": progs[0]["p"], "expected_MSG_A": progs[0]["sig"]["defs"]["MSG_A"]}],
           "exhaustive": False,
           "explanation": "every exported program is compiled by the real compiler; each output is loaded in its language and compared "
                          "with the Signature computed by TLC from Defs.tla's own native type table"}
    return {"level": "translation_validation", "coverage": cov, "violations": viol, "notes": [],
            "assumptions": ["gcc 12 x86-64 is the reference C ABI", "MATLAB output is interpreted structurally (no MATLAB available)",
                            "program family: Defs.tla skeleton; each native name visits each role through fixed rotations"]}


def replay(path: str) -> Dict[str, Any]:
    rp = json.load(open(path))
    res = run("quick", 0)
    v = [x for x in res["violations"] if x["signature"] == rp["signature"]]
    engine.say(f"replay: {'reproduced' if v else 'not reproduced'}")
    return {"level": "translation_validation", "coverage": {}, "violations": v[:1]}
