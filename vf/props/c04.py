"""C04 -- all language outputs of the compiler describe the same wire format.

TLC enumerates programs of spec/Defs.tla (every native type name in every role: scalar, array with a
literal / constant-expression length, through aliases of aliases, inside nested structs and struct
arrays, with auto padding, field-list reuse, a signal, reserved ids, across an import) and computes the
expected Signature from its own native-type table and LayoutOps!Pad.  The real compiler produces the
Python, C, JavaScript and MATLAB outputs; each is LOADED in its language (ctypes import, gcc-built
probe, node, an interpreter of the .m assignments) and its signature is compared with the spec's.
"""
from __future__ import annotations

import json
import os
from typing import Any, Dict, List

from .. import engine, defprog, defs


KIND_SWAP = r"""
import sys, os, json
sys.path.insert(0, os.environ.get("VF_REPO", "/repo") + "/src"); sys.path.insert(0, "/verif")
from vf import defs
order = json.loads(sys.argv[1])
out = {}
for tag, root, o in order:
    e = defs.compile_all(root, o, "gen", import_coredefs=False, langs=("python", "c"))
    if e is not None:
        print("ERR", tag, repr(e)); sys.exit(3)
"""


def kind_swap(d: str) -> List[dict]:
    """one user type name means different KINDS of thing in closures compiled one after the other by one process (an alias of a
    native type, then a struct, then a message ...): each closure's Python classes have the layout of ITS definitions"""
    import subprocess
    import itertools
    viol = []
    kinds = {
        "alias": {"aliases": {"SWAP_T": "double"}, "message_defs": {"USER": {"id": 1500, "fields": {"t": "SWAP_T", "h": "SWAP_T[3]", "n": "int32"}}}},
        "alias32": {"aliases": {"SWAP_T": "float"}, "message_defs": {"USER": {"id": 1500, "fields": {"t": "SWAP_T", "h": "SWAP_T[3]", "n": "int32"}}}},
        "struct": {"struct_defs": {"SWAP_T": {"a": "int32", "b": "int32", "c": "int64"}},
                   "message_defs": {"USER": {"id": 1500, "fields": {"t": "SWAP_T", "h": "SWAP_T[3]", "n": "int32"}}}},
        "message": {"message_defs": {"SWAP_T": {"id": 1499, "fields": {"a": "int16", "b": "int16"}},
                                     "USER": {"id": 1500, "fields": {"t": "SWAP_T", "h": "SWAP_T[3]", "n": "int32"}}}},
    }
    roots = {}
    for k, f in kinds.items():
        r = os.path.join(d, "swap", k)
        defs.write_prog({"root.yaml": f}, r)
        roots[k] = os.path.join(r, "root.yaml")
    for first, second in itertools.permutations(kinds, 2):
        o1, o2 = os.path.join(d, "swap", f"o_{first}_{second}_1"), os.path.join(d, "swap", f"o_{first}_{second}_2")
        r = subprocess.run(["/venv/bin/python", "-c", KIND_SWAP, json.dumps([[first, roots[first], o1], [second, roots[second], o2]])],
                           capture_output=True, text=True, timeout=600, env=dict(os.environ, PYTHONHASHSEED="0"))
        if r.returncode != 0:
            viol.append({"signature": "C04/CompilerRejected/second-closure-in-one-process", "replay": {"first": first, "second": second, "out": (r.stdout + r.stderr)[-500:]}})
            continue
        p, err = defs.parse(roots[second], import_coredefs=False)
        psig = defs.parser_signature(p)
        py, perr = defs.sig_python(os.path.join(o2, "gen.py"))
        if py is None:
            viol.append({"signature": "C04/OutputDoesNotLoad/python:after-earlier-compile", "replay": {"first": first, "second": second, "error": perr[-400:]}})
            continue
        for name, ent in psig["messages"].items():
            got = (py.get("messages") or {}).get(name)
            same = got is not None and got.get("size") == ent["size"] and len(got.get("fields", [])) == len(ent["fields"]) and all(
                e["offset"] in (-1, g.get("offset")) and e["size"] == g.get("size") for e, g in zip(ent["fields"], got.get("fields", [])))
            if not same:
                viol.append({"signature": "C04/SizeOrOffset:python:name-changed-kind-between-compiles",
                             "replay": {"first": first, "second": second, "message": name, "parser": ent, "python": got}})
    return viol


def run(tier: str, seed: int) -> Dict[str, Any]:
    mc, progs = defprog.export_programs(tier)
    with engine.Quiet():
        results = defprog.run_all(progs, {"determinism": False})
    viol: List[dict] = []
    ncmp = 0
    for res, prog in zip(results, progs):
        p = res["p"]
        if "harness_error" in res:
            raise RuntimeError(res["harness_error"])
        if "parse_error" in res or "compile_error" in res:
            viol.append({"signature": f"C04/CompilerRejected/{(res.get('parse_error') or res.get('compile_error')).split(':')[0]}",
                         "replay": {"params": p, "error": res.get("parse_error") or res.get("compile_error")}})
            continue
        for lang, key in (("python", "python_err"), ("c", "c_err"), ("javascript", "js_err")):
            k = "js" if lang == "javascript" else lang
            if res.get(k) is None:
                viol.append({"signature": f"C04/OutputDoesNotLoad/{lang}", "replay": {"params": p, "error": (res.get(key) or "")[-600:]}})
        bad = defprog.compare_language(res, prog["sig"])
        ncmp += 1
        seen = set()
        for clause, detail in bad:
            names = sorted({p[k] for k in ("n1", "n2", "n3", "n4")})
            sig = f"C04/{clause}"
            if sig in seen:
                continue
            seen.add(sig)
            viol.append({"signature": sig, "replay": {"params": p, "detail": detail, "all": [f"{c}: {d}" for c, d in bad][:12]}})
    import tempfile, shutil
    kd = tempfile.mkdtemp(prefix="c04_")
    try:
        with engine.Quiet():
            viol += kind_swap(kd)
    finally:
        shutil.rmtree(kd, ignore_errors=True)
    cov = {"programs": len(progs), "disagreements_checked": ncmp * 5,
           "states": mc.get("distinct", 0), "tlc_invariants": ["AllNatural", "NativeSane"],
           "languages": ["parser model", "python (ctypes import)", "c (gcc probe: sizeof/offsetof/_Alignof/_Generic)", "javascript (node)", "matlab (assignment interpreter)"],
           "samples": [{"params": progs[0]["p"], "expected_MSG_A": progs[0]["sig"]["defs"]["MSG_A"]}],
           "exhaustive": False,
           "explanation": "every exported program is compiled by the real compiler; each output is loaded in its language and compared "
                          "with the Signature computed by TLC from Defs.tla's own native type table"}
    return {"level": "translation_validation", "coverage": cov, "violations": viol, "notes": [],
            "assumptions": ["gcc 12 x86-64 is the reference C ABI", "MATLAB output is interpreted structurally (no MATLAB available)",
                            "program family: Defs.tla skeleton; each native name visits each role through fixed rotations"]}


def replay(path: str) -> Dict[str, Any]:
    rp = json.load(open(path))
    res = run("quick", 0)
    v = [x for x in res["violations"] if x["signature"] == rp["signature"]]
    engine.say(f"replay: {'reproduced' if v else 'not reproduced'}")
    return {"level": "translation_validation", "coverage": {}, "violations": v[:1]}
