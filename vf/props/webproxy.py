"""webproxy -- specification growth: the websocket proxy (pyrtma/web_manager.py, RTMAWebSocketHandler).

  1. spec/WebProxy.tla is model checked exhaustively (WebProxy.cfg): proxy-side and manager-side subscription sets
     agree, every websocket input has at most one and exactly the documented reply, delivery to the websocket is
     exactly once and in order when it is writable and reported by exactly one FAILED_MESSAGE naming the proxy when
     it is not, forwarded messages keep the source the web client gave, DISCONNECT ends the loop, no wedged handler.
  2. TLC exports behaviours of the same module (WebProxy_Gen.cfg, -simulate).
  3. every behaviour is replayed on the REAL handler (vf/webdrv.py): real handle() loop, real websocket framing, the
     proxy Client talking to a real MessageManager over vio, a second real Client publishing.

`run_web(tier, seed)` returns {"mc", "behaviours", "violations": [(signature, detail, behaviour)], "per_action_counts", ...}.
"""
from __future__ import annotations

import os
import shutil
import tempfile
import time
from typing import Any, Dict, List, Tuple

from .. import engine, tlc

NUM = {"quick": 1500, "thorough": 12000}     # -simulate num per TLC worker; distinct behaviours are kept
QUICK_MAXMSGS = 6                             # WebProxy.cfg (MaxMsgs = 7, ~1 min) is used as it is by the thorough tier


def _replay_chunk(args) -> Tuple[List[tuple], Dict[str, int], int]:
    chunk, seed = args
    from .. import webdrv
    out: List[tuple] = []
    counts: Dict[str, int] = {}
    steps = 0
    for idx, beh in chunk:
        v, c = webdrv.replay(beh, salt=seed + idx, merge=bool(idx % 2))
        for sig, detail in v:
            out.append((sig, detail, idx))
        for k, x in c.items():
            counts[k] = counts.get(k, 0) + x
        steps += sum(c.values())
    return out, counts, steps


def replay_all(behs: List[list], seed: int, jobs: int = 12):
    import multiprocessing as mp
    work = list(enumerate(behs))
    with engine.Quiet():
        if len(work) < 60:
            res = [_replay_chunk((work, seed))]
        else:
            n = min(jobs, max(1, len(work) // 25))
            chunks = [(work[i::n], seed) for i in range(n)]
            ctx = mp.get_context("fork")
            with ctx.Pool(n) as pool:
                res = pool.map(_replay_chunk, chunks)
    viol, counts, steps = [], {}, 0
    for v, c, s in res:
        viol.extend(v)
        steps += s
        for k, x in c.items():
            counts[k] = counts.get(k, 0) + x
    viol.sort(key=lambda t: (t[0], len(behs[t[2]]), t[2]))
    return viol, counts, steps


def export(tier: str, seed: int) -> List[list]:
    """half of the behaviours with the inputs of the known crash defects (Hostile), half without them (those go
    deeper on the code as it is); the `pad` fields of the weighted export are dropped, duplicates removed"""
    import json
    num = NUM.get(tier, NUM["quick"])
    d = tempfile.mkdtemp(prefix="webproxy_")
    try:
        text = open(os.path.join(tlc.SPEC_DIR, "WebProxy_Gen.cfg")).read()
        if "Hostile = TRUE" not in text:
            raise tlc.TlcError("WebProxy_Gen.cfg: Hostile line not found")
        polite = os.path.join(d, "WebProxy_Gen_polite.cfg")
        with open(polite, "w") as f:
            f.write(text.replace("Hostile = TRUE", "Hostile = FALSE"))
        raw = engine.gen_behaviours("WebProxy", "WebProxy_Gen.cfg", num=num // 2, depth=14, seed=seed + 31)
        raw += engine.gen_behaviours("WebProxy", polite, num=num // 2, depth=14, seed=seed + 32)
    finally:
        shutil.rmtree(d, ignore_errors=True)
    seen = {}
    for b in raw:
        b = [{k: v for k, v in st.items() if k != "pad"} for st in b]
        seen.setdefault(json.dumps(b, sort_keys=True), b)
    behs = [seen[k] for k in sorted(seen)]
    if not behs:
        raise tlc.TlcError("WebProxy_Gen produced no behaviour")
    return behs


def run_web(tier: str, seed: int) -> Dict[str, Any]:
    t0 = time.time()
    d = tempfile.mkdtemp(prefix="webproxy_")
    try:
        cfg = "WebProxy.cfg"
        if tier == "quick":
            text = open(os.path.join(tlc.SPEC_DIR, "WebProxy.cfg")).read()
            if "MaxMsgs = 7" not in text:
                raise tlc.TlcError("WebProxy.cfg: MaxMsgs line not found")
            cfg = os.path.join(d, "WebProxy_quick.cfg")
            with open(cfg, "w") as f:
                f.write(text.replace("MaxMsgs = 7", f"MaxMsgs = {QUICK_MAXMSGS}"))
        mc = engine.model_check("WebProxy", cfg, timeout=1500)
    finally:
        shutil.rmtree(d, ignore_errors=True)
    if mc["violation"]:
        raise tlc.TlcError("WebProxy.tla violated: " + str(mc["violation"]) + "\n" + mc["out"][-3000:])
    t1 = time.time()
    behs = export(tier, seed)
    t2 = time.time()
    viol, counts, steps = replay_all(behs, seed)
    t3 = time.time()
    from .. import webdrv
    by_sig: Dict[str, int] = {}
    for sig, _, _ in viol:
        by_sig[sig] = by_sig.get(sig, 0) + 1
    return {
        "mc": {k: mc.get(k) for k in ("states", "distinct", "depth", "wall_s")},
        "behaviours": len(behs),
        "steps_replayed": steps,
        "violations": [(sig, detail, behs[i]) for sig, detail, i in viol],
        "signatures": by_sig,
        "per_action_counts": dict(sorted(counts.items())),
        "source": webdrv.source_root(),
        "wall_s": {"model_check": round(t1 - t0, 1), "export": round(t2 - t1, 1), "replay": round(t3 - t2, 1)},
    }


def minimal(res: Dict[str, Any]) -> Dict[str, Tuple[str, list]]:
    """per signature: the shortest behaviour that shows it, reduced to its inputs"""
    out: Dict[str, Tuple[str, list]] = {}
    for sig, detail, beh in res["violations"]:
        if sig not in out or len(beh) < len(out[sig][1]):
            out[sig] = (detail, beh)
    return {s: (d, [{k: v for k, v in st.items() if k != "exp" and (k == "w" or v not in ("", 0))} for st in b]) for s, (d, b) in out.items()}


if __name__ == "__main__":
    import json
    import sys
    tier = sys.argv[1] if len(sys.argv) > 1 else "quick"
    seed = int(sys.argv[2]) if len(sys.argv) > 2 else 1
    r = run_web(tier, seed)
    m = minimal(r)
    r["violations"] = len(r["violations"])
    engine.say(json.dumps(r, indent=1))
    for s, (d, b) in sorted(m.items()):
        engine.say(s, "\n    ", d[:300], "\n    ", json.dumps(b))
