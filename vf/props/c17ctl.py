"""C17 (control side) -- the control state machine of the data logger, spec/LoggerCtl.tla.

  1. TLC model-checks LoggerCtl.cfg: every script of at most MaxMsgs control / data messages (+ the closing EXIT) against
     the invariants and action properties of the module (recording => configured and ALL subscribed; the logger stays
     controllable; one ERROR per failing request and the recording is closed; START -> STARTED, STATUS; content only grows
     while recording and not paused; after run() nothing records and every recording is closed).
  2. TLC exports behaviours of a longer bound (LoggerCtl_Gen.cfg, -simulate), each step carrying the expected replies and the
     expected state, the behaviour carrying the expected content of every recording.
  3. Every behaviour is replayed on the REAL DataLogger.run() (vf/loggerctl_drv.py): real DataCollection / DataSet /
     formatters / files, a scripted transport under the real Client.  C17/ signatures (content lost, duplicated, reordered,
     unreadable, not final at DATA_COLLECTION_SAVED) are violations of C17; CTL/ signatures are differences of the control
     protocol, outside the listed properties: drift.

Entry: run_ctl(tier, seed) -> dict(mc, behaviours, violations, drift, per_action_counts, ...)
"""
from __future__ import annotations

import multiprocessing as mp
import os
import re
import shutil
import tempfile
import time
from collections import Counter
from typing import Any, Dict, List, Tuple

from .. import engine, tlc

MODULE = "LoggerCtl"
NUM = {"quick": 150, "thorough": 1250}     # per TLC simulation worker (engine.gen_behaviours runs 4 workers): about 600 / 5000 behaviours
DEEP_MSGS = 10                             # thorough: the exhaustive check once more with a longer script (about 12 M states, 4 min)
# invariants / properties of LoggerCtl.tla that the CODE violates (documented there, not in LoggerCtl.cfg)
KNOWN_VIOLATED = (("NoSubscriptionCrash", "INVARIANT"), ("NoIndexCrash", "INVARIANT"), ("NoAttributeCrash", "INVARIANT"),
                  ("AllOnlyWhileRecording", "INVARIANT"), ("NoDebris", "INVARIANT"), ("NoPausedWhileIdle", "PROPERTY"))
DEPTH = 40
# documented deviations of data_logger.py from a robust control protocol (LoggerCtl.tla models them, marked DEVIATION): exceptions
# that are not DataLoggerError leave run()
OBSERVED = {
    "CTL/Crash/InvalidSubscription:START": "a START after a failed START: the failed one left the client subscribed to ALL; unsubscribe(ctrl) raises InvalidSubscription (not a DataLoggerError) and run() ends",
    "CTL/Crash/IndexError:ADDC": "ADD_DATA_COLLECTION with num_data_sets = 7 (six slots): IndexError leaves run()",
    "CTL/Crash/AttributeError:META_UPD": "METADATA_UPDATE whose JSON is not an object: AttributeError leaves run()",
}
JOBS = 14


def _one(beh):
    from .. import loggerctl_drv as drv
    try:
        r = drv.replay(beh)
        return {"verdicts": r["verdicts"], "harness": None, "src": drv.SRC}
    except drv.HarnessError as e:
        return {"verdicts": [], "harness": f"{e}", "src": drv.SRC}


def replay_all(behs: List[dict]) -> List[dict]:
    if not behs:
        return []
    with engine.Quiet():
        if len(behs) < 40:
            return [_one(b) for b in behs]
        ctx = mp.get_context("fork")
        with ctx.Pool(JOBS) as pool:
            return pool.map(_one, behs, chunksize=8)


def action_counts(behs: List[dict]) -> Dict[str, int]:
    c: Counter = Counter()
    for b in behs:
        for s in b["steps"]:
            c[s["k"] + (":" + s["v"] if s["v"] else "")] += 1
            if s["deliv"]:
                c["_delivered"] += 1
            for r in s["exp"]:
                c["_reply:" + r["t"] + (":" + r["exc"] if r["t"] == "ERROR" else "")] += 1
            if s["crash"]:
                c["_crash:" + s["crash"]] += 1
        c["_recordings"] += len(b["recs"])
        c["_logged"] += sum(len(r["log"]) for r in b["recs"])
        c["_recordings_with_content"] += sum(1 for r in b["recs"] if r["log"])
    return dict(sorted(c.items()))


def _cfg_head() -> str:
    base = open(os.path.join(tlc.SPEC_DIR, MODULE + ".cfg")).read()
    return base[:base.index("INVARIANT")]


def counterexamples() -> Dict[str, str]:
    """TLC's shortest scripts for the properties the code is known to violate (name -> "ADDC:two START START")"""
    d = tempfile.mkdtemp(prefix="lctl_")
    out = {}
    try:
        for inv, kind in KNOWN_VIOLATED:
            p = os.path.join(d, inv + ".cfg")
            with open(p, "w") as f:
                f.write(_cfg_head() + f"{kind} {inv}\nVIEW View\nCHECK_DEADLOCK FALSE\n")
            r = tlc.run_tlc(MODULE, p, workers=1, timeout=900)
            script = []
            for x in re.findall(r"last = \[([^\]]*)\]", r["out"].replace("\n", " ")):
                m = dict(re.findall(r'(\w+) \|-> "([^"]*)"', x))
                if m.get("k"):
                    script.append(m["k"] + (":" + m["v"] if m.get("v") else ""))
            out[inv] = " ".join(script) if r["violation"] else "(not violated)"
    finally:
        shutil.rmtree(d, ignore_errors=True)
    return out


def deep_check() -> Dict[str, Any]:
    d = tempfile.mkdtemp(prefix="lctl_")
    try:
        base = open(os.path.join(tlc.SPEC_DIR, MODULE + ".cfg")).read()
        p = os.path.join(d, "deep.cfg")
        with open(p, "w") as f:
            f.write(re.sub(r"MaxMsgs = \d+", f"MaxMsgs = {DEEP_MSGS}", base))
        mc = engine.model_check(MODULE, p, timeout=3000)
    finally:
        shutil.rmtree(d, ignore_errors=True)
    if mc["violation"]:
        raise tlc.TlcError(f"{MODULE} (MaxMsgs = {DEEP_MSGS}) violated: {mc['violation']}\n{mc['out'][-3000:]}")
    return {k: mc.get(k) for k in ("states", "distinct", "depth", "wall_s", "violation", "finished")}


def run_ctl(tier: str, seed: int) -> Dict[str, Any]:
    t0 = time.time()
    mc = engine.model_check(MODULE, MODULE + ".cfg", timeout=900)
    if mc["violation"]:
        raise tlc.TlcError(f"{MODULE}.cfg violated: {mc['violation']}\n{mc['out'][-3000:]}")
    deep = deep_check() if tier != "quick" else None
    t1 = time.time()
    behs = engine.gen_behaviours(MODULE, MODULE + "_Gen.cfg", num=NUM["quick" if tier == "quick" else "thorough"], depth=DEPTH, seed=seed + 17,
                                 timeout=900)
    if not behs:
        raise tlc.TlcError(f"{MODULE}_Gen.cfg exported no behaviour")
    t2 = time.time()
    results = replay_all(behs)
    t3 = time.time()
    viol: List[Tuple[str, str, dict]] = []
    drift: List[Tuple[str, str, dict]] = []
    seen: set = set()
    for b, r in zip(behs, results):
        if r["harness"]:
            from ..loggerctl_drv import HarnessError
            raise HarnessError(r["harness"])
        slim = {"steps": [{"i": s["i"], "k": s["k"], "v": s["v"]} for s in b["steps"]]}
        for sig, detail in r["verdicts"]:
            # the complete behaviour (expected replies, states, content) with the first occurrence of a signature, the script with the others
            first = sig not in seen
            seen.add(sig)
            (viol if sig.startswith("C17/") else drift).append((sig, detail, b if first else slim))
    return {"mc": {k: mc.get(k) for k in ("states", "distinct", "depth", "wall_s", "violation", "finished")}, "mc_deep": deep,
            "behaviours": len(behs), "violations": viol, "drift": drift, "per_action_counts": action_counts(behs),
            "wall": {"mc_s": round(t1 - t0, 1), "gen_s": round(t2 - t1, 1), "replay_s": round(t3 - t2, 1), "total_s": round(t3 - t0, 1)}}


if __name__ == "__main__":
    import json
    import sys

    tier = sys.argv[1] if len(sys.argv) > 1 else "quick"
    seed = int(sys.argv[2]) if len(sys.argv) > 2 else 0
    try:
        res = run_ctl(tier, seed)
    except tlc.TlcError as e:
        engine.say("TLC:", str(e)[:3000])
        sys.exit(2)
    except Exception as e:  # noqa: BLE001
        if type(e).__name__ == "HarnessError":
            engine.say("HARNESS:", e)
            sys.exit(2)
        raise
    engine.say(json.dumps({k: res[k] for k in ("mc", "mc_deep", "behaviours", "wall", "per_action_counts")}, indent=1))
    for name in ("violations", "drift"):
        sigs = Counter(s for s, _, _ in res[name])
        engine.say(f"{name}: {len(res[name])}")
        shown = set()
        for sig, detail, _ in res[name]:
            if sig not in shown:
                shown.add(sig)
                engine.say(f"  {sigs[sig]:5d} x {sig}\n          {detail[:700]}")
    sys.exit(1 if res["violations"] else 0)
