from . import hubprops
from .. import scenarios

hubprops.PLAN["C19"] = [
    {"fam": "two-loggers", "scen": scenarios.two_loggers, "num_q": 0, "num_t": 0, "prof_q": 3, "prof_t": 8},
    {"fam": "repo-tests", "scen": "repo-tests", "num_q": 0, "num_t": 0},
    {"fam": "Routing", "num_q": 50, "num_t": 600, "depth": 80},
    {"fam": "Identity", "num_q": 40, "num_t": 600, "depth": 100},
    {"fam": "death-during-manager-msg", "scen": scenarios.death_during_manager_msg, "num_q": 0, "num_t": 0, "prof_q": 3, "prof_t": 8},
]


def run(tier, seed):
    return hubprops.run("C19", tier, seed)


def replay(path):
    return hubprops.replay("C19", path)
