"""defprog -- materialise the programs of spec/Defs.tla, compile them with the real compiler into all
language outputs, load every output in its language and extract its signature.  Shared by C04, C15, C16."""
from __future__ import annotations

import filecmp
import json
import os
import shutil
import subprocess
import tempfile
from typing import Any, Dict, List, Optional, Tuple

from . import defs, tlc

CFG = """SPECIFICATION {spec}
CONSTANTS
  Export = {export}
  Variants = {variants}
{inv}
CHECK_DEADLOCK FALSE
"""


def export_programs(tier: str, variants: str = '{"base"}'):
    """TLC: check the family invariants and export (params, expected signature) for every program"""
    d = tempfile.mkdtemp(prefix="defs_")
    try:
        spec = "QSpec" if tier == "quick" else "TSpec"
        cfg = os.path.join(d, "mc.cfg")
        open(cfg, "w").write(CFG.format(spec=spec, export="FALSE", variants=variants, inv="INVARIANT AllNatural\nINVARIANT NativeSane"))
        mc = tlc.run_tlc("MC_Defs", cfg, timeout=1800)
        if mc["error"] or mc["violation"]:
            raise tlc.TlcError(f"MC_Defs: {mc['error'] or mc['violation']}\n" + mc["out"][-2000:])
        cfg2 = os.path.join(d, "ex.cfg")
        open(cfg2, "w").write(CFG.format(spec=spec, export="TRUE", variants=variants, inv="INVARIANT ExportInv"))
        r = tlc.run_tlc("MC_Defs", cfg2, workers=4, timeout=1800)
        if r["error"]:
            raise tlc.TlcError("MC_Defs export: " + str(r["error"]) + r["out"][-1500:])
        progs = tlc.behaviours(r["out"], tag="PROG ")
        if not progs:
            raise tlc.TlcError("no programs exported")
        return mc, progs
    finally:
        shutil.rmtree(d, ignore_errors=True)


def arr(t: str, n: Any) -> str:
    return t if n in (0, None) else f"{t}[{n}]"


def build(p: Dict[str, Any]) -> Dict[str, Any]:
    """params -> {relative path: section dict}"""
    imp = {
        "constants": {"K": p["k"]},
        "struct_defs": {"INNER": {"a": p["n1"], "b": arr(p["n2"], p["sh"]), "c": "char[3]"}},
    }
    root: Dict[str, Any] = {
        # lib/imp.yaml is reached twice, through differently spelled paths (a diamond): it must be read once
        # ... and once more, in the middle of the list, spelled differently: the imports after it must still resolve
        "imports": ["lib/imp.yaml", "lib/extra.yaml", "./lib/imp.yaml", "lib/zeta/indep.yaml", "lib/../lib/extra.yaml", "alpha.yaml"],
        "constants": {"K2": "K * 2", "BIG": "K * 1000 + 7", "HALF": "K / 2", "INV": "1 / K", "SPAN": "(K2 + 1) / 2", "DHALF": "K2 / 2", "THIRD": "K / 3", "SEVENTH": "(K2 + 1) / 7",
                      "CONSTANT_WITH_A_NAME_THAT_GOES_PAST_COLUMN_FORTY_EIGHT": 77,
                      **{f"W{i}": i + 1 for i in range(12)}, "WIDE": " + ".join(f"W{i}" for i in range(12))},
        "metadata": {"author": "verif", "rig": "bench 3", "revision": 7, "calibrated": True},
        "string_constants": {"GREETING": "hello world"},
        "aliases": {"A1": p["n4"], "A2": "A1"},
        "host_ids": {"MYHOST": 10, "CHID_X": 11},
        "module_ids": {"MYMOD": 12, "AMID_SHIP": 13},
        "struct_defs": {"MID": {"x": "INNER", "y": "INNER[2]", "z": arr(p["n3"], "K")}},
        "message_defs": {
            "SIG": {"id": 1000, "fields": None},
            "MSG_A": {"id": 1001, "fields": {"c": "char", "d": "A2", "e": arr(p["n1"], "K2"), "o": "MID", "s": "char[16]", "u": arr(p["n2"], 3),
                                              "v": "int8[K / 2 * 4]", "w": "int8[DHALF]"}},
            "MSG_B": {"id": 1002, "fields": "MSG_A"},
            "SIGNAL_WITH_A_NAME_THAT_GOES_PAST_COLUMN_FORTY_EIGHT": {"id": 1040, "fields": None},
            "FMT_DATA": {"id": 1041, "fields": None},
            "MT_LEAD": {"id": 1042, "fields": None},
            "_RESERVED_": {"id": [1003, '"1005 - 1007"'], "fields": None},
        },
    }
    v = p.get("variant", "base")
    if v == "alias_of_struct":          # alias of a struct defined in the imported file, used as a field type
        root["aliases"]["AS"] = "INNER"
        root["message_defs"]["MSG_V"] = {"id": 1020, "fields": {"q": "AS", "r": "int32"}}
    elif v == "struct_with_message":     # a struct of the importing file holds a message defined in the imported file
        imp["message_defs"] = {"MSG_IN": {"id": 1030, "fields": {"v": "int32", "w": "int16[2]"}}}
        root["struct_defs"]["HOLDER"] = {"m": "MSG_IN", "n": "int32"}
        root["message_defs"]["MSG_V"] = {"id": 1020, "fields": {"h": "HOLDER"}}
    elif v == "struct_reuses_message":   # field-list reuse across kinds: a struct takes over the fields of a message of the imported file (and vice versa)
        imp["message_defs"] = {"MSG_IN": {"id": 1030, "fields": {"v": "int32", "w": "int16[2]"}}}
        root["struct_defs"]["REC_S"] = "MSG_IN"
        root["message_defs"]["MSG_V"] = {"id": 1020, "fields": {"r": "REC_S", "n": "int32"}}
        root["message_defs"]["MSG_W"] = {"id": 1021, "fields": "INNER"}
    elif v == "sections_reversed":       # the sections of every file written bottom-up: message_defs first, imports last
        root["__order__"] = "reversed"
        imp["__order__"] = "reversed"
    elif v == "signed_char":
        root["message_defs"]["MSG_V"] = {"id": 1020, "fields": {"q": "signed char", "r": "signed char[3]"}}
    elif v == "message_in_message":
        # the container has the SMALLER id: definition order, not id order, is what the outputs must follow
        root["message_defs"]["MSG_V"] = {"id": 900, "fields": {"inner": "MSG_A", "tail": "int32"}}
    elif v == "message_array":           # an array whose elements are messages (the README's person: PERSON_MESSAGE[32])
        root["message_defs"]["MSG_V"] = {"id": 1020, "fields": {"people": "MSG_A[3]", "n": "int32"}}
        root["message_defs"]["MSG_W"] = {"id": 1021, "fields": "MSG_V"}
    elif v == "alias_array":
        root["message_defs"]["MSG_V"] = {"id": 1020, "fields": {"q": "A2[4]", "r": "A1"}}
    elif v == "struct_array_of_alias_struct":
        root["struct_defs"]["WRAP"] = {"items": "MID[2]", "n": "int32"}
        root["message_defs"]["MSG_V"] = {"id": 1020, "fields": {"w": "WRAP[2]"}}
    extra = {"imports": ["../lib/imp.yaml"], "constants": {"EXTRA_C": "K + 1"}}
    # two files that depend on nothing: only the written order of the import list fixes where their items go
    indep = {"constants": {"INDEP_C": 11}, "struct_defs": {"INDEP_S": {"v": "int32"}}, "message_defs": {"INDEP_M": {"id": 1100, "fields": {"w": "INDEP_S"}}}}
    alpha = {"constants": {"ALPHA_C": 12}, "message_defs": {"ALPHA_M": {"id": 1101, "fields": {"w": "int16[2]"}}}}
    return {"root.yaml": root, "lib/imp.yaml": imp, "lib/extra.yaml": extra, "lib/zeta/indep.yaml": indep, "alpha.yaml": alpha}


def run_program(args) -> Dict[str, Any]:
    """compile + load one program in all languages; returns a JSON-able result"""
    idx, prog, workroot, opts = args
    p = prog["p"]
    root = os.path.join(workroot, f"prog{idx}")
    res: Dict[str, Any] = {"idx": idx, "p": p}
    try:
        defs.write_prog(build(p), root)
        ry = os.path.join(root, "root.yaml")
        parser, perr = defs.parse(ry, import_coredefs=False)
        if perr is not None:
            res["parse_error"] = f"{type(perr).__name__}: {str(perr)[:300]}"
            res["parse_error_is_parser_error"] = _is_parser_error(perr)
            return res
        psig = defs.parser_signature(parser)
        res["parser"] = psig
        out = os.path.join(root, "out")
        cerr = defs.compile_all(ry, out, "gen", import_coredefs=False, combined=True)
        if cerr is not None:
            res["compile_error"] = f"{type(cerr).__name__}: {str(cerr)[:300]}"
            return res
        res["python"], res["python_err"] = defs.sig_python(os.path.join(out, "gen.py"))
        res["c"], res["c_err"] = defs.sig_c(os.path.join(out, "gen.h"), psig, out)
        res["js"], res["js_err"] = defs.sig_js(os.path.join(out, "gen.js"), out)
        ml, prob = defs.sig_matlab(os.path.join(out, "gen.m"))
        res["matlab"] = {k: ml.get(k) for k in ("MDF", "typedefs", "MT", "MID", "HID", "hash", "defines")}
        res["matlab_problems"] = [x for x in prob if "MESSAGE_HEADER" not in x]     # core header is absent without core defs
        if opts.get("determinism"):
            # second compile: other working directory, other output directory, other process hash seed
            out2 = os.path.join(root, "deep", "er", "out2")
            os.makedirs(out2)
            env = dict(os.environ, PYTHONHASHSEED=str(17 + idx))
            r = subprocess.run(["/venv/bin/python", "-m", "pyrtma.compile", "-i", os.path.relpath(ry, out2), "--py", "--c", "--js", "--mat", "--combined",
                                "--no_core_import", "-o", ".", "-n", "gen"], cwd=out2, capture_output=True, text=True, timeout=300,
                               env=dict(env, PYTHONPATH=__import__("os").environ.get("VF_REPO", "/repo") + "/src"))
            res["second_compile_rc"] = r.returncode
            diff = []
            for fn in ("gen.py", "gen.h", "gen.js", "gen.m", "gen_combined.yaml"):
                a, b = os.path.join(out, fn), os.path.join(out2, fn)
                if not (os.path.exists(a) and os.path.exists(b) and filecmp.cmp(a, b, shallow=False)):
                    diff.append(fn)
            res["nondeterministic"] = diff
            # combined YAML round trip
            cy = os.path.join(out, "gen_combined.yaml")
            p2, e2 = defs.parse(cy, import_coredefs=False)
            if e2 is not None:
                res["combined_error"] = f"{type(e2).__name__}: {str(e2)[:300]}"
            else:
                res["combined"] = defs.parser_signature(p2)
    except subprocess.TimeoutExpired as e:
        res["harness_error"] = f"timeout: {e}"
    finally:
        if not opts.get("keep"):
            shutil.rmtree(root, ignore_errors=True)
    return res


def _is_parser_error(e) -> bool:
    from pyrtma.parser import ParserError
    return isinstance(e, ParserError)


def run_all(progs: List[dict], opts: Dict[str, Any], jobs: int = 12) -> List[Dict[str, Any]]:
    import multiprocessing as mp
    work = tempfile.mkdtemp(prefix="progs_")
    try:
        args = [(i, pr, work, opts) for i, pr in enumerate(progs)]
        with mp.get_context("fork").Pool(jobs) as pool:
            return pool.map(run_program, args, chunksize=4)
    finally:
        shutil.rmtree(work, ignore_errors=True)


# ------------------------------------------------------------------------------------------------
# comparison of an extracted signature with the specification's
# ------------------------------------------------------------------------------------------------
def expected_fields(sig: dict, name: str) -> List[dict]:
    return sig["defs"][name]["fields"]


def compare_language(res: Dict[str, Any], exp: dict) -> List[Tuple[str, str]]:
    """returns [(clause, detail)] for C04"""
    bad: List[Tuple[str, str]] = []
    psig = res["parser"]
    phash = {n: d["hash"] for n, d in psig["messages"].items()}

    def kind_of(name):
        return "structs" if name in ("INNER", "MID") else "messages"

    for name, ed in exp["defs"].items():
        kd = kind_of(name)
        ef = ed["fields"]
        # ---- parser model
        pd = psig[kd].get(name)
        if pd is None:
            bad.append(("FieldNameOrOrder:parser", f"{name} missing"))
            continue
        if pd["size"] != ed["size"]:
            bad.append(("SizeOrOffset:parser", f"{name} size {pd['size']} != {ed['size']}"))
        # ---- python
        py = (res.get("python") or {}).get(kd, {}).get(name)
        if py is None:
            bad.append(("FieldNameOrOrder:python", f"{name} missing"))
        else:
            if py["size"] != ed["size"] or py.get("type_size") != ed["size"]:
                bad.append(("SizeOrOffset:python", f"{name} size {py['size']}/{py.get('type_size')} != {ed['size']}"))
            _cmp_fields("python", name, py["fields"], ef, bad, lambda f: (f["class"], f["width"], bool(f.get("signed", False)) if f["class"] != "struct" else False))
        # ---- C
        cs = (res.get("c") or {}).get(kd, {}).get(name)
        if cs is None:
            bad.append(("FieldNameOrOrder:c", f"{name} missing"))
        else:
            if cs.get("size") != ed["size"] or cs.get("align") != ed["align"]:
                bad.append(("SizeOrOffset:c", f"{name} sizeof {cs.get('size')} align {cs.get('align')} != {ed['size']}/{ed['align']}"))
            cf = cs["fields"]
            ui = 0
            for e in ef:
                if e["pad"]:
                    continue
                f = cf.get(e["name"])
                if f is None:
                    bad.append(("FieldNameOrOrder:c", f"{name}.{e['name']} missing"))
                    continue
                if f["offset"] != e["offset"] or f["size"] != e["width"] * max(1, e["count"]):
                    bad.append(("SizeOrOffset:c", f"{name}.{e['name']} offset {f['offset']} size {f['size']}"))
                if e["cls"] != "struct":
                    if f["width"] != e["width"] or bool(f["float"]) != (e["cls"] == "float") or (e["cls"] != "char" and bool(f["signed"]) != e["signed"]):
                        bad.append(("ElementType:c", f"{name}.{e['name']} width {f['width']} signed {f['signed']} float {f['float']} expected {e['width']}/{e['signed']}/{e['cls']}"))
        # ---- javascript
        js = (res.get("js") or {}).get(kd, {}).get(name)
        if js is None:
            bad.append(("FieldNameOrOrder:javascript", f"{name} missing"))
        else:
            jf = [f for f in js["fields"] if not f.get("shared")]
            _cmp_fields("javascript", name, jf, ef, bad, None, js=True)
        # ---- matlab
        ml = (res.get("matlab") or {})
        md = (ml.get("typedefs") or {}).get(name) if kd == "structs" else (ml.get("MDF") or {}).get(name)
        if md is None:
            bad.append(("FieldNameOrOrder:matlab", f"{name} missing"))
        else:
            _cmp_matlab(name, md, ef, bad)
    # ids, hashes, constants
    for n, i in exp["ids"].items():
        if psig["messages"].get(n, {}).get("id") != i:
            bad.append(("IdMismatch:parser", n))
        if (res.get("python") or {}).get("messages", {}).get(n, {}).get("id") != i:
            bad.append(("IdMismatch:python", n))
        if (res.get("c") or {}).get("ids", {}).get(n) != str(i):
            bad.append(("IdMismatch:c", n))
        if (res.get("js") or {}).get("mt", {}).get(n) != i:
            bad.append(("IdMismatch:javascript", n))
        if ((res.get("matlab") or {}).get("MT") or {}).get(n) != i:
            bad.append(("IdMismatch:matlab", n))
        h = phash.get(n)
        if (res.get("python") or {}).get("messages", {}).get(n, {}).get("hash") != h:
            bad.append(("HashMismatch:python", n))
        if (res.get("c") or {}).get("hashes", {}).get(n) != h:
            bad.append(("HashMismatch:c", n))
        if (res.get("js") or {}).get("hash", {}).get(n) != h:
            bad.append(("HashMismatch:javascript", n))
        if ((res.get("matlab") or {}).get("hash") or {}).get(n) != h:
            bad.append(("HashMismatch:matlab", n))
    for n, v in exp["constants"].items():
        if psig["constants"].get(n) != v:
            bad.append(("ConstMismatch:parser", n))
        if (res.get("python") or {}).get("constants", {}).get(n) != v:
            bad.append(("ConstMismatch:python", n))
        if (res.get("c") or {}).get("constants", {}).get(n) != str(v):
            bad.append(("ConstMismatch:c", n))
        if (res.get("js") or {}).get("constants", {}).get(n) != v:
            bad.append(("ConstMismatch:javascript", n))
        if ((res.get("matlab") or {}).get("defines") or {}).get(n) != v:
            bad.append(("ConstMismatch:matlab", n))
    for n, (num, den) in exp.get("ratios", {}).items():
        want = num / den
        def near(x):
            try:
                return float(x) == want        # every output prints the shortest text that reads back as the same double
            except (TypeError, ValueError):
                return False
        if not near(psig["constants"].get(n)):
            bad.append(("ConstMismatch:parser", n))
        if not near((res.get("python") or {}).get("constants", {}).get(n)):
            bad.append(("ConstMismatch:python", n))
        if not near((res.get("c") or {}).get("constants", {}).get(n)):
            bad.append(("ConstMismatch:c", n))
        if not near((res.get("js") or {}).get("constants", {}).get(n)):
            bad.append(("ConstMismatch:javascript", n))
        if not near(((res.get("matlab") or {}).get("defines") or {}).get(n)):
            bad.append(("ConstMismatch:matlab", n))
    for n, v in exp["mids"].items():
        if (res.get("python") or {}).get("mids", {}).get(n) != v or (res.get("c") or {}).get("mids", {}).get(n) != str(v) \
                or (res.get("js") or {}).get("mid", {}).get(n) != v or ((res.get("matlab") or {}).get("MID") or {}).get(n) != v:
            bad.append(("IdMismatch:module_id", n))
    for n, v in exp["hids"].items():
        if (res.get("c") or {}).get("hids", {}).get(n) != str(v) or ((res.get("matlab") or {}).get("HID") or {}).get(n) != v:
            bad.append(("IdMismatch:host_id", n))
    return bad


def _cmp_fields(lang, name, got, ef, bad, typ, js=False):
    if len(got) != len(ef):
        bad.append((f"FieldNameOrOrder:{lang}", f"{name}: {len(got)} fields, expected {len(ef)}"))
        return
    for g, e in zip(got, ef):
        if e["pad"]:
            if not g["name"].startswith("padding_"):
                bad.append((f"FieldNameOrOrder:{lang}", f"{name}: padding expected at {g['name']}"))
            if not js and max(1, g["count"]) != e["count"]:
                bad.append((f"ArrayLength:{lang}", f"{name}.{g['name']} {g['count']} != {e['count']}"))
            continue
        if g["name"] != e["name"]:
            bad.append((f"FieldNameOrOrder:{lang}", f"{name}: {g['name']} where {e['name']} expected"))
            continue
        if js:
            # strings are one JS value whatever their length
            want_kind = "struct" if e["cls"] == "struct" else ("string" if e["cls"] == "char" else "number")
            if g["kind"] != want_kind:
                bad.append((f"ElementType:{lang}", f"{name}.{e['name']} is {g['kind']}, expected {want_kind}"))
            if e["cls"] != "char" and max(1, g["count"]) != max(1, e["count"]):
                bad.append((f"ArrayLength:{lang}", f"{name}.{e['name']} {g['count']} != {e['count']}"))
            continue
        if max(1, g["count"]) != max(1, e["count"]):      # a one-element array and a scalar are the same bytes
            bad.append((f"ArrayLength:{lang}", f"{name}.{e['name']} {g['count']} != {e['count']}"))
        if g.get("offset") is not None and g["offset"] != e["offset"]:
            bad.append((f"SizeOrOffset:{lang}", f"{name}.{e['name']} offset {g['offset']} != {e['offset']}"))
        want = (e["cls"], e["width"], e["signed"] if e["cls"] != "struct" else False)
        have = typ(g)
        if e["cls"] == "char":
            want, have = want[:2], have[:2]
        if have != want:
            bad.append((f"ElementType:{lang}", f"{name}.{e['name']} {have} != {want}"))


def _cmp_matlab(name, md, ef, bad):
    keys = list(md.keys())
    if len(keys) != len(ef):
        bad.append(("FieldNameOrOrder:matlab", f"{name}: {len(keys)} fields, expected {len(ef)}"))
        return
    for k, e in zip(keys, ef):
        v = md[k]
        cnt = 0
        if isinstance(v, dict) and "__rep__" in v:
            cnt, v = v["__rep__"], v["el"]
        if e["pad"]:
            if not k.startswith("padding_"):
                bad.append(("FieldNameOrOrder:matlab", f"{name}: padding expected at {k}"))
            continue
        if k != e["name"]:
            bad.append(("FieldNameOrOrder:matlab", f"{name}: {k} where {e['name']} expected"))
            continue
        if max(1, cnt) != max(1, e["count"]):
            bad.append(("ArrayLength:matlab", f"{name}.{k} {cnt} != {e['count']}"))
        if e["cls"] == "struct":
            if not isinstance(v, dict) or "__cls__" in v:
                bad.append(("ElementType:matlab", f"{name}.{k} is not a struct"))
        else:
            c = v.get("__cls__") if isinstance(v, dict) else None
            w = defs.MATLAB_CLASS.get(c)
            want_cls = "int" if e["cls"] == "char" else e["cls"]
            if w is None or w[0] != e["width"] or w[2] != want_cls or (e["cls"] != "char" and w[1] != e["signed"]):
                bad.append(("ElementType:matlab", f"{name}.{k} class {c}, expected width {e['width']} signed {e['signed']} {e['cls']}"))
