"""valdrv -- executes what Validation.tla exports on the REAL pyrtma validators (C09).

* `run_case(P, c)`   : one exported case c = [k, n, sh, i, a, b, s, v] -> one observation per CONCRETE value of the
                       symbolic value class (the tag -> value mapping below is the trusted binding; most tags have
                       several concrete values).  Observation: res (accepted/refused), rb (read-back equals the value
                       assigned), same (every byte of the message unchanged), plus diagnostics.
* `run_blocks(P, b)` : one behaviour of the disable-block machine, executed with real `with
                       disable_message_validation()` blocks (exceptions really propagate through k blocks); after every
                       step the driver probes with values outside and inside the domain.

Read-back normalisation (stated as assumptions of the check):
  ints exactly (type int); floats = IEEE rounding of the assigned value computed with `struct` (NaN equals NaN, the
  sign of zero is compared); str up to the first NUL; a bytes-like of length 1 and its integer are the same byte value;
  a ctypes scalar stands for its `.value`; structs compare by their bytes.
"""
from __future__ import annotations

import contextvars
import ctypes
import math
import struct
from decimal import Decimal
from fractions import Fraction
from typing import Any, Callable, Dict, Iterator, List, Optional, Tuple

from . import probedefs
from .probedefs import EXTRA_LEN, FLOAT_KINDS, INNER_STR, INT_KINDS, LEAF_FIELD

NONE = 99
NAN = float("nan")
INF = float("inf")
FLT_MAX = 3.4028234663852886e38
FLT_EDGE = 3.4028235677973366e38       # the smallest double that rounds to +inf as a float
DBL_MAX = 1.7976931348623157e308

CT = {"Int8": ctypes.c_int8, "Int16": ctypes.c_int16, "Int32": ctypes.c_int32, "Int64": ctypes.c_int64,
      "Uint8": ctypes.c_uint8, "Uint16": ctypes.c_uint16, "Uint32": ctypes.c_uint32, "Uint64": ctypes.c_uint64,
      "Float": ctypes.c_float, "Double": ctypes.c_double, "Byte": ctypes.c_ubyte, "Char": ctypes.c_char}
CT_OTHER = {"Int8": [ctypes.c_int16, ctypes.c_uint8], "Int16": [ctypes.c_int8, ctypes.c_uint16], "Int32": [ctypes.c_int64, ctypes.c_uint32],
            "Int64": [ctypes.c_int32, ctypes.c_uint64], "Uint8": [ctypes.c_int8, ctypes.c_uint16], "Uint16": [ctypes.c_int16, ctypes.c_uint32],
            "Uint32": [ctypes.c_int32, ctypes.c_uint64], "Uint64": [ctypes.c_int64, ctypes.c_uint32]}
OTHER_KIND = {"Int8": "Int16", "Int16": "Int32", "Int32": "Int64", "Int64": "Int32", "Uint8": "Uint16", "Uint16": "Uint32",
              "Uint32": "Uint64", "Uint64": "Uint32", "Float": "Double", "Double": "Float", "Byte": "Uint8", "Struct": "Other"}


def int_range(k: str) -> Tuple[int, int]:
    if k.startswith("Uint"):
        b = int(k[4:])
        return 0, 2 ** b - 1
    b = int(k[3:])
    return -(2 ** (b - 1)), 2 ** (b - 1) - 1


class Obj:
    pass


# seeded extra concrete values (c09.run sets these; 0 extra = only the fixed representatives)
_RND = {"seed": 0, "extra": 0}


def set_random(seed: int, extra: int):
    _RND["seed"], _RND["extra"] = int(seed), int(extra)


def _extra(k: str, tag: str) -> List[Any]:
    """`extra` seeded random members of the value class (only for classes that are intervals)"""
    import random

    n = _RND["extra"]
    if not n:
        return []
    rnd = random.Random(f"{_RND['seed']}/{k}/{tag}")
    if k in INT_KINDS or k == "Byte":
        lo, hi = (0, 255) if k == "Byte" else int_range(k)
        if tag == "ONE":
            return [rnd.randint(lo, hi) for _ in range(n)]
        if tag == "MAXP1":
            return [hi + 1 + rnd.randint(0, 2 ** rnd.randint(1, 70)) for _ in range(n)]
        if tag in ("MINM1", "M1") and (tag == "MINM1" or lo == 0):
            return [lo - 1 - rnd.randint(0, 2 ** rnd.randint(1, 70)) for _ in range(n)]
    if k in FLOAT_KINDS:
        top = FLT_MAX if k == "Float" else DBL_MAX
        if tag == "F0_1":
            return [rnd.choice([-1, 1]) * rnd.random() * 10.0 ** rnd.randint(-30, 30) for _ in range(n)] + \
                   [rnd.choice([-1, 1]) * top * (1 - rnd.random() * 1e-3) for _ in range(n)]
        if tag == "OVF" and k == "Float":
            return [FLT_EDGE * (1 + rnd.random() * 10.0 ** rnd.randint(-12, 200)) for _ in range(n)]
        if tag == "NOVF" and k == "Float":
            return [-FLT_EDGE * (1 + rnd.random() * 10.0 ** rnd.randint(-12, 200)) for _ in range(n)]
    return []


# ----------------------------------------------------------------------------------------------------------------
# tag -> concrete values.  Every entry is (label, factory); factories build a fresh value for each execution.
# ----------------------------------------------------------------------------------------------------------------
def _c(*vals) -> List[Tuple[str, Callable[[], Any]]]:
    return [(repr(v)[:40], (lambda v=v: v)) for v in vals]


def inner(P, i: int, cls: str = "P_INNER"):
    x = getattr(P, cls)()
    x.i32 = 1000 + i
    x.i8 = (i % 100) + 1
    x.f64 = i + 0.5
    x.s8 = "in%d" % (i % 1000)
    x.by = (i * 7 + 3) % 256
    return x


def scalar_values(P, k: str, tag: str, n: int = 0) -> List[Tuple[str, Callable[[], Any]]]:
    return _scalar_values(P, k, tag, n) + _c(*_extra(k, tag))


def _scalar_values(P, k: str, tag: str, n: int = 0) -> List[Tuple[str, Callable[[], Any]]]:
    wrong = {"NONE": _c(None), "DICT": _c({}, {"a": 1}), "OBJ": [("object()", Obj)]}
    if tag in wrong:
        return wrong[tag]
    if k in INT_KINDS:
        lo, hi = int_range(k)
        big = 2 ** 64 if hi < 2 ** 63 else 2 ** 65
        return {
            "MINM1": _c(lo - 1), "MIN": _c(lo), "M1": _c(-1), "ZERO": _c(0), "ONE": _c(1), "MAX": _c(hi), "MAXP1": _c(hi + 1),
            "HUGE": _c(big, 10 ** 30), "NEGHUGE": _c(-big - 1, -10 ** 30), "TRUE": _c(True), "FALSE": _c(False),
            "F1_0": _c(1.0), "F1_5": _c(1.5, -0.5, float(hi) + 0.5 if hi < 2 ** 31 else 0.25), "PINF": _c(INF), "NINF": _c(-INF),
            "NAN": _c(NAN), "CT_SAME": [("ctype(5)", lambda: CT[k](5))], "DECIMAL": _c(Decimal(1), Fraction(2, 1)),
            "STR": _c("1", "a", ""), "BYTES": _c(b"1", b"\x01", b""), "LIST": _c([1], [], (1,)),
            "CT_OTHER": [(t.__name__ + "(1)", (lambda t=t: t(1))) for t in CT_OTHER[k]] + [("c_float(1.0)", lambda: ctypes.c_float(1.0))],
        }[tag]
    if k in FLOAT_KINDS:
        f32 = k == "Float"
        return {
            "ZERO": _c(0.0, 0), "ONE": _c(1.0, 1), "M1": _c(-1.0, -1), "F1_5": _c(1.5, -2.25), "F0_1": _c(0.1, 1 / 3, 1e-3),
            # one ulp above a value whose shortest decimal text is short: all 9 (float32) / 17 (double) significant digits are needed
            "FULLPREC": (_c(struct.unpack("<f", struct.pack("<I", 0x447A0001))[0], struct.unpack("<f", struct.pack("<I", 0x3F800001))[0],
                            struct.unpack("<f", struct.pack("<I", 0x4E7FFFFF))[0], -struct.unpack("<f", struct.pack("<I", 0x461C4001))[0]) if f32
                         else _c(0.1 + 0.2, 1.0000000000000002, 1000.0000000000001, -9007199254740991.0)),
            "FMAX": _c(FLT_MAX, 3.4028235677973362e38) if f32 else _c(DBL_MAX),
            "NFMAX": _c(-FLT_MAX, -3.4028235677973362e38) if f32 else _c(-DBL_MAX),
            "BIGINT": _c(2 ** 62 + 1, 16777217, -(2 ** 53) - 1),
            "SUBN": _c(1e-45, 1e-50, 1e-39, -1e-46) if f32 else _c(5e-324, 2.2e-308, -5e-324),
            "NEGZERO": _c(-0.0), "NAN": _c(NAN),
            "OVF": _c(FLT_EDGE, 3.5e38, 1e39, DBL_MAX), "NOVF": _c(-FLT_EDGE, -3.5e38, -1e39, -DBL_MAX),
            "HUGE": _c(10 ** 39, 2 ** 128, 10 ** 400) if f32 else _c(2 ** 1024, 10 ** 309, 10 ** 400),
            "NEGHUGE": _c(-(10 ** 39), -(10 ** 400)) if f32 else _c(-(2 ** 1024), -(10 ** 400)),
            "PINF": _c(INF), "NINF": _c(-INF), "TRUE": _c(True),
            "CT_SAME": [("ctype(2.5)", lambda: CT[k](2.5))], "DECIMAL": _c(Decimal("1.5"), Fraction(1, 2)),
            "STR": _c("1", "a", "nan"), "BYTES": _c(b"1", b""), "LIST": _c([1.0], [], (1.0,)),
            "CT_OTHER": [("other(2.5)", lambda: (ctypes.c_double if f32 else ctypes.c_float)(2.5)), ("c_int(1)", lambda: ctypes.c_int(1))],
        }[tag]
    if k == "Byte":
        return {
            "ZERO": _c(0), "ONE": _c(1, 65), "MAX": _c(255), "MAXP1": _c(256), "M1": _c(-1), "HUGE": _c(2 ** 64, 10 ** 30), "TRUE": _c(True),
            "F1_0": _c(1.0), "F1_5": _c(1.5), "BYTES1": _c(b"a", b"\x00", b"\xff"), "BARR1": _c(bytearray(b"z")), "BYTES0": _c(b"", bytearray()),
            "BYTES2": _c(b"ab", bytearray(b"abc")), "STR": _c("a", ""), "LIST": _c([1], []),
            "CT_SAME": [("c_ubyte(7)", lambda: ctypes.c_ubyte(7))],
            "CT_OTHER": [("c_char(b'a')", lambda: ctypes.c_char(b"a")), ("c_int8(1)", lambda: ctypes.c_int8(1)), ("c_uint16(1)", lambda: ctypes.c_uint16(1))],
        }[tag]
    if k == "Char":
        return {
            "A": _c("a", "Z", "0", " "), "NUL": _c("\x00"), "DEL": _c("\x7f"), "QUOTE": _c('"', "'", "\\"), "CTRL": _c("\n", "\t", "\x01", "\x1f"),
            "EMPTY": _c(""), "TWO": _c("ab", "abc"), "NONASCII": _c("é", "€"), "HIGH": _c("\x80", "\xff"), "BYTES": _c(b"a"),
            "INT": _c(1, 97), "LIST": _c(["a"]), "CT_SAME": [("c_char(b'x')", lambda: ctypes.c_char(b"x"))],
            "CT_OTHER": [("c_int8(1)", lambda: ctypes.c_int8(1)), ("c_ubyte(1)", lambda: ctypes.c_ubyte(1))],
        }[tag]
    if k == "String":
        m = n - 1        # longest string with room for the terminating NUL
        pat = "".join(chr(33 + (j * 7) % 90) for j in range(m))
        nul = ["a\x00b", "ab\x00"] if m >= 3 else ["\x00"]
        return {
            "EMPTY": _c(""), "ONE": _c("a"), "MAXLEN": _c("x" * m, pat), "EXACT": _c("x" * n), "OVER": _c("x" * (n + 1)),
            "OVERLONG": _c("x" * (4 * n), "y" * 1000),
            "NONASCII": _c("é" + "x" * (m - 1), "€"), "NONASCII_LAST": _c("x" * (m - 1) + "é", "x" * (m - 1) + "\x80"),
            "NUL_MID": _c(*nul), "CTRL": _c("\t\n\r\x01\x1f\x7f"[:m], "\x1b"), "QUOTES": _c("\"'\\"[:m], '"', "\\"),
            "BYTES": _c(b"a", b""), "INT": _c(5), "LIST": _c(["a", "b"], []),
            "CT_SAME": [("(c_char*n)(b'a')", lambda: (ctypes.c_char * n)(b"a"))],
            "CT_OTHER": [("(c_char*(n+1))()", lambda: (ctypes.c_char * (n + 1))()), ("c_char(b'a')", lambda: ctypes.c_char(b"a"))],
        }[tag]
    if k == "Struct":
        return {
            "SAME": [("P_INNER(..)", lambda: inner(P, 41)), ("P_INNER()", lambda: P.P_INNER())],
            "OTHER": [("P_OTHER(..)", lambda: inner(P, 42, "P_OTHER"))],
            "TUPLE": _c((1, 2), ()), "INT": _c(5), "BYTES": [("bytes(sizeof)", lambda: bytes(ctypes.sizeof(P.P_INNER)))],
            "SELFMSG": [("MDF_P_NEST()", lambda: P.MDF_P_NEST())], "STR": _c("a"), "LIST": _c([1]),
        }[tag]
    raise KeyError((k, tag))


def good_values(P, k: str) -> List[Callable[[], Any]]:
    if k in INT_KINDS:
        lo, hi = int_range(k)
        vals = [lo, hi, 0, 1, -1 if lo < 0 else hi - 1, 7]
    elif k == "Float":
        vals = [1.5, -FLT_MAX, -0.0, 0.1, FLT_MAX, 1e-45, 3]
    elif k == "Double":
        vals = [1.5, -DBL_MAX, -0.0, 0.1, DBL_MAX, 5e-324, 3]
    elif k == "Byte":
        vals = [0, 255, 1, 65, 128]
    elif k == "Struct":
        return [(lambda j=j: inner(P, 50 + j)) for j in range(6)]
    else:
        raise KeyError(k)
    return [(lambda v=v: v) for v in vals]


def good_seq(P, k: str, L: int, off: int = 0) -> List[Any]:
    g = good_values(P, k)
    return [g[(j + off) % len(g)]() for j in range(L)]


# ----------------------------------------------------------------------------------------------------------------
# read-back comparison
# ----------------------------------------------------------------------------------------------------------------
def expected(k: str, v: Any) -> Any:
    """what an accepted assignment of v to an element of kind k should read back as (raises if v has no such value)"""
    if isinstance(v, ctypes._SimpleCData):
        v = v.value
    if k in INT_KINDS:
        if isinstance(v, (float, Decimal, Fraction)) and v != int(v):
            raise ValueError("non-integer")
        return int(v)
    if k in FLOAT_KINDS:
        x = float(v)
        if k == "Float" and not (math.isnan(x) or math.isinf(x)):
            try:
                x = struct.unpack("<f", struct.pack("<f", x))[0]
            except OverflowError:
                x = math.copysign(INF, x)
        return x
    if k == "Byte":
        if isinstance(v, (bytes, bytearray)):
            if len(v) != 1:
                raise ValueError("not one byte")
            return v[0]
        return int(v)
    if k in ("Char", "String"):
        if isinstance(v, bytes):
            v = v.decode("latin1")
        if isinstance(v, ctypes.Array):
            v = v.value.decode("latin1")
        return v.split("\x00")[0]
    if k == "Struct":
        return bytes(v)
    raise KeyError(k)


def equal(k: str, rb: Any, exp: Any) -> bool:
    try:
        if k in INT_KINDS:
            return type(rb) is int and rb == exp
        if k in FLOAT_KINDS:
            if not isinstance(rb, float):
                return False
            if math.isnan(exp):
                return math.isnan(rb)
            return rb == exp and math.copysign(1.0, rb) == math.copysign(1.0, exp)
        if k == "Byte":
            if isinstance(rb, (bytes, bytearray)):
                return len(rb) == 1 and rb[0] == exp
            return type(rb) is int and rb == exp
        if k in ("Char", "String"):
            return isinstance(rb, str) and rb.split("\x00")[0] == exp
        if k == "Struct":
            return bytes(rb) == exp
    except Exception:
        return False
    return False


def seq_equal(k: str, rb: Any, exp_list: List[Any]) -> bool:
    try:
        got = list(rb)
    except Exception:
        return False
    if len(got) != len(exp_list):
        return False
    return all(equal(k, g, e) for g, e in zip(got, exp_list))


# ----------------------------------------------------------------------------------------------------------------
# messages
# ----------------------------------------------------------------------------------------------------------------
_prefill: Dict[Tuple[int, str], bytes] = {}


def fresh(P, clsname: str):
    """a message instance filled (through the validated API, once) with non-zero in-domain values"""
    key = (id(P), clsname)
    cls = getattr(P, clsname)
    if key not in _prefill:
        m = cls()
        fill_background(P, m, 3)
        _prefill[key] = bytes(m)
    return cls.from_buffer_copy(_prefill[key])


def fill_background(P, m, salt: int):
    import pyrtma.validators as V

    for j, (name, desc) in enumerate(all_fields(type(m))):
        kd = kind_of(desc)
        cont, ek, n = kd[0], kd[1], kd[2]
        if name.startswith("padding_"):
            continue
        if cont in ("Struct",):
            fill_background(P, getattr(m, name), salt + j)
        elif cont == "StructArray":
            for e, x in enumerate(getattr(m, name)):
                fill_background(P, x, salt + j + e + 1)
        elif cont == "Char":
            setattr(m, name, "abcdefgh"[(salt + j) % 8])
        elif cont == "String":
            setattr(m, name, ("bg%d" % (salt + j))[: n - 1])
        elif cont == "ByteArray":
            setattr(m, name, bytes(((salt + j + e) * 37 + 1) % 256 for e in range(n)))
        elif cont in ("IntArray", "FloatArray"):
            setattr(m, name, [_bg(ek, salt + j + e) for e in range(n)])
        else:
            setattr(m, name, _bg(ek, salt + j))


def _bg(ek: str, j: int):
    if ek in INT_KINDS:
        lo, hi = int_range(ek)
        return max(lo, min(hi, (j * 2654435761 + 12345) % 251 - (60 if lo < 0 else 0) + 1))
    if ek in FLOAT_KINDS:
        return (j % 97) * 0.25 + 0.5
    if ek == "Byte":
        return (j * 37 + 1) % 256
    raise KeyError(ek)


def all_fields(cls) -> List[Tuple[str, Any]]:
    """(public name, descriptor) of every ctypes field of a message class, base classes first"""
    out = []
    for c in reversed(cls.__mro__):
        fl = c.__dict__.get("_fields_")
        if not fl:
            continue
        for f in fl:
            fname = f[0]
            name = fname[1:] if fname.startswith("_") else fname
            desc = None
            for cc in cls.__mro__:
                if name in cc.__dict__:
                    desc = cc.__dict__[name]
                    break
            out.append((name, desc))
    return out


def kind_of(desc) -> Tuple[str, str, int, Any]:
    """(container, element kind, length, struct class) of a validator descriptor"""
    import pyrtma.validators as V

    if isinstance(desc, V.StructArray):
        return ("StructArray", "Struct", desc._len, desc._validator._ctype)
    if isinstance(desc, V.ByteArray):
        return ("ByteArray", "Byte", desc._len, None)
    if isinstance(desc, V.IntArray):
        return ("IntArray", type(desc._validator).__name__, desc._len, None)
    if isinstance(desc, V.FloatArray):
        return ("FloatArray", type(desc._validator).__name__, desc._len, None)
    if isinstance(desc, V.Struct):
        return ("Struct", "Struct", 0, desc._ctype)
    if isinstance(desc, V.Char):
        return ("Char", "Char", 0, None)
    if isinstance(desc, V.String):
        return ("String", "String", desc.len, None)
    if isinstance(desc, V.Byte):
        return ("Byte", "Byte", 0, None)
    if isinstance(desc, (V.IntValidatorBase, V.FloatValidatorBase)):
        return (type(desc).__name__, type(desc).__name__, 0, None)
    return ("?", "?", 0, None)


# ----------------------------------------------------------------------------------------------------------------
# sequences
# ----------------------------------------------------------------------------------------------------------------
def carray(P, k: str, vals: List[Any], L: int, other: bool = False):
    if k == "Struct":
        t = P.P_OTHER if other else P.P_INNER
        return (t * L)()
    return (CT[k] * L)(*vals[:L])


def seq_values(P, k: str, L: int, v: dict) -> Iterator[Tuple[str, Callable[[], Any], Any]]:
    """(label, factory, expected element list or None) for a sequence value class assigned to L slots"""
    t = v["t"]
    good = lambda off=0: good_seq(P, k, L, off)   # noqa: E731
    exp = lambda vals: [expected(k, x) for x in vals]   # noqa: E731
    if t == "GOOD":
        yield "list", good, exp(good())
        if L:
            yield "list(off=2)", (lambda: good(2)), exp(good(2))
    elif t == "TUPLE":
        yield "tuple", (lambda: tuple(good())), exp(good())
    elif t == "GOOD_NAN":
        for pos in sorted({0, L - 1, L // 2} & set(range(L))):
            def mk(pos=pos):
                g = good()
                g[pos] = NAN
                return g
            yield f"nan@{pos}", mk, exp(mk())
        if L:
            yield "allnan", (lambda: [NAN] * L), [NAN] * L
    elif t in ("LENM1", "BYTES_LENM1"):
        if L >= 1:
            f = (lambda: good()[: L - 1])
            yield "len-1", ((lambda: bytes(f())) if t == "BYTES_LENM1" else f), None
    elif t in ("LENP1", "BYTES_LENP1"):
        f = (lambda: good_seq(P, k, L + 1))
        yield "len+1", ((lambda: bytes(f())) if t == "BYTES_LENP1" else f), None
        if t == "LENP1":
            yield "len*2+1", (lambda: good_seq(P, k, 2 * L + 1)), None
    elif t == "EMPTY":
        yield "[]", (lambda: []), []
        yield "()", (lambda: ()), []
    elif t == "STR":
        yield "str", (lambda: "a" * L), None
    elif t == "NONE":
        yield "None", (lambda: None), None
    elif t == "SCALAR":
        yield "scalar", (lambda: good_seq(P, k, 1)[0] if k != "Struct" else inner(P, 1)), None
    elif t == "GEN":
        yield "generator", (lambda: (x for x in good())), exp(good())
    elif t == "ITER":
        yield "iter(list)", (lambda: iter(good())), exp(good())
    elif t == "SET":
        yield "set", (lambda: set(good()) if k != "Struct" else set()), None
    elif t == "RANGE":
        yield "range", (lambda: range(L)), list(range(L))
    elif t == "BYTES":
        yield "bytes", (lambda: bytes(range(1, L + 1))), list(range(1, L + 1))
    elif t == "CARR_SAME":
        if k == "Struct":
            yield "(P_INNER*L)()", (lambda: carray(P, k, [], L)), [bytes(ctypes.sizeof(P.P_INNER))] * L
        else:
            yield "(ctype*L)(..)", (lambda: carray(P, k, good(), L)), exp(good())
    elif t == "CARR_WRAP":
        if L and k in CT_OTHER:
            signed = k.startswith("Int")
            width = ctypes.sizeof(CT[k])
            other = {1: (ctypes.c_uint8, ctypes.c_int8), 2: (ctypes.c_uint16, ctypes.c_int16), 4: (ctypes.c_uint32, ctypes.c_int32),
                     8: (ctypes.c_uint64, ctypes.c_int64)}[width][0 if signed else 1]
            bad = (2 ** (8 * width - 1) + 72) if signed else -56          # representable in the carrier, outside the field's range
            for pos in sorted({0, L - 1, L // 2}):
                def mk(pos=pos):
                    vals = [1] * L
                    vals[pos] = bad
                    return (other * L)(*vals)
                yield f"({other.__name__}*L) bad@{pos}", mk, None
    elif t == "CARR_LEN":
        yield "(ctype*(L+1))()", (lambda: carray(P, k, [], L + 1)), None
    elif t == "CARR_OTHER":
        yield "(P_OTHER*L)()", (lambda: carray(P, k, [], L, other=True)), None
    elif t == "BYTES_OK":
        yield "bytes", (lambda: bytes(good())), exp(good())
    elif t == "BARR_OK":
        yield "bytearray", (lambda: bytearray(good())), exp(good())
    elif t == "ALL00":
        yield "bytes(L)", (lambda: bytes(L)), [0] * L
    elif t == "ALLFF":
        yield "ff*L", (lambda: b"\xff" * L), [255] * L
    elif t in ("BADAT", "OPENAT"):
        p, e, nb = v["p"], v["e"], v["nb"]
        for label, fac in scalar_values(P, k, e):
            def mk(fac=fac):
                g = good()
                if nb == "NAN":
                    g = [NAN] * L
                elif nb == "MIX":
                    g = [NAN if (j % 2 == 0) else g[j] for j in range(L)]
                g[p - 1] = fac()
                return g
            ex = None
            if t == "OPENAT":
                try:
                    ex = exp(mk())
                except Exception:
                    ex = None
            yield f"{e}={label}@{p}/{nb}", mk, ex
    else:
        raise KeyError(t)


# ----------------------------------------------------------------------------------------------------------------
# one case
# ----------------------------------------------------------------------------------------------------------------
def _py(x):
    return None if x == NONE else x


def _observe(msg, do: Callable[[], None], read: Callable[[], Any], cmp: Callable[[Any], bool]) -> dict:
    b0 = bytes(msg)
    try:
        do()
    except (KeyboardInterrupt, SystemExit):
        raise
    except BaseException as ex:   # noqa: BLE001 -- any exception is a refusal
        return {"res": "refused", "exc": type(ex).__name__, "rb": True, "same": bytes(msg) == b0}
    try:
        rb = cmp(read())
    except Exception as ex:   # noqa: BLE001
        return {"res": "accepted", "exc": "", "rb": False, "same": bytes(msg) == b0, "rberr": type(ex).__name__}
    return {"res": "accepted", "exc": "", "rb": bool(rb), "same": bytes(msg) == b0}


def run_case(P, c: dict) -> List[dict]:
    k, n, sh, v = c["k"], c["n"], c["sh"], c["v"]
    out: List[dict] = []

    def emit(label, o):
        o["label"] = label
        out.append(o)

    if sh in ("scalar", "nested", "nestedarr"):
        if k == "Struct":
            clsname, attr = "MDF_P_NEST", "inner"
            target = lambda m: m   # noqa: E731
        else:
            attr = LEAF_FIELD.get(k) or f"s{n}"
            if sh == "scalar":
                clsname, target = "MDF_P_SCAL", (lambda m: m)
            elif sh == "nested":
                clsname, target = "MDF_P_NEST", (lambda m: m.inner)
            else:
                clsname, target = "MDF_P_NEST", (lambda m: m.sa[1])
        for label, fac in scalar_values(P, k, v["t"], n):
            msg = fresh(P, clsname)
            val = fac()

            def cmp(rb, val=val):
                return equal(k, rb, expected(k, val))
            emit(label, _observe(msg, lambda: setattr(target(msg), attr, val), lambda: getattr(target(msg), attr), cmp))
        return out

    clsname, attr = f"MDF_P_ARR{n}", f"a_{k}"
    if sh == "element":
        i = c["i"]
        for label, fac in scalar_values(P, k, v["t"]):
            msg = fresh(P, clsname)
            val = fac()

            def do(msg=msg, val=val):
                getattr(msg, attr)[i] = val

            def cmp(rb, val=val):
                return equal(k, rb, expected(k, val))
            emit(label, _observe(msg, do, lambda: getattr(msg, attr)[i], cmp))
        return out

    if sh in ("whole", "wholeslice", "slice"):
        if sh == "slice":
            key = slice(_py(c["a"]), _py(c["b"]), _py(c["s"]))
            L = len(range(*key.indices(n)))
        else:
            key = slice(None)
            L = n
        if L != c["L"]:
            raise AssertionError(f"slice model of Validation.tla disagrees with Python: {c} python={L}")
        for label, fac, exp in seq_values(P, k, L, v):
            msg = fresh(P, clsname)
            val = fac()

            def do(msg=msg, val=val):
                if sh == "whole":
                    setattr(msg, attr, val)
                else:
                    getattr(msg, attr)[key] = val

            def cmp(rb, exp=exp):
                return True if exp is None else seq_equal(k, rb, exp)
            emit(label, _observe(msg, do, lambda: getattr(msg, attr)[key], cmp))
        return out

    if sh == "viafield":
        t = v["t"]
        others = {"SAME": (clsname, attr), "OTHERLEN": (f"MDF_P_ARR{EXTRA_LEN}", attr),
                  "OTHERKIND": (clsname, f"a_{OTHER_KIND[k]}"), "UNBOUND": (clsname, attr)}[t]
        msg = fresh(P, clsname)
        src = fresh(P, others[0])
        fill_background(P, src, 11)
        if t == "OTHERKIND" and k != "Struct":
            setattr(src, others[1], [1] * n)       # values inside both domains
        val = getattr(type(src), others[1]) if t == "UNBOUND" else getattr(src, others[1])
        try:
            exp = [expected(k, x) for x in getattr(src, others[1])[:]] if t in ("SAME", "OTHERKIND") else None
        except Exception:
            exp = None

        def cmp(rb, exp=exp):
            return True if exp is None else seq_equal(k, rb, exp)
        emit(t, _observe(msg, lambda: setattr(msg, attr, val), lambda: getattr(msg, attr)[:], cmp))
        return out
    raise KeyError(sh)


# ----------------------------------------------------------------------------------------------------------------
# disable blocks
# ----------------------------------------------------------------------------------------------------------------
class _Unwind(Exception):
    def __init__(self, k: int):
        super().__init__(k)
        self.k = k


class _UnwindBase(BaseException):
    """leaving a block through an exception that is NOT an Exception subclass (KeyboardInterrupt, SystemExit, GeneratorExit,
    asyncio.CancelledError are of this kind): validation must be back on just the same"""
    def __init__(self, k: int):
        super().__init__(k)
        self.k = k


class _UnwindKbd(KeyboardInterrupt):
    def __init__(self, k: int):
        super().__init__(k)
        self.k = k


_UNWINDS = (_Unwind, _UnwindBase, _UnwindKbd)


def _take_handles(P) -> list:
    """read array fields and keep the objects (with their message and a write of a value outside the domain through them)"""
    a = fresh(P, f"MDF_P_ARR{EXTRA_LEN}")
    n = fresh(P, "MDF_P_NEST")
    return [(a, a.a_Int16, lambda h: h.__setitem__(0, 2 ** 15)),
            (a, a.a_Uint8, lambda h: h.__setitem__(slice(0, 2), [1, 256])),
            (a, a.a_Float, lambda h: h.__setitem__(1, 1e39)),
            (a, a.a_Byte, lambda h: h.__setitem__(0, 300)),
            (n, n.sa, lambda h: h.__setitem__(0, ())),
            (n, n.sa, lambda h: h.__setitem__(slice(0, 1), [5]))]


def _probe(P, handles: Optional[list] = None) -> dict:
    """values outside the domain must be refused (and leave the message alone); values inside must be stored.
    `handles`: array objects obtained at EARLIER points of the behaviour (inside or outside blocks): writes through them count too"""
    bads = [("MDF_P_SCAL", lambda m: setattr(m, "i8", 128)),
            ("MDF_P_SCAL", lambda m: setattr(m, "u16", -1)),
            ("MDF_P_SCAL", lambda m: setattr(m, "f32", 1e39)),
            ("MDF_P_SCAL", lambda m: setattr(m, "ch", "é")),
            ("MDF_P_SCAL", lambda m: setattr(m, "by", 256)),
            ("MDF_P_NEST", lambda m: setattr(m.inner, "i32", 2 ** 31)),
            ("MDF_P_NEST", lambda m: m.sa.__setitem__(0, 5)),
            (f"MDF_P_ARR{EXTRA_LEN}", lambda m: m.a_Int16.__setitem__(slice(0, 2), [1, 2 ** 15])),
            (f"MDF_P_ARR{EXTRA_LEN}", lambda m: setattr(m, "a_Byte", [1, 2, 3, 4, 5, 6, 300]))]
    accepted, changed = [], []
    for j, (cn, f) in enumerate(bads):
        m = fresh(P, cn)
        b0 = bytes(m)
        try:
            f(m)
            accepted.append(j)
        except (KeyboardInterrupt, SystemExit):
            raise
        except BaseException:   # noqa: BLE001
            if bytes(m) != b0:
                changed.append(j)
    for j, (hm, h, f) in enumerate(handles or []):
        b0 = bytes(hm)
        try:
            f(h)
            accepted.append(100 + j)
            ctypes.memmove(ctypes.addressof(hm), b0, len(b0))       # undo the raw write for the next probe
        except (KeyboardInterrupt, SystemExit):
            raise
        except BaseException:   # noqa: BLE001
            if bytes(hm) != b0:
                changed.append(100 + j)
    good = "ok"
    m = fresh(P, "MDF_P_SCAL")
    a = fresh(P, f"MDF_P_ARR{EXTRA_LEN}")
    try:
        m.i8 = -128
        m.f32 = 0.5
        m.s8 = "ok"
        a.a_Double[1:3] = [1.5, NAN]
        if not (m.i8 == -128 and m.f32 == 0.5 and m.s8 == "ok" and a.a_Double[1] == 1.5 and math.isnan(a.a_Double[2])):
            good = "differs"
    except (KeyboardInterrupt, SystemExit):
        raise
    except BaseException:   # noqa: BLE001
        good = "refused"
    return {"a": "Probe", "badref": not accepted, "badsame": not changed, "good": good, "accepted": accepted, "changed": changed}


def run_blocks(P, beh: List[dict], kind: int = 0) -> List[dict]:
    """execute a behaviour [Enter(m) | ExitNormal | ExitByException(k)] with real with-blocks; returns the event list"""
    from pyrtma.validators import disable_message_validation

    ev: List[dict] = []
    held: list = []

    def probe():
        e = _probe(P, list(held))
        held.extend(_take_handles(P))        # objects made HERE are written through at every later probe
        return e

    class Other:
        """another thread of the process that enters / leaves disable blocks of its own on command"""

        def __init__(self):
            import queue
            import threading
            self.q, self.done = queue.Queue(), queue.Queue()
            self.t = threading.Thread(target=self.loop, daemon=True)
            self.t.start()

        def loop(self):
            cms = []
            while True:
                cmd = self.q.get()
                try:
                    if cmd == "enter":
                        cm = disable_message_validation()
                        cm.__enter__()
                        cms.append(cm)
                    elif cmd == "exit" and cms:
                        cm = cms.pop()
                        if len(cms) % 2:
                            cm.__exit__(None, None, None)
                        else:       # left by an exception
                            try:
                                cm.__exit__(ValueError, ValueError("x"), None)
                            except BaseException:   # noqa: BLE001
                                pass
                    elif cmd == "stop":
                        while cms:
                            cms.pop().__exit__(None, None, None)
                        self.done.put("ok")
                        return
                    self.done.put("ok")
                except BaseException as e:   # noqa: BLE001
                    self.done.put(repr(e))

        def do(self, cmd):
            self.q.put(cmd)
            return self.done.get(timeout=30)

    other = [None]

    def level(i: int, depth: int) -> Tuple[int, int, bool]:
        """runs steps from i at this nesting level; returns (next i, blocks still to unwind by exception, explicit exit)"""
        while i < len(beh):
            s = beh[i]
            if s["a"] in ("OtherEnter", "OtherExit"):
                if other[0] is None:
                    other[0] = Other()
                other[0].do("enter" if s["a"] == "OtherEnter" else "exit")
                ev.append({"a": s["a"], "m": s.get("m", "-"), "k": s.get("k", 0)})
                ev.append(probe())
                i += 1
                continue
            if s["a"] == "Enter":
                pend, explicit = 0, True
                ev.append({"a": "Enter", "m": s["m"], "k": 0})
                try:
                    with disable_message_validation(ignore=(s["m"] == "ign")):
                        ev.append(probe())
                        i, pend, explicit = level(i + 1, depth + 1)
                        if pend > 0:
                            raise _UNWINDS[kind % 3](pend)
                        if not explicit:
                            ev.append({"a": "ExitNormal", "m": "-", "k": 1})    # behaviour over: close normally
                except _UNWINDS as u:
                    pend = u.k - 1
                if pend > 0:
                    return i, pend, True         # keep propagating through the enclosing block
                ev.append(probe())
                continue
            if depth == 0:
                raise AssertionError("exit step outside any block: " + repr(beh))
            if s["a"] == "ExitNormal":
                ev.append({"a": "ExitNormal", "m": "-", "k": 1})
                return i + 1, 0, True
            if s["a"] == "ExitByException":
                ev.append({"a": "ExitByException", "m": "-", "k": s["k"]})
                return i + 1, s["k"], True
            raise KeyError(s["a"])
        return i, 0, False

    def body():
        ev.append(probe())
        level(0, 0)

    try:
        contextvars.copy_context().run(body)
    finally:
        if other[0] is not None:
            other[0].do("stop")
            other[0].t.join(30)
    return ev
