"""readdrv -- a REAL pyrtma Client whose socket is a scripted in-memory byte stream (C08)."""
from __future__ import annotations

import errno
import socket as _rs
import struct
import sys
from typing import Any, Dict, List, Optional

sys.path.insert(0, __import__("os").environ.get("VF_REPO", "/repo") + "/src")
from . import frames as F


class Blocks(Exception):
    pass


class ScriptSock:
    def __init__(self, chunk=None):
        self.inbuf = bytearray()
        self.fin = False
        self.rst = False
        self.closed = False
        self.sent = bytearray()
        self.consumed = 0
        self.chunk = chunk

    def fileno(self):
        return -1 if self.closed else 77

    def setsockopt(self, *a):
        pass

    def close(self):
        self.closed = True

    def sendall(self, b, flags=0):
        if self.closed:
            raise OSError(errno.EBADF, "Bad file descriptor")
        self.sent += bytes(b)

    def _core(self, n, waitall):
        if self.closed:
            raise OSError(errno.EBADF, "Bad file descriptor")
        if self.rst:
            self.rst = False
            self.fin = True
            self.inbuf.clear()
            raise ConnectionResetError(errno.ECONNRESET, "Connection reset by peer")
        if n == 0:
            return b""
        have = len(self.inbuf)
        if have >= n or (have > 0 and not waitall) or self.fin:
            k = min(n, have)
            if not waitall and self.chunk:
                k = min(k, self.chunk)
            out = bytes(self.inbuf[:k])
            del self.inbuf[:k]
            self.consumed += k
            return out
        raise Blocks(f"read of {n} with {have} available")

    def recv_into(self, buf, nbytes=0, flags=0):
        mv = memoryview(buf).cast("B")
        if nbytes < 0:
            raise ValueError("negative buffersize in recv_into")
        if nbytes == 0:
            nbytes = len(mv)
        if nbytes > len(mv):
            raise ValueError("buffer too small for requested bytes")
        d = self._core(nbytes, bool(flags & _rs.MSG_WAITALL))
        mv[: len(d)] = d
        return len(d)

    def recv(self, n, flags=0):
        if n < 0:
            raise ValueError("negative buffersize in recv")
        return self._core(n, bool(flags & _rs.MSG_WAITALL))


class _Select:
    error = OSError

    def __init__(self, clock):
        self.clock = clock

    def select(self, r, w, x, timeout=None):
        if w and not r:
            return [], list(w), []
        out = [s for s in r if isinstance(s, ScriptSock) and (s.inbuf or s.fin or s.rst)]
        if not out:
            if timeout is None:
                raise Blocks("select without timeout and nothing to read")
            self.clock[0] += max(timeout, 0)
        return out, [], []


class _Time:
    def __init__(self, clock):
        self.clock = clock

    def perf_counter(self):
        self.clock[0] += 1e-6
        return self.clock[0]

    def time(self):
        return 1.7e9 + self.clock[0]

    def sleep(self, dt):
        self.clock[0] += dt


TM = {"zero": 0, "pos": 0.25, "tiny": 1e-6, "block": -1}


class ReadStand:
    """Client + scripted socket.  Local definitions: MT 26 (MODULE_READY, 4 bytes), MT 34 (CLIENT_SET_NAME,
    32 bytes), MT 14 (DISCONNECT, 0 bytes) from core_defs; 4321 has no definition."""

    def __init__(self, timecode=False, chunk=None, blocking_none=False):
        import pyrtma.client as C
        import pyrtma.core_defs as cd
        import pyrtma.message as M

        self.C, self.cd = C, cd
        self.clock = [0.0]
        self.saved = [(C, "select", C.select), (C, "time", C.time)]
        C.select = _Select(self.clock)
        C.time = _Time(self.clock)
        self.timecode = timecode
        self.blocking_none = blocking_none
        self.c = C.Client(module_id=10, timecode=timecode)
        self.sock = ScriptSock(chunk)
        self.c._sock = self.sock
        self.c._connected = True
        self.hashes = {t: M.get_msg_cls(t).type_hash for t in (26, 34, 14, 2)}
        self.sizes = {26: 4, 34: 32, 14: 0, 2: 0}
        self.frames: Dict[int, bytes] = {}
        self.bounds: List[tuple] = []   # (id, start, end) stream offsets
        self.total = 0
        self.events: List[dict] = []
        self.partial_last = False
        self.kept: List[tuple] = []     # (message object handed out, the frame it was read from, header size)

    def restore(self):
        self.c._connected = False       # keep Client.__del__ from talking to a real select() on a fake socket
        for m, n, o in self.saved:
            setattr(m, n, o)

    # -- environment ------------------------------------------------------------
    def arrive(self, cls: str, t: int, fid: int):
        hs = F.hdr_struct(self.timecode).size
        if cls in ("zerolen", "wrongver0"):
            t = 14
        size = self.sizes.get(t, 10)
        payload = bytes(((fid * 37 + i) & 0x7F) or 1 for i in range(size))
        ver = self.hashes.get(t, 0)
        if cls == "unknown":
            t, payload, ver = 4321, bytes(range(1, 11)), 12345
        elif cls == "wrongsize":
            payload = payload + b"\x55" * 4 if fid % 2 else payload[: max(0, size - 1)]
        elif cls == "wrongsize0":
            payload = b""
        elif cls == "wrongboth":
            # a changed definition at the sender: other size and other hash; the tail looks like a header of an unknown type
            payload = (payload + b"\x0f\x27\x00\x00" + b"\x55" * 8) if fid % 2 else payload[: max(0, size - 1)]
            ver = (ver + 1) & 0xFFFFFFFF or 1
        elif cls in ("wrongver", "wrongver0"):
            ver = (ver + 1) & 0xFFFFFFFF or 1
        elif cls == "zerover":
            ver = 0
        elif cls == "ack":
            t, payload, ver = 2, b"", 0
        h = F.build_header(self.timecode, t, 5, 10, 0, len(payload), count=fid, version=ver, send_time=1000.0 + fid, shost=1)
        b = h + payload
        self.frames[fid] = b
        self.bounds.append((fid, self.total, self.total + len(b)))
        self.total += len(b)
        self.sock.inbuf += b
        self.events.append({"a": "Arrive", "cls": cls, "t": t, "id": fid})

    def cut(self, kind: str):
        if kind == "rst":
            self.sock.rst = True
        elif kind == "fin":
            self.sock.fin = True
        elif kind in ("finmid", "finbody") and not self.bounds:
            self.sock.fin = True
            kind = "fin"
        elif kind in ("finmid", "finbody"):
            # the peer closes inside the last frame: drop its tail (if it is still unread at all)
            fid, a, b = self.bounds[-1]
            unread_from = self.sock.consumed
            hs = F.hdr_struct(self.timecode).size
            pay = (b - a) - hs
            if kind == "finbody" and pay < 1:
                kind = "finmid"                     # nothing but a header to cut
            if b - max(a, unread_from) >= 2 and unread_from <= a:
                if kind == "finbody":
                    # header complete: no payload byte at all, or the payload cut short
                    drop = pay if (pay < 2 or (fid + len(self.bounds)) % 2) else max(1, pay // 2)
                else:
                    drop = pay + max(1, hs // 2)    # inside the header
                del self.sock.inbuf[len(self.sock.inbuf) - drop:]
                self.partial_last = True
            else:
                kind = "fin"
            self.sock.fin = True
        self.events.append({"a": "Cut", "kind": kind})

    def reconnect(self):
        """the client object connects again after its connection was lost: a fresh socket, the real CONNECT / ACKNOWLEDGE handshake"""
        c = self.c
        if c.connected:
            return
        self.sock = ScriptSock(self.sock.chunk)
        c._sock = self.sock
        c._connected = True                      # what _socket_connect() does once the TCP connection stands
        ack = F.build_header(self.timecode, 2, 0, 10, 0, 0, count=1, version=0, send_time=1.0, shost=0)
        self.sock.inbuf += ack
        try:
            c._connect_helper(False, False, False)
        except Exception as e:   # noqa: BLE001
            self.events.append({"a": "ReconnectFailed", "exc": type(e).__name__})
            return
        self.sock.consumed = 0
        self.sock.inbuf.clear()
        self.bounds, self.total, self.partial_last = [], 0, False
        self.events.append({"a": "Reconnect"})

    def sub(self, op: str, t: int):
        c = self.c
        try:
            if op == "sub":
                c.subscribe([t])
            elif op == "unsub":
                c.unsubscribe([t])
            elif op == "suball":
                c.subscribe([F.ALL])
            elif op == "unsuball":
                c.unsubscribe([F.ALL])
        except Exception as e:
            return
        self.events.append({"a": "Sub", "op": op, "t": t})

    # -- the call under test ------------------------------------------------------
    def read(self, tm: str, ack: bool, sync: bool):
        c = self.c
        res: Dict[str, Any]
        try:
            m = c.read_message(timeout=TM[tm], ack=ack, sync_check=sync)
            if m is None:
                res = {"k": "none"}
            else:
                hb = bytes(m.header)
                fid = m.header.msg_count
                want = self.frames.get(fid)
                hs = len(hb)
                faithful = False
                if want is not None:
                    # recv_time is stamped by the reader: excluded from the comparison (bytes 16..24)
                    faithful = (hb[:16] + hb[24:] == want[:16] + want[24:hs]) and bytes(m.data) == want[hs:]
                res = {"k": "msg", "id": fid if want is not None else -1, "faithful": faithful, "t": m.header.msg_type}
                if want is not None:
                    self.kept.append((m, want, hs))
        except Blocks:
            res = {"k": "blocks"}
        except Exception as e:  # noqa
            res = {"k": "raise", "exc": type(e).__name__}
        pos = self.sock.consumed
        left = []
        desync = False
        for fid, a, b in self.bounds:
            if a >= pos:
                left.append(fid)
            elif b > pos:
                desync = True       # stopped inside a frame
        if self.sock.fin and not self.sock.rst and len(self.sock.inbuf) == 0:
            # the stream has ended: frames destroyed by a reset / cut are not "left", nothing is mid-frame
            left, desync = [], False
        elif self.partial_last and left and left[-1] == self.bounds[-1][0]:
            left = left[:-1] if False else left
        # messages returned EARLIER (the caller may still hold them) keep the bytes they were returned with
        earlier = True
        for m0, want0, hs0 in self.kept:
            hb0 = bytes(m0.header)
            if not ((hb0[:16] + hb0[24:] == want0[:16] + want0[24:hs0]) and bytes(m0.data) == want0[hs0:]):
                earlier = False
        ev = {"a": "Read", "tm": tm, "ack": bool(ack), "sync": bool(sync), "res": res, "connected": bool(c.connected),
              "left": left, "desync": desync, "earlier": earlier}
        self.events.append(ev)
        return ev
