"""frames -- projection between raw RTMA bytes and the abstract frames of spec/Manager.tla.

The wire layout is written here from core_defs.yaml with `struct`, independently of the
generated ctypes classes in pyrtma.core_defs (so a slip in those is not masked).
"""
from __future__ import annotations

import struct
from typing import Any, Dict, List, Optional, Tuple

HDR = struct.Struct("<iiddhhhhiiiI")  # 48 bytes
HDR_TC = struct.Struct("<iiddhhhhiiiIII")  # 56 bytes (timecode variant)
HDR_FIELDS = (
    "msg_type msg_count send_time recv_time src_host_id src_mod_id dest_host_id dest_mod_id "
    "num_data_bytes remaining_bytes is_dynamic reserved"
).split()

ALL = 0x7FFFFFFF
MT = dict(
    EXIT=0, KILL=1, ACK=2, CONNECT_V2=4, FAIL_SUBSCRIBE=6, FAILED=8, CONNECT=13, DISCONNECT=14,
    SUBSCRIBE=15, UNSUBSCRIBE=16, READY=26, TRAFFIC=30, ACTIVE=31, CLIENT_INFO=32,
    CLIENT_CLOSED=33, SET_NAME=34, LOG=40, LOG_CRITICAL=41, LOG_ERROR=42, LOG_WARNING=43,
    LOG_INFO=44, LOG_DEBUG=45, TIMING=80, FORCE_DISCONNECT=82, PAUSE=85, RESUME=86,
)
MAX_MODULES, DYN_START, MAX_HOSTS, MAX_TYPES = 200, 100, 5, 10000
TRAFFIC_SIZE, MAX_ACTIVE = 64, 256

CONNECT = struct.Struct("<hh")
CONNECT_V2 = struct.Struct("<hhhhi32s")
SUBCTL = struct.Struct("<i")
READY = struct.Struct("<i")
SETNAME = struct.Struct("<32s")
CLIENTINFO = struct.Struct("<32siihhhH32s")  # addr uid pid mod_id is_logger is_unique port name
FAILED = struct.Struct("<h3hd")  # + 48 byte header
TRAFFIC = struct.Struct("<IIdd64i64H")
ACTIVE = struct.Struct("<dhhi256h256i")
TIMING_SIZE = 2 * MAX_TYPES + 4 * MAX_MODULES + 8


def hdr_struct(timecode: bool) -> struct.Struct:
    return HDR_TC if timecode else HDR


def cstr(b: bytes) -> str:
    b = b.split(b"\0", 1)[0]
    try:
        return b.decode("ascii")
    except UnicodeDecodeError:
        return "<non-ascii:" + b.hex() + ">"


def build_header(timecode: bool, t: int, src: int, dst: int, dhost: int, nbytes: int, *,
                 count: int = 0, shost: int = 0, version: int = 0, send_time: float = 0.0,
                 recv_time: float = 0.0, remaining: int = 0, is_dynamic: int = 0) -> bytes:
    vals = [t, count, send_time, recv_time, shost, src, dhost, dst, nbytes, remaining, is_dynamic, version]
    if timecode:
        vals += [0, 0]
    return hdr_struct(timecode).pack(*vals)


def parse_header(b: bytes, timecode: bool) -> Dict[str, Any]:
    vals = hdr_struct(timecode).unpack(b)
    return dict(zip(HDR_FIELDS, vals))


class Payloads:
    """Registry of distinct (pass-through header fields + payload bytes) -> small id."""

    def __init__(self):
        self.by_key: Dict[bytes, int] = {}
        self.keys: List[bytes] = []

    @staticmethod
    def key(hdr_bytes: bytes, payload: bytes) -> bytes:
        # everything the manager must pass through unchanged except the explicit abstract
        # fields and msg_count (which the manager restamps): zero msg_count (bytes 4..8)
        return hdr_bytes[:4] + b"\0\0\0\0" + hdr_bytes[8:] + payload

    def register(self, hdr_bytes: bytes, payload: bytes) -> int:
        k = self.key(hdr_bytes, payload)
        if k not in self.by_key:
            self.by_key[k] = len(self.keys) + 1
            self.keys.append(k)
        return self.by_key[k]

    def lookup(self, hdr_bytes: bytes, payload: bytes) -> int:
        return self.by_key.get(self.key(hdr_bytes, payload), -1)


def control_payload(t: int, payload: bytes) -> Optional[Dict[str, Any]]:
    """Abstract payload record of a client->manager control frame, None if not a control type
    or its payload has the wrong size (then it is classified by the caller)."""
    if t == MT["CONNECT"] and len(payload) == CONNECT.size:
        lg, dm = CONNECT.unpack(payload)
        return {"k": "con", "logger": lg, "daemon": dm}
    if t == MT["CONNECT_V2"] and len(payload) == CONNECT_V2.size:
        lg, dm, multi, mid, pid, name = CONNECT_V2.unpack(payload)
        return {"k": "con2", "logger": lg, "daemon": dm, "multi": multi, "id": mid, "pid": pid, "name": cstr(name)}
    if t in (MT["SUBSCRIBE"], MT["UNSUBSCRIBE"], MT["PAUSE"], MT["RESUME"]) and len(payload) == 4:
        return {"k": "sub", "mt": SUBCTL.unpack(payload)[0]}
    if t == MT["READY"] and len(payload) == 4:
        return {"k": "rdy", "pid": READY.unpack(payload)[0]}
    if t == MT["SET_NAME"] and len(payload) == 32:
        return {"k": "name", "name": cstr(payload)}
    if t == MT["DISCONNECT"] and len(payload) == 0:
        return {"k": "none"}
    return None


CONTROL_TYPES = {MT[k] for k in ("CONNECT", "CONNECT_V2", "SUBSCRIBE", "UNSUBSCRIBE", "PAUSE", "RESUME", "READY", "SET_NAME", "DISCONNECT")}


def build_control(p: Dict[str, Any]) -> bytes:
    k = p["k"]
    if k == "con":
        return CONNECT.pack(p["logger"], p["daemon"])
    if k == "con2":
        name = p["name"]
        nb = name if isinstance(name, bytes) else name.encode("latin-1")
        return CONNECT_V2.pack(p["logger"], p["daemon"], p["multi"], p["id"], p["pid"], nb)
    if k == "sub":
        return SUBCTL.pack(p["mt"])
    if k == "rdy":
        return READY.pack(p["pid"])
    if k == "name":
        return SETNAME.pack(p["name"].encode("latin-1"))
    if k == "none":
        return b""
    raise ValueError(k)


def manager_payload(t: int, payload: bytes, timecode: bool) -> Optional[Dict[str, Any]]:
    """Abstract payload of a frame originated by the manager (src_mod_id 0)."""
    if t == MT["ACK"] and not payload:
        return {"k": "none"}
    if t in (MT["CLIENT_INFO"], MT["CLIENT_CLOSED"]) and len(payload) == CLIENTINFO.size:
        addr, uid, pid, mid, lg, uq, port, name = CLIENTINFO.unpack(payload)
        if mid == 0 and uid == 0 and cstr(name) == "message_manager":
            pid = 0         # the manager's own entry carries the pid of the process under test
        return {"k": "ci", "id": mid, "logger": lg, "uniq": uq, "name": cstr(name), "pid": pid, "uid": uid}
    if t == MT["FAILED"] and len(payload) == FAILED.size + 48:
        mid, _, _, _, tof = FAILED.unpack(payload[: FAILED.size])
        h = parse_header(payload[FAILED.size:], False)
        return {"k": "failed", "mid": mid, "ft": h["msg_type"], "fsrc": h["src_mod_id"], "fdst": h["dest_mod_id"]}
    if t == MT["TRAFFIC"] and len(payload) == TRAFFIC.size:
        v = TRAFFIC.unpack(payload)
        seqno, sub = v[0], v[1]
        types, counts = v[4:68], v[68:132]
        ent = []
        for ty, c in zip(types, counts):
            if ty == -1:  # filler marks the end of the used slots
                break
            ent.append([ty, c])
        return {"k": "traffic", "seqno": seqno, "sub": sub, "ent": ent}
    if t == MT["ACTIVE"] and len(payload) == ACTIVE.size:
        v = ACTIVE.unpack(payload)
        n = v[1]
        ids = list(v[4:260])
        # slot 0 is the manager's own module; the property talks about the clients
        return {"k": "active", "n": n, "ids": ids[1: 1 + max(0, min(n, 255))]}
    if t == MT["TIMING"] and len(payload) == TIMING_SIZE:
        timing = struct.unpack_from("<%dH" % MAX_TYPES, payload, 0)
        pids = struct.unpack_from("<%di" % MAX_MODULES, payload, 2 * MAX_TYPES)
        return {
            "k": "timing",
            "counts": [[i, c] for i, c in enumerate(timing) if c],
            "pids": [[i, p] for i, p in enumerate(pids) if p and i != 0],
        }
    return None


def split_frames(stream: bytes, timecode: bool) -> Tuple[List[Tuple[bytes, bytes]], bytes]:
    """Split a byte stream into (header, payload) frames; returns frames and the unparsed rest."""
    hs = hdr_struct(timecode).size
    out = []
    i = 0
    n = len(stream)
    while n - i >= hs:
        h = stream[i: i + hs]
        nb = struct.unpack_from("<i", h, 32)[0]
        if nb < 0 or n - i - hs < nb:
            break
        out.append((h, stream[i + hs: i + hs + nb]))
        i += hs + nb
    return out, stream[i:]
