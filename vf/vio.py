"""vio -- deterministic virtual I/O for pyrtma's manager and client.

Nothing in /repo is edited: the module-level names `select`, `socket`, `random`,
`time` that pyrtma.manager / pyrtma.client look up at call time are replaced by the
objects below for the duration of a run.  Every `select.select` issued by the
manager is a scheduling point answered from a script, so any schedule a TLA+
behaviour describes can be executed (and re-executed) on the real code.

Threads: the real `MessageManager.run()` executes in its own thread, but a baton
guarantees that exactly one of {driver, manager} runs at any time.
"""
from __future__ import annotations

import errno
import socket as _real_socket
import threading
import traceback
from typing import Any, Dict, List, Optional


class HarnessError(Exception):
    """Machinery failure (never a verdict about the code under test)."""


class Livelock(BaseException):
    """the manager keeps reading from a connection that is at end-of-stream without ever returning to select(): it serves nobody
    (raised INSIDE the manager thread by the fake socket, so that run() unwinds like after any other fatal error)"""


class WouldBlock(HarnessError):
    pass


_HASH_SALT = [0x9E3779B1]


class _End:
    """One end of an in-memory duplex TCP connection."""

    def __init__(self, net: "Net", name: str, side: str):
        self.net = net
        self.name = name
        self.side = side  # "srv" (held by manager) or "cli"
        self.inbuf = bytearray()
        self.peer: Optional[_End] = None
        self.closed = False  # this end closed by its owner
        self.fin_in = False  # peer sent FIN (after inbuf is drained: EOF)
        self.rst_in = False  # peer sent RST (next recv raises)
        self.fail_after: Optional[int] = None  # sendall calls that still succeed
        self.fail_exc = BrokenPipeError
        self.sent = bytearray()  # everything successfully written by this end
        self.chunk: Optional[int] = None  # max bytes a read WITHOUT MSG_WAITALL returns (segment size)
        self.space: Optional[int] = None  # room in the send buffer; only consulted by NON-BLOCKING sends
        self.space_per_round: Optional[int] = None
        self._hash = None

    # --- identity ---------------------------------------------------------
    def __hash__(self):
        if self._hash is None:
            h = (hash(self.name) * 2654435761 + _HASH_SALT[0]) & 0x7FFFFFFF
            self._hash = h
        return self._hash

    def __eq__(self, other):
        return self is other

    def __repr__(self):
        return f"<vio {self.side}:{self.name}>"

    def fileno(self):
        if self.closed:
            return -1
        return 1000 + abs(hash(self)) % 100000

    # --- options ----------------------------------------------------------
    def setsockopt(self, *a):
        if self.closed:
            raise OSError(errno.EBADF, "Bad file descriptor")
        # SO_SNDTIMEO: a blocking send that finds the send buffer full writes what fits and fails with EAGAIN
        # (the unchanged manager never sets it; a change that does leaves a partial frame on an open connection)
        if len(a) >= 3 and a[0] == _real_socket.SOL_SOCKET and a[1] == _real_socket.SO_SNDTIMEO:
            v = a[2]
            nz = any(bytes(v)) if isinstance(v, (bytes, bytearray, memoryview)) else bool(v)
            self.timeout = 0.5 if nz else None
            self.timeout_eagain = nz

    def settimeout(self, t=None, *a):
        self.timeout_eagain = False
        self.timeout = t        # a timed send that finds the send buffer full writes what fits and raises socket.timeout
        return
        pass

    def getpeername(self):
        return ("127.0.0.1", 40000)

    # --- reading ----------------------------------------------------------
    def _avail(self) -> int:
        return len(self.inbuf)

    def _recv_core(self, n: int, waitall: bool) -> bytes:
        if self.closed:
            raise OSError(errno.EBADF, "Bad file descriptor")
        if self.rst_in:
            self.rst_in = False
            self.fin_in = True
            self.inbuf.clear()
            self.net.ev("recv", self, n, -1)
            raise ConnectionResetError(errno.ECONNRESET, "Connection reset by peer")
        if n == 0:
            return b""
        while True:
            have = len(self.inbuf)
            if have >= n or (have > 0 and not waitall) or self.fin_in:
                if have == 0 and self.fin_in:
                    self.eof_reads = getattr(self, "eof_reads", 0) + 1
                    if self.eof_reads > 2000:
                        raise Livelock(f"{self!r}: end of stream read {self.eof_reads} times")
                k = min(n, have)
                if not waitall and self.chunk:
                    k = min(k, self.chunk)
                out = bytes(self.inbuf[:k])
                del self.inbuf[:k]
                self.net.ev("recv", self, n, out)
                return out
            # would block: give the other side a chance to produce data
            if not self.net.on_block(self):
                raise WouldBlock(f"{self!r}: blocking read of {n} bytes, {have} available")

    def recv_into(self, buf, nbytes=0, flags=0):
        mv = memoryview(buf).cast("B")
        if nbytes < 0:
            raise ValueError("negative buffersize in recv_into")
        if nbytes == 0:
            nbytes = len(mv)
        if nbytes > len(mv):
            raise ValueError("buffer too small for requested bytes")
        data = self._recv_core(nbytes, bool(flags & _real_socket.MSG_WAITALL))
        mv[: len(data)] = data
        return len(data)

    def recv(self, n, flags=0):
        if n < 0:
            raise ValueError("negative buffersize in recv")
        return self._recv_core(n, bool(flags & _real_socket.MSG_WAITALL))

    # --- writing ----------------------------------------------------------
    def sendall(self, data, flags=0):
        b = bytes(data)
        if self.closed:
            self.net.ev("send", self, b, "EBADF")
            raise OSError(errno.EBADF, "Bad file descriptor")
        if getattr(self, "timeout", None) is not None and not (flags & _real_socket.MSG_DONTWAIT) and self.space is not None and self.side == "srv":
            if len(b) > self.space:
                part = b[: self.space]
                self.space = 0
                if part:
                    self.sent += part
                    if self.peer is not None and not self.peer.closed:
                        self.peer.inbuf += part
                    self.net.ev("send", self, part, None)
                if getattr(self, "timeout_eagain", False):
                    self.net.ev("send", self, b"", "BlockingIOError")
                    raise BlockingIOError(errno.EAGAIN, "Resource temporarily unavailable")
                self.net.ev("send", self, b"", "timeout")
                raise _real_socket.timeout("timed out")
            self.space -= len(b)
        if (flags & _real_socket.MSG_DONTWAIT) and self.space is not None:
            # a non-blocking send takes what the send buffer has room for and then reports EAGAIN
            if len(b) > self.space:
                part = b[: self.space]
                self.space = 0
                if part:
                    self.sent += part
                    if self.peer is not None and not self.peer.closed:
                        self.peer.inbuf += part
                    self.net.ev("send", self, part, None)
                self.net.ev("send", self, b"", "BlockingIOError")
                raise BlockingIOError(errno.EAGAIN, "Resource temporarily unavailable")
            self.space -= len(b)
        if self.fail_after is not None:
            if self.fail_after <= 0:
                self.net.ev("send", self, b, self.fail_exc.__name__)
                raise self.fail_exc(errno.EPIPE, "Broken pipe")
            self.fail_after -= 1
        self.sent += b
        peer = self.peer
        if peer is not None and not peer.closed:
            peer.inbuf += b
        self.net.ev("send", self, b, None)

    send = sendall

    # --- closing ----------------------------------------------------------
    def close(self):
        if self.closed:
            return
        self.closed = True
        self.net.ev("close", self)
        if self.peer is not None:
            self.peer.fin_in = True

    def shutdown(self, how):
        self.close()

    # harness-side fault injection (acts on the *client* end) ---------------
    def peer_reset(self):
        """The owner of this end vanishes with RST: the peer's next read raises and
        the peer's writes fail."""
        self.closed = True
        p = self.peer
        p.rst_in = True
        p.fail_after = 0
        p.fail_exc = ConnectionResetError


class _Listener:
    def __init__(self, net: "Net"):
        self.net = net
        self.pending: List[_End] = []
        self.closed = False
        self.name = "L"

    def __hash__(self):
        return 7

    def __eq__(self, o):
        return self is o

    def __repr__(self):
        return "<vio listener>"

    def bind(self, addr):
        self.addr = addr

    def listen(self, n=0):
        pass

    def setsockopt(self, *a):
        pass

    def fileno(self):
        return -1 if self.closed else 999

    def accept(self):
        if not self.pending:
            raise WouldBlock("accept with nothing pending")
        srv = self.pending.pop(0)
        srv.accepted = True
        self.net.ev("accept", srv)
        return srv, ("127.0.0.1", 50000 + self.net.naccepted())

    def close(self):
        self.closed = True


class FakeSocketModule:
    """Stands in for the `socket` module inside pyrtma.manager / pyrtma.client."""

    def __init__(self, net: "Net", role: str):
        self._net = net
        self._role = role
        for k in dir(_real_socket):
            if k.isupper():
                setattr(self, k, getattr(_real_socket, k))
        self.error = _real_socket.error
        self.timeout = _real_socket.timeout

    def getprotobyname(self, n):
        return 6

    def socket(self, *a, **kw):
        if self._role == "manager":
            l = _Listener(self._net)
            self._net.listener = l
            return l
        return _ClientSock(self._net)


class _ClientSock:
    """What pyrtma.client gets from socket.socket(); becomes connected on connect()."""

    def __init__(self, net: "Net"):
        self.net = net
        self.end: Optional[_End] = None
        self._closed = False

    def __hash__(self):
        return id(self) & 0x7FFFFFFF

    def connect(self, addr):
        if self.net.listener is None or self.net.listener.closed or self.net.mgr_dead:
            raise ConnectionRefusedError(errno.ECONNREFUSED, "Connection refused")
        name = self.net.next_client_name()
        self.end = self.net.open_conn(name)

    def setsockopt(self, *a):
        pass

    def close(self):
        self._closed = True
        if self.end is not None:
            self.end.close()

    def fileno(self):
        return -1 if self._closed else 500

    def sendall(self, data, flags=0):
        if self.end is None:
            raise OSError(errno.ENOTCONN, "not connected")
        e = self.end
        if e.fin_in and e.peer.closed:
            # peer closed: a real kernel answers RST -> EPIPE / ECONNRESET on a later write
            if e.fail_after is None:
                e.fail_after = 0
        return e.sendall(data)

    def recv_into(self, buf, nbytes=0, flags=0):
        if self.end is None:
            raise OSError(errno.ENOTCONN, "not connected")
        return self.end.recv_into(buf, nbytes, flags)

    def recv(self, n, flags=0):
        if self.end is None:
            raise OSError(errno.ENOTCONN, "not connected")
        return self.end.recv(n, flags)


class FakeTime:
    def __init__(self, net: "Net"):
        self._net = net

    def perf_counter(self):
        return self._net.now

    def time(self):
        return 1.7e9 + self._net.now

    def monotonic(self):
        return self._net.now

    def sleep(self, dt):
        self._net.now += dt
        self._net.on_sleep()


class FakeRandom:
    def __init__(self, net: "Net"):
        self._net = net

    def shuffle(self, lst):
        order = self._net.cmd.get("order") if self._net.cmd else None
        if order:
            rank = {n: i for i, n in enumerate(order)}
            lst.sort(key=lambda s: rank.get(getattr(s, "name", "?"), 10**6))
        self._net.ev("shuffle", None, [getattr(s, "name", "?") for s in lst])

    def randint(self, a, b):
        return a


class ManagerSelect:
    """`select` module seen by pyrtma.manager."""

    def __init__(self, net: "Net"):
        self._net = net
        self.error = OSError

    def select(self, r, w, x, timeout=None):
        net = self._net
        r = list(r)
        w = list(w)
        if r:
            # top of the run loop: hand the baton back to the driver, wait for a command
            cmd = net.mgr_yield()
            for e_ in net.ends.values():
                if e_.space_per_round is not None:
                    e_.space = e_.space_per_round
            if cmd.get("stop"):
                net.stop_manager()
                return [], [], []
            out = []
            acc = cmd.get("accept")
            lst = net.listener
            if lst in r and lst.pending and (acc is None or acc):
                out.append(lst)
            want = cmd.get("readable")
            for s in r:
                if s is lst:
                    continue
                if s.closed:
                    continue
                has = bool(s.inbuf) or s.fin_in or s.rst_in
                if want is None:
                    if has:
                        out.append(s)
                elif s.name in want:
                    if not has:
                        raise HarnessError(f"script reports {s.name} readable but it has no data")
                    out.append(s)
            net.ev("rsel", None, [getattr(s, "name", "L") for s in out])
            return out, [], []
        # write-side selects
        for s in w:
            if getattr(s, "closed", False) and s is not net.listener:
                raise ValueError("file descriptor cannot be a negative integer (-1)")
        if timeout is None:
            net.ev("lwait", w[0] if w else None)
            return [], list(w), []
        want = net.cmd.get("writable") if net.cmd else None
        out = [s for s in w if s is not net.listener and (want is None or s.name in want)]
        # what is recorded is which of ALL accepted, open connections can take data at this moment (the environment's state),
        # not merely the part of it the manager chose to ask about
        true_w = [e.name for e in net.ends.values() if getattr(e, "accepted", False) and not e.closed and (want is None or e.name in want)]
        net.ev("wsel", None, sorted(set(true_w) | {s.name for s in out}))
        return [], out, []


class ClientSelect:
    """`select` module seen by pyrtma.client (runs in the driver thread)."""

    def __init__(self, net: "Net"):
        self._net = net
        self.error = OSError

    def select(self, r, w, x, timeout=None):
        net = self._net
        if w and not r:
            return [], list(w), []
        out = []
        for s in r:
            e = getattr(s, "end", None)
            if e is None:
                continue
            if not (e.inbuf or e.fin_in or e.rst_in):
                net.pump()
            if e.inbuf or e.fin_in or e.rst_in:
                out.append(s)
        if not out:
            if timeout is None:
                raise WouldBlock("client blocks forever in select")
            net.now += max(timeout, 0)
        return out, [], []


class Net:
    def __init__(self):
        self.now = 0.0
        self.log: List[tuple] = []
        self.listener: Optional[_Listener] = None
        self.ends: Dict[str, _End] = {}  # name -> server end
        self.cli: Dict[str, _End] = {}  # name -> client end
        self._nacc = 0
        self._ncli = 0
        self.cmd: Optional[dict] = None
        self.mgr_dead = False
        self.mgr_exc: Optional[BaseException] = None
        self.mgr_tb = ""
        self._mgr_sem = threading.Semaphore(0)
        self._drv_sem = threading.Semaphore(0)
        self._mgr_thread: Optional[threading.Thread] = None
        self._mgr_obj = None
        self.pump_policy = None  # callable() -> cmd dict, used when a client blocks
        self.in_pump = False

    # --- event log ---------------------------------------------------------
    def ev(self, kind, end, *rest):
        self.log.append((kind, getattr(end, "name", None), getattr(end, "side", None)) + rest)

    def naccepted(self):
        self._nacc += 1
        return self._nacc

    def next_client_name(self):
        self._ncli += 1
        return f"k{self._ncli}"

    # --- connections -------------------------------------------------------
    def open_conn(self, name: str) -> _End:
        """A client opens a TCP connection; returns the client end."""
        if name in self.ends:
            raise HarnessError(f"connection name {name} reused")
        srv = _End(self, name, "srv")
        cli = _End(self, name, "cli")
        srv.peer, cli.peer = cli, srv
        self.ends[name] = srv
        self.cli[name] = cli
        self.listener.pending.append(srv)
        return cli

    # --- baton ---------------------------------------------------------------
    def start_manager(self, mgr):
        self._mgr_obj = mgr

        def target():
            self._mgr_sem.acquire()
            try:
                mgr.run()
            except BaseException as e:  # noqa
                self.mgr_exc = e
                self.mgr_tb = traceback.format_exc()
            finally:
                self.mgr_dead = True
                self._drv_sem.release()

        self._mgr_thread = threading.Thread(target=target, daemon=True)
        self._mgr_thread.start()
        # let it run up to its first select
        self._mgr_sem.release()
        self._drv_sem.acquire()

    def mgr_yield(self) -> dict:
        """Called in the manager thread at the top-of-loop select."""
        self._drv_sem.release()
        self._mgr_sem.acquire()
        return self.cmd or {}

    def step(self, cmd: dict):
        """Driver: let the manager execute exactly one loop iteration under `cmd`."""
        if self.mgr_dead:
            return
        self.cmd = cmd
        self._mgr_sem.release()
        if not self._drv_sem.acquire(timeout=600):
            # the manager thread never came back to its select(): it is spinning or blocked for good
            self.mgr_dead = True
            self.mgr_exc = Livelock("the manager did not return to select() within 600 s of one loop iteration")
            self.mgr_tb = "Livelock\n  File \"vio\", line 0, in run\n"

    def stop_manager(self):
        if self._mgr_obj is not None:
            self._mgr_obj._keep_running = False

    def shutdown(self):
        if not self.mgr_dead and self._mgr_thread is not None:
            self.step({"stop": True})
            self._mgr_thread.join(timeout=5)

    # --- client-side blocking --------------------------------------------------
    def quiescent(self) -> bool:
        if self.mgr_dead:
            return True
        if self.listener and self.listener.pending:
            return False
        for s in self.ends.values():
            if not s.closed and (s.inbuf or s.fin_in or s.rst_in) and self._registered(s):
                return False
        return True

    def _registered(self, s) -> bool:
        m = self._mgr_obj
        try:
            return s in m.modules
        except Exception:
            return True

    def pump(self, limit: int = 10000):
        """Run manager rounds until it has nothing left to read."""
        if self.in_pump:
            return
        self.in_pump = True
        try:
            n = 0
            while not self.quiescent():
                cmd = self.pump_policy() if self.pump_policy else {}
                self.step(cmd)
                n += 1
                if n > limit:
                    raise HarnessError("pump does not reach quiescence")
        finally:
            self.in_pump = False

    def on_block(self, end: _End) -> bool:
        """A read would block. Client side: pump the manager, then retry once."""
        if end.side != "cli" or threading.current_thread() is self._mgr_thread:
            return False
        before = (len(end.inbuf), end.fin_in)
        self.pump()
        return (len(end.inbuf), end.fin_in) != before

    def on_sleep(self):
        if threading.current_thread() is not self._mgr_thread:
            self.pump()


class Installed:
    """Context manager that substitutes the I/O names in pyrtma.manager / pyrtma.client."""

    def __init__(self, net: Net):
        self.net = net
        self.saved: List[tuple] = []

    def __enter__(self):
        import pyrtma.manager as M
        import pyrtma.client as C

        net = self.net
        repl = [
            (M, "select", ManagerSelect(net)),
            (M, "socket", FakeSocketModule(net, "manager")),
            (M, "random", FakeRandom(net)),
            (M, "time", FakeTime(net)),
            (C, "select", ClientSelect(net)),
            (C, "socket", FakeSocketModule(net, "client")),
            (C, "time", FakeTime(net)),
        ]
        for mod, name, obj in repl:
            if not hasattr(mod, name):
                raise HarnessError(f"{mod.__name__} has no module-level name {name!r}; shim cannot be installed")
            self.saved.append((mod, name, getattr(mod, name)))
            setattr(mod, name, obj)
        return self.net

    def __exit__(self, *a):
        try:
            self.net.shutdown()
        finally:
            for mod, name, obj in self.saved:
                setattr(mod, name, obj)
        return False
