"""engine -- shared pipeline of the hub checks:

  1. TLC model-checks a family config (MC_*.cfg): the property clauses on the specification
  2. TLC generates behaviours from the same module (-simulate / exhaustive with hist)
  3. each behaviour is replayed on the REAL manager (vio) under several concretisation profiles
  4. every recorded execution is validated by TLC against Manager_Trace
  5. verdicts are attributed to properties; evidence is written
"""
from __future__ import annotations

import io
import json
import os
import sys
import time
from typing import Any, Callable, Dict, List, Optional

from . import tlc
from .replay import Profile, replay

ROOT = os.path.dirname(os.path.dirname(os.path.abspath(__file__)))
REAL_STDOUT = sys.__stdout__


def say(*a):
    print(*a, file=REAL_STDOUT, flush=True)


class Quiet:
    """Silence the code under test (it prints 'x' on drops and logs through rich)."""

    def __enter__(self):
        self.so, self.se = sys.stdout, sys.stderr
        sys.stdout = io.StringIO()
        sys.stderr = io.StringIO()
        return self

    def __exit__(self, *a):
        sys.stdout, sys.stderr = self.so, self.se
        return False


def model_check(module: str, cfg: str, timeout: int = 3000) -> Dict[str, Any]:
    r = tlc.run_tlc(module, cfg, timeout=timeout)
    if r["error"] or (not r.get("finished") and r["violation"] is None):
        raise tlc.TlcError(f"TLC failed on {cfg}: {r['error']}\n{r['out'][-1500:]}")
    return r


def gen_behaviours(module: str, cfg: str, num: int, depth: int, seed: int, timeout: int = 600) -> List[list]:
    r = tlc.run_tlc(module, cfg, workers=4, simulate=f"num={num}", depth=depth, seed=seed, timeout=timeout)
    if r["error"]:
        raise tlc.TlcError(f"TLC -simulate failed on {cfg}: {r['error']}\n{r['out'][-1500:]}")
    seen = {}
    for b in tlc.behaviours(r["out"]):
        seen.setdefault(json.dumps(b, sort_keys=True), b)
    # keep maximal behaviours (drop strict prefixes)
    keys = sorted(seen, key=len, reverse=True)
    out = []
    for k in keys:
        out.append(seen[k])
    return out


def _validate_chunk(chunk, cfg="Manager_Trace.cfg"):
    v = tlc.validate_traces(chunk, cfg=cfg)
    if v["tlc"]["error"] and not v["by_tid"]:
        raise tlc.TlcError("trace validation failed: " + str(v["tlc"]["error"]) + v["tlc"]["out"][-2000:])
    for t in chunk:
        if t["tid"] not in v["by_tid"]:
            raise tlc.TlcError(f"no verdict for trace {t['tid']}\n" + v["tlc"]["out"][-3000:])
    return v["by_tid"]


def run_and_validate(items: List[dict], jobs: int = 8, cfg: str = "Manager_Trace.cfg") -> Dict[int, dict]:
    """items: [{"tid", "ev"}] -> tid -> verdict.  Several TLC processes in parallel (each -workers 1)."""
    from concurrent.futures import ThreadPoolExecutor

    if not items:
        return {}
    n = max(1, min(jobs, (len(items) + 149) // 150))
    chunks = [items[i::n] for i in range(n)]
    res: Dict[int, dict] = {}
    with ThreadPoolExecutor(max_workers=n) as ex:
        for r in ex.map(lambda c: _validate_chunk(c, cfg), chunks):
            res.update(r)
    return res


def _replay_one(args):
    tid, bi, b, prof, log_level = args
    h = replay(b, prof, log_level=log_level)
    return {"tid": tid, "beh": bi, "prof": prof, "ev": h.events, "crashed": h.crashed, "diag": None}


def replay_all(behs: List[list], profiles: List[Profile], log_level=None, jobs: int = 12):
    """returns list of dict(tid, beh_index, profile, ev, crashed); replays run in forked worker processes"""
    import multiprocessing as mp

    work = []
    tid = 0
    for bi, b in enumerate(behs):
        for prof in profiles:
            tid += 1
            work.append((tid, bi, b, prof, log_level))
    if not work:
        return []
    with Quiet():
        if len(work) < 40:
            return [_replay_one(w) for w in work]
        ctx = mp.get_context("fork")
        with ctx.Pool(min(jobs, max(1, len(work) // 20))) as pool:
            return pool.map(_replay_one, work, chunksize=10)
