"""./check <property> [--tier quick|thorough] [--seed N] [--replay path]

exit 0: property held on everything explored (KNOWN-FINDING lines possible)
exit 1: VIOLATION property=<id> replay=<path>
exit 2: the machinery itself failed (never a verdict about the code)
"""
from __future__ import annotations

import argparse
import hashlib
import importlib
import json
import os
import sys
import time
import traceback

ROOT = os.path.dirname(os.path.dirname(os.path.abspath(__file__)))
sys.path.insert(0, ROOT)
# the code under test: /repo's working tree (VF_REPO points a run at a scratch worktree instead, e.g. for seeded changes)
sys.path.insert(0, os.environ.get("VF_REPO", "/repo") + "/src")
os.environ.setdefault("PYTHONHASHSEED", "0")

from vf import evidence, findings  # noqa: E402


def main(argv=None):
    ap = argparse.ArgumentParser()
    ap.add_argument("prop")
    ap.add_argument("--tier", default=os.environ.get("VERIF_TIER", "quick"))
    ap.add_argument("--seed", type=int, default=int(os.environ.get("VERIF_SEED", "0") or 0))
    ap.add_argument("--replay", default=None)
    a = ap.parse_args(argv)
    prop = a.prop.upper()
    out = sys.__stdout__
    t0 = time.time()
    try:
        mod = importlib.import_module(f"vf.props.{prop.lower()}")
        if a.replay:
            res = mod.replay(a.replay)
        else:
            res = mod.run(a.tier, a.seed)
    except Exception as ex:
        traceback.print_exc(file=sys.__stderr__)
        print(f"MACHINERY-FAILURE property={prop} {type(ex).__name__}: {str(ex)[:300]!r}", file=out, flush=True)
        return 2
    wall = time.time() - t0
    known = findings.known_for(prop)
    nviol = 0
    seen_known = set()
    printed = set()
    rdir = os.path.join(ROOT, "replays", prop)
    for v in res.get("violations", []):
        sig = v["signature"]
        if sig in known:
            if sig not in seen_known:
                seen_known.add(sig)
                print(f"KNOWN-FINDING: property={prop} {sig} -- {known[sig].get('what', '')}", file=out, flush=True)
            continue
        nviol += 1
        os.makedirs(rdir, exist_ok=True)
        h = hashlib.sha1(sig.encode()).hexdigest()[:10]
        path = os.path.join(rdir, f"{h}.json")
        if not os.path.exists(path) or nviol <= 50:
            with open(path, "w") as f:
                json.dump({"property": prop, "signature": sig, **v.get("replay", {})}, f, indent=1, default=str)
        if sig not in printed and len(printed) < 25:
            printed.add(sig)
            print(f"VIOLATION property={prop} replay={path} signature={sig}", file=out, flush=True)
    for n in res.get("notes", []):
        print(f"NOTE: {n}", file=out, flush=True)
    if not a.replay and os.environ.get("VF_REPO", "/repo") == "/repo":       # evidence only describes runs against /repo itself
        cov = res["coverage"]
        cov.setdefault("known_findings_seen", sorted(seen_known))
        evidence.write(prop, a.tier if a.tier in ("quick", "thorough") else "quick", a.seed, res["level"], cov,
                       wall, nviol, res.get("assumptions"))
    print(f"{prop}: tier={a.tier} seed={a.seed} violations={nviol} known={len(seen_known)} wall={wall:.1f}s", file=out, flush=True)
    return 1 if nviol else 0


if __name__ == "__main__":
    sys.exit(main())
