"""defs -- abstract definition programs -> YAML files; running the real parser / compiler; signature
extraction from the parser model and from each language output."""
from __future__ import annotations

import io
import json
import os
import subprocess
import sys
import tempfile
from typing import Any, Dict, List, Optional, Tuple

sys.path.insert(0, "/repo/src")

# the documented native type names: (size, signed, class)  -- written from the C / RTMA meaning of the
# names, independently of the five tables in the code under test
NATIVE: Dict[str, Tuple[int, bool, str]] = {
    "char": (1, True, "char"), "unsigned char": (1, False, "int"), "byte": (1, False, "int"),
    "int": (4, True, "int"), "signed int": (4, True, "int"), "unsigned int": (4, False, "int"), "unsigned": (4, False, "int"),
    "short": (2, True, "int"), "signed short": (2, True, "int"), "unsigned short": (2, False, "int"),
    "long": (4, True, "int"), "signed long": (4, True, "int"), "unsigned long": (4, False, "int"),
    "long long": (8, True, "int"), "signed long long": (8, True, "int"), "unsigned long long": (8, False, "int"),
    "float": (4, True, "float"), "double": (8, True, "float"),
    "uint8": (1, False, "int"), "uint16": (2, False, "int"), "uint32": (4, False, "int"), "uint64": (8, False, "int"),
    "int8": (1, True, "int"), "int16": (2, True, "int"), "int32": (4, True, "int"), "int64": (8, True, "int"),
}
BY_WIDTH = {w: [n for n, (s, _, _) in NATIVE.items() if s == w] for w in (1, 2, 4, 8)}

SECTIONS = ("compiler_options", "imports", "constants", "string_constants", "aliases", "host_ids", "module_ids",
            "struct_defs", "message_defs")


def yaml_text(f: Dict[str, Any]) -> str:
    """f: section -> content.  struct_defs: name -> fields(dict | str); message_defs: name -> {"id":..,"fields":..}"""
    out: List[str] = []
    for sec in SECTIONS:
        v = f.get(sec)
        if v is None:
            continue
        out.append(f"{sec}:")
        if sec == "imports":
            for p in v:
                out.append(f"  - {p}")
        elif sec in ("struct_defs", "message_defs"):
            if not v:
                out[-1] = f"{sec}: null"
            for name, d in v.items():
                out.append(f"  {name}:")
                if sec == "message_defs" and "id" in d:
                    idv = d["id"]
                    if isinstance(idv, list):
                        out.append("    id: [" + ", ".join(str(x) for x in idv) + "]")
                    else:
                        out.append(f"    id: {idv}")
                fields = d["fields"] if (sec == "message_defs") else d
                if name == "_RESERVED_":
                    continue
                if fields is None:
                    out.append("    fields: null")
                elif isinstance(fields, str):
                    out.append(f"    fields: {fields}")
                else:
                    out.append("    fields:")
                    for fn, ft in fields.items():
                        out.append(f"      {fn}: {ft}")
        else:
            if not v:
                out[-1] = f"{sec}: null"
            for k, val in v.items():
                if isinstance(val, bool):
                    val = "true" if val else "false"
                out.append(f"  {k}: {val}")
        out.append("")
    return "\n".join(out) + "\n"


def write_prog(files: Dict[str, Dict[str, Any]], root: str) -> None:
    for rel, f in files.items():
        p = os.path.join(root, rel)
        os.makedirs(os.path.dirname(p), exist_ok=True)
        with open(p, "w") as fh:
            fh.write(f if isinstance(f, str) else yaml_text(f))


class Silence:
    """silence Python-level and fd-level output (the python back end runs `black` as a subprocess)"""

    def __enter__(self):
        import logging
        self.so, self.se = sys.stdout, sys.stderr
        sys.stdout, sys.stderr = io.StringIO(), io.StringIO()
        self.lvl = logging.root.manager.disable
        logging.disable(logging.CRITICAL)
        try:
            self.fds = (os.dup(1), os.dup(2))
            self.null = os.open(os.devnull, os.O_WRONLY)
            os.dup2(self.null, 1)
            os.dup2(self.null, 2)
        except OSError:
            self.fds = None
        return self

    def __exit__(self, *a):
        import logging
        if self.fds:
            os.dup2(self.fds[0], 1)
            os.dup2(self.fds[1], 2)
            os.close(self.fds[0])
            os.close(self.fds[1])
            os.close(self.null)
        logging.disable(self.lvl)
        sys.stdout, sys.stderr = self.so, self.se
        return False


def parse(path: str, auto_pad=True, validate_alignment=True, import_coredefs=False):
    """run the real Parser; returns (parser, None) or (None, exception)"""
    from pyrtma.parser import Parser
    cwd = os.getcwd()
    p = Parser(validate_alignment=validate_alignment, auto_pad=auto_pad, import_coredefs=import_coredefs)
    for h in list(p.logger.handlers):
        p.logger.removeHandler(h)
    try:
        with Silence():
            p.parse(path)
        return p, None
    except BaseException as e:  # noqa (asserts, KeyError ... are findings for C15)
        if isinstance(e, (KeyboardInterrupt, SystemExit)):
            raise
        return None, e
    finally:
        os.chdir(cwd)


def resolve_native(fld) -> Optional[str]:
    """native element type name of a parser Field (through aliases), None for struct/message typed fields"""
    from pyrtma.parser import NativeType, TypeAlias
    t = fld.type_obj
    n = 0
    while isinstance(t, TypeAlias) and n < 20:
        t = t.type_obj
        n += 1
    if isinstance(t, NativeType):
        for k, v in __import__("pyrtma.parser", fromlist=["supported_types"]).supported_types.items():
            if v is t:
                return k
        return t.name
    return None


def parser_signature(p) -> Dict[str, Any]:
    sig: Dict[str, Any] = {"structs": {}, "messages": {}, "constants": {}, "strings": {}, "mids": {}, "hids": {}, "aliases": {}}
    for name, c in p.constants.items():
        sig["constants"][name] = c.value
    for name, c in p.string_constants.items():
        sig["strings"][name] = c.value
    for name, m in p.module_ids.items():
        sig["mids"][name] = m.value
    for name, h in p.host_ids.items():
        sig["hids"][name] = h.value
    for name, a in p.aliases.items():
        sig["aliases"][name] = a.type_name

    def fields(d):
        out = []
        for f in d.fields:
            nat = resolve_native(f)
            tname = getattr(f.type_obj, "name", f.type_name)
            out.append({"name": f.name, "type": f.type_name, "native": nat,
                        "struct": None if nat else (f.type_obj.type_obj.name if hasattr(f.type_obj, "type_obj") and not nat else tname),
                        "count": f.length or 0, "offset": f.offset, "size": f.size})
        return out
    for name, s in p.struct_defs.items():
        sig["structs"][name] = {"hash": s.hash[:8], "size": s.size, "align": s.alignment, "fields": fields(s)}
    for name, m in p.message_defs.items():
        sig["messages"][name] = {"id": m.type_id, "hash": m.hash[:8], "size": m.size, "align": m.alignment, "fields": fields(m)}
    return sig
