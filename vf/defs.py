"""defs -- abstract definition programs -> YAML files; running the real parser / compiler; signature
extraction from the parser model and from each language output."""
from __future__ import annotations

import io
import json
import os
import subprocess
import sys
import tempfile
from typing import Any, Dict, List, Optional, Tuple

sys.path.insert(0, __import__("os").environ.get("VF_REPO", "/repo") + "/src")

# the documented native type names: (size, signed, class)  -- written from the C / RTMA meaning of the
# names, independently of the five tables in the code under test
NATIVE: Dict[str, Tuple[int, bool, str]] = {
    "char": (1, True, "char"), "unsigned char": (1, False, "int"), "byte": (1, False, "int"),
    "int": (4, True, "int"), "signed int": (4, True, "int"), "unsigned int": (4, False, "int"), "unsigned": (4, False, "int"),
    "short": (2, True, "int"), "signed short": (2, True, "int"), "unsigned short": (2, False, "int"),
    "long": (4, True, "int"), "signed long": (4, True, "int"), "unsigned long": (4, False, "int"),
    "long long": (8, True, "int"), "signed long long": (8, True, "int"), "unsigned long long": (8, False, "int"),
    "float": (4, True, "float"), "double": (8, True, "float"),
    "uint8": (1, False, "int"), "uint16": (2, False, "int"), "uint32": (4, False, "int"), "uint64": (8, False, "int"),
    "int8": (1, True, "int"), "int16": (2, True, "int"), "int32": (4, True, "int"), "int64": (8, True, "int"),
}
BY_WIDTH = {w: [n for n, (s, _, _) in NATIVE.items() if s == w] for w in (1, 2, 4, 8)}

SECTIONS = ("compiler_options", "metadata", "imports", "constants", "string_constants", "aliases", "host_ids", "module_ids",
            "struct_defs", "message_defs")


def yaml_text(f: Dict[str, Any]) -> str:
    """f: section -> content.  struct_defs: name -> fields(dict | str); message_defs: name -> {"id":..,"fields":..}"""
    out: List[str] = []
    # the sections of a file may be written in any order ("__order__": "reversed" = message_defs first, imports last)
    for sec in (tuple(reversed(SECTIONS)) if f.get("__order__") == "reversed" else SECTIONS):
        v = f.get(sec)
        if v is None:
            continue
        out.append(f"{sec}:")
        if sec == "imports":
            for p in v:
                out.append(f"  - {p}")
        elif sec in ("struct_defs", "message_defs"):
            if not v:
                out[-1] = f"{sec}: null"
            for name, d in v.items():
                out.append(f"  {name}:")
                if sec == "message_defs" and "id" in d:
                    idv = d["id"]
                    if isinstance(idv, list):
                        out.append("    id: [" + ", ".join(str(x) for x in idv) + "]")
                    else:
                        out.append(f"    id: {idv}")
                fields = d["fields"] if (sec == "message_defs") else d
                if name == "_RESERVED_":
                    continue
                if fields is None:
                    out.append("    fields: null")
                elif isinstance(fields, str):
                    out.append(f"    fields: {fields}")
                else:
                    out.append("    fields:")
                    for fn, ft in fields.items():
                        out.append(f"      {fn}: {ft}")
        else:
            if not v:
                out[-1] = f"{sec}: null"
            for k, val in v.items():
                if isinstance(val, bool):
                    val = "true" if val else "false"
                out.append(f"  {k}: {val}")
        out.append("")
    return "\n".join(out) + "\n"


def write_prog(files: Dict[str, Dict[str, Any]], root: str) -> None:
    for rel, f in files.items():
        p = os.path.join(root, rel)
        os.makedirs(os.path.dirname(p), exist_ok=True)
        with open(p, "w") as fh:
            fh.write(f if isinstance(f, str) else yaml_text(f))


class Silence:
    """silence Python-level and fd-level output (the python back end runs `black` as a subprocess)"""

    def __enter__(self):
        import logging
        self.so, self.se = sys.stdout, sys.stderr
        sys.stdout, sys.stderr = io.StringIO(), io.StringIO()
        self.lvl = logging.root.manager.disable
        logging.disable(logging.CRITICAL)
        try:
            self.fds = (os.dup(1), os.dup(2))
            self.null = os.open(os.devnull, os.O_WRONLY)
            os.dup2(self.null, 1)
            os.dup2(self.null, 2)
        except OSError:
            self.fds = None
        return self

    def __exit__(self, *a):
        import logging
        if self.fds:
            os.dup2(self.fds[0], 1)
            os.dup2(self.fds[1], 2)
            os.close(self.fds[0])
            os.close(self.fds[1])
            os.close(self.null)
        logging.disable(self.lvl)
        sys.stdout, sys.stderr = self.so, self.se
        return False


def parse(path: str, auto_pad=True, validate_alignment=True, import_coredefs=False):
    """run the real Parser; returns (parser, None) or (None, exception)"""
    from pyrtma.parser import Parser
    cwd = os.getcwd()
    p = Parser(validate_alignment=validate_alignment, auto_pad=auto_pad, import_coredefs=import_coredefs)
    for h in list(p.logger.handlers):
        p.logger.removeHandler(h)
    try:
        with Silence():
            p.parse(path)
        return p, None
    except BaseException as e:  # noqa (asserts, KeyError ... are findings for C15)
        if isinstance(e, (KeyboardInterrupt, SystemExit)):
            raise
        return None, e
    finally:
        os.chdir(cwd)


def make_parser(auto_pad=True, validate_alignment=True, import_coredefs=False):
    from pyrtma.parser import Parser
    p = Parser(validate_alignment=validate_alignment, auto_pad=auto_pad, import_coredefs=import_coredefs)
    for h in list(p.logger.handlers):
        p.logger.removeHandler(h)
    return p


def parse_on(p, path: str):
    """parse with a parser object that already exists (other parsers may have been created since)"""
    cwd = os.getcwd()
    try:
        with Silence():
            p.parse(path)
        return p, None
    except BaseException as e:  # noqa
        if isinstance(e, (KeyboardInterrupt, SystemExit)):
            raise
        return None, e
    finally:
        os.chdir(cwd)


def resolve_native(fld) -> Optional[str]:
    """native element type name of a parser Field (through aliases), None for struct/message typed fields"""
    from pyrtma.parser import NativeType, TypeAlias
    t = fld.type_obj
    n = 0
    while isinstance(t, TypeAlias) and n < 20:
        t = t.type_obj
        n += 1
    if isinstance(t, NativeType):
        for k, v in __import__("pyrtma.parser", fromlist=["supported_types"]).supported_types.items():
            if v is t:
                return k
        return t.name
    return None


def parser_signature(p) -> Dict[str, Any]:
    sig: Dict[str, Any] = {"structs": {}, "messages": {}, "constants": {}, "strings": {}, "mids": {}, "hids": {}, "aliases": {}}
    for name, c in p.constants.items():
        sig["constants"][name] = c.value
    for name, c in p.string_constants.items():
        sig["strings"][name] = c.value
    for name, m in p.module_ids.items():
        sig["mids"][name] = m.value
    for name, h in p.host_ids.items():
        sig["hids"][name] = h.value
    for name, a in p.aliases.items():
        sig["aliases"][name] = a.type_name

    def fields(d):
        out = []
        for f in d.fields:
            nat = resolve_native(f)
            tname = getattr(f.type_obj, "name", f.type_name)
            out.append({"name": f.name, "type": f.type_name, "native": nat,
                        "struct": None if nat else (f.type_obj.type_obj.name if hasattr(f.type_obj, "type_obj") and not nat else tname),
                        "count": f.length or 0, "offset": f.offset, "size": f.size})
        return out
    for name, s in p.struct_defs.items():
        sig["structs"][name] = {"hash": s.hash[:8], "size": s.size, "align": s.alignment, "fields": fields(s)}
    for name, m in p.message_defs.items():
        sig["messages"][name] = {"id": m.type_id, "hash": m.hash[:8], "size": m.size, "align": m.alignment, "fields": fields(m)}
    return sig


# ------------------------------------------------------------------------------------------------
# signatures extracted from each language output
# ------------------------------------------------------------------------------------------------
def compile_all(root_yaml: str, out: str, name: str = "gen", import_coredefs: bool = False, combined: bool = False,
                auto_pad: bool = True, langs=("python", "c", "javascript", "matlab")):
    """run the real compiler in-process; returns None or the exception"""
    from pyrtma.compile import compile as rtcompile
    cwd = os.getcwd()
    os.makedirs(out, exist_ok=True)
    try:
        with Silence():
            rtcompile([root_yaml], out, name, python="python" in langs, javascript="javascript" in langs,
                      matlab="matlab" in langs, c_lang="c" in langs, combined=combined, import_coredefs=import_coredefs,
                      auto_pad=auto_pad)
        return None
    except BaseException as e:  # noqa
        if isinstance(e, (KeyboardInterrupt,)):
            raise
        return e
    finally:
        os.chdir(cwd)


PY_PROBE = r'''
import sys, json, ctypes, importlib.util, logging
logging.disable(logging.CRITICAL)
sys.path.insert(0, __import__("os").environ.get("VF_REPO", "/repo") + "/src")
import warnings; warnings.simplefilter("ignore")
spec = importlib.util.spec_from_file_location(sys.argv[2], sys.argv[1])
mod = importlib.util.module_from_spec(spec); sys.modules[sys.argv[2]] = mod
spec.loader.exec_module(mod)
from pyrtma.message_base import MessageBase
from pyrtma.message_data import MessageData
import pyrtma.message as M

def elem(ct):
    n = 0
    while hasattr(ct, "_length_") and hasattr(ct, "_type_") and not isinstance(ct._type_, str):
        n = ct._length_ if n == 0 else n * ct._length_
        ct = ct._type_
    return ct, n

def desc(cls):
    out = []
    for f in cls._fields_:
        fname, ct = f[0], f[1]
        base, n = elem(ct)
        cf = getattr(cls, fname)
        d = {"name": fname[1:] if fname.startswith("_") else fname, "count": n, "offset": cf.offset, "size": ctypes.sizeof(ct)}
        if issubclass(base, ctypes.Structure):
            d.update({"class": "struct", "struct": getattr(base, "type_name", base.__name__), "width": ctypes.sizeof(base)})
        else:
            code = base._type_
            d.update({"class": "char" if code == "c" else ("float" if code in "fd" else "int"), "width": ctypes.sizeof(base),
                      "signed": code in "cbhilqfd"})
        out.append(d)
    return out

sig = {"structs": {}, "messages": {}, "constants": {}, "strings": {}, "mids": {}, "hids": {}, "registered": []}
for k, v in vars(mod).items():
    if k.startswith("_"):
        continue
    if isinstance(v, type) and issubclass(v, MessageBase) and v.__module__ == mod.__name__:
        fields = desc(v)
        ent = {"size": ctypes.sizeof(v), "type_size": getattr(v, "type_size", None), "hash": "%08x" % v.type_hash, "fields": fields}
        if issubclass(v, MessageData):
            ent["id"] = v.type_id
            sig["messages"][v.type_name] = ent
            try:
                if M.get_msg_cls(v.type_id) is v:
                    sig["registered"].append(v.type_name)
            except Exception:
                pass
        else:
            sig["structs"][v.type_name] = ent
    elif k.startswith("MID_") and isinstance(v, int):
        sig["mids"][k[4:]] = v
    elif k.startswith("MT_"):
        pass
    elif k.isupper() and isinstance(v, bool):
        pass
    elif k.isupper() and isinstance(v, (int, float)):
        sig["constants"][k] = v
    elif k.isupper() and isinstance(v, str):
        sig["strings"][k] = v
print("SIG " + json.dumps(sig))
'''


def sig_python(py_path: str, modname: str = "gen") -> Tuple[Optional[dict], str]:
    r = subprocess.run(["/venv/bin/python", "-c", PY_PROBE, py_path, modname], capture_output=True, text=True, timeout=300,
                       env=dict(os.environ, PYTHONHASHSEED="0"))
    for line in r.stdout.splitlines():
        if line.startswith("SIG "):
            return json.loads(line[4:]), ""
    return None, (r.stderr or r.stdout)[-1500:]


def sig_c(header: str, psig: dict, workdir: str, prelude: str = "") -> Tuple[Optional[dict], str]:
    """compile a probe against the generated header; report sizeof/offsetof/element size/signedness/floatness
    for every struct / message / field the parser model names"""
    L = ['#include <stdio.h>', '#include <stddef.h>', prelude, f'#include "{os.path.basename(header)}"',
         '#define ISFLOAT(x) _Generic((x), float: 1, double: 1, default: 0)',
         '#define ISSIGNED(x) _Generic((x), char: 1, signed char: 1, short: 1, int: 1, long: 1, long long: 1, float: 1, double: 1, default: 0)',
         'int main(void){']
    for kind, prefix in (("structs", ""), ("messages", "MDF_")):
        for name, d in psig[kind].items():
            if not d["fields"]:
                continue
            cn = prefix + name
            L.append(f'  {{ {cn} v; printf("T {kind} {name} %zu %zu\\n", sizeof({cn}), _Alignof({cn}));')
            for f in d["fields"]:
                fn = f["name"]
                if f["native"]:
                    el = f"v.{fn}[0]" if f["count"] else f"v.{fn}"
                    L.append(f'    printf("F {kind} {name} {fn} %zu %zu %zu %d %d\\n", offsetof({cn}, {fn}), sizeof(v.{fn}), sizeof({el}), ISSIGNED({el}), ISFLOAT({el}));')
                else:
                    el = f"v.{fn}[0]" if f["count"] else f"v.{fn}"
                    L.append(f'    printf("F {kind} {name} {fn} %zu %zu %zu -1 -1\\n", offsetof({cn}, {fn}), sizeof(v.{fn}), sizeof({el}));')
            L.append("  }")
    for name in psig["messages"]:
        L.append(f'#ifdef MT_{name}\n  printf("M {name} %d\\n", (int)MT_{name});\n#else\n  printf("M {name} undefined\\n");\n#endif')
        L.append(f'#ifdef HASH_{name}\n  printf("H {name} %08x\\n", (unsigned)HASH_{name});\n#else\n  printf("H {name} undefined\\n");\n#endif')
    for name, v in psig["constants"].items():
        if isinstance(v, int):
            L.append(f'#ifdef {name}\n  printf("C {name} %lld\\n", (long long)({name}));\n#else\n  printf("C {name} undefined\\n");\n#endif')
        else:
            L.append(f'#ifdef {name}\n  printf("C {name} %.17g\\n", (double)({name}));\n#else\n  printf("C {name} undefined\\n");\n#endif')
    for name in psig["mids"]:
        L.append(f'#ifdef MID_{name}\n  printf("I {name} %d\\n", (int)MID_{name});\n#else\n  printf("I {name} undefined\\n");\n#endif')
    for name in psig["hids"]:
        L.append(f'#ifdef HID_{name}\n  printf("J {name} %d\\n", (int)HID_{name});\n#else\n  printf("J {name} undefined\\n");\n#endif')
    L.append("  return 0; }")
    src = os.path.join(workdir, "probe.c")
    open(src, "w").write("\n".join(L))
    exe = os.path.join(workdir, "probe")
    r = subprocess.run(["gcc", "-std=c11", "-w", "-I", os.path.dirname(header), "-o", exe, src], capture_output=True, text=True, timeout=300)
    if r.returncode != 0:
        return None, r.stderr[-1500:]
    r = subprocess.run([exe], capture_output=True, text=True, timeout=60)
    sig: Dict[str, Any] = {"structs": {}, "messages": {}, "constants": {}, "mids": {}, "hids": {}, "ids": {}, "hashes": {}}
    for line in r.stdout.splitlines():
        p = line.split()
        if p[0] == "T":
            sig[p[1]].setdefault(p[2], {"fields": {}}).update({"size": int(p[3]), "align": int(p[4])})
        elif p[0] == "F":
            sig[p[1]].setdefault(p[2], {"fields": {}})["fields"][p[3]] = {"offset": int(p[4]), "size": int(p[5]), "width": int(p[6]), "signed": int(p[7]), "float": int(p[8])}
        elif p[0] == "M":
            sig["ids"][p[1]] = p[2]
        elif p[0] == "H":
            sig["hashes"][p[1]] = p[2]
        elif p[0] == "C":
            sig["constants"][p[1]] = p[2]
        elif p[0] == "I":
            sig["mids"][p[1]] = p[2]
        elif p[0] == "J":
            sig["hids"][p[1]] = p[2]
    return sig, ""


JS_PROBE = r'''
const path = process.argv[2];
import(path).then((m) => {
  const R = m.RTMA;
  const out = {structs: {}, messages: {}, constants: R.constants || {}, mt: R.MT || {}, mid: R.MID || {}, hid: R.HID || {}, hash: R.HASH || {}, errors: [], shared: []};
  function desc(o) {
    const f = [];
    for (const [k, v] of Object.entries(o)) {
      let cnt = 0, el = v;
      if (Array.isArray(v)) { cnt = v.length; el = v[0];
        if (v.length > 1 && typeof v[0] === "object" && v[0] !== null && v[0] === v[1]) f.push({name: k, shared: true}); }
      f.push({name: k, count: cnt, kind: (el !== null && typeof el === "object") ? "struct" : typeof el, inner: (el !== null && typeof el === "object" && !Array.isArray(el)) ? desc(el) : undefined});
    }
    return f;
  }
  for (const [sec, key] of [["SDF", "structs"], ["MDF", "messages"]]) {
    for (const name of Object.keys(R[sec] || {})) {
      try {
        const a = R[sec][name](), b = R[sec][name]();
        out[key][name] = {fields: desc(a || {}), fresh: a !== b};
      } catch (e) { out.errors.push(sec + "." + name + ": " + e.message); }
    }
  }
  console.log("SIG " + JSON.stringify(out));
}).catch((e) => { console.log("LOADERR " + e.message); });
'''


def sig_js(js_path: str, workdir: str) -> Tuple[Optional[dict], str]:
    mjs = os.path.join(workdir, "gen_probe.mjs")
    import shutil as _sh
    _sh.copy(js_path, mjs)
    probe = os.path.join(workdir, "probe.mjs")
    open(probe, "w").write(JS_PROBE)
    r = subprocess.run(["node", probe, mjs], capture_output=True, text=True, timeout=120)
    for line in r.stdout.splitlines():
        if line.startswith("SIG "):
            return json.loads(line[4:]), ""
        if line.startswith("LOADERR "):
            return None, line
    return None, (r.stderr or r.stdout)[-1000:]


MATLAB_CLASS = {"int8": (1, True, "int"), "uint8": (1, False, "int"), "int16": (2, True, "int"), "uint16": (2, False, "int"),
                "int32": (4, True, "int"), "uint32": (4, False, "int"), "int64": (8, True, "int"), "uint64": (8, False, "int"),
                "single": (4, True, "float"), "double": (8, True, "float")}


def sig_matlab(m_path: str) -> Tuple[Optional[dict], List[str]]:
    """interpret the assignment grammar of the generated .m file; returns (RTMA tree, problems)"""
    import re
    env: Dict[str, Any] = {}
    problems: List[str] = []

    def get(path):
        cur = env
        for p in path:
            if not isinstance(cur, dict) or p not in cur:
                raise KeyError(".".join(path))
            cur = cur[p]
        return cur

    def evalx(x: str):
        x = x.strip()
        m = re.fullmatch(r"repmat\((.*),\s*1,\s*(\d+)\)", x)
        if m:
            inner = evalx(m.group(1))
            return {"__rep__": int(m.group(2)), "el": inner}
        m = re.fullmatch(r"(u?int(?:8|16|32|64)|single|double)\((.*)\)", x)
        if m:
            return {"__cls__": m.group(1)}
        if x in ("struct()", "[]"):
            return {}
        if x.startswith("RTMA."):
            import copy
            return copy.deepcopy(get(x.split(".")[1:]))
        if x.startswith('"') or x.startswith("'"):
            return x.strip("\"'")
        try:
            return float(x) if ("." in x or "e" in x.lower()) else int(x)
        except ValueError:
            return {"__expr__": x}

    for ln, line in enumerate(open(m_path), 1):
        s = line.split("%", 1)[0].strip() if not line.strip().startswith("%") else ""
        if not s or not s.startswith("RTMA"):
            continue
        m = re.fullmatch(r"(RTMA(?:\.[A-Za-z_]\w*)*)\s*=\s*(.*?);?", s)
        if not m:
            continue
        path = m.group(1).split(".")[1:]
        try:
            val = evalx(m.group(2))
        except KeyError as e:
            problems.append(f"line {ln}: {m.group(1)} uses {e.args[0]} before it is defined")
            continue
        cur = env
        ok = True
        for p in path[:-1]:
            if p not in cur or not isinstance(cur[p], dict):
                if p not in cur:
                    problems.append(f"line {ln}: {m.group(1)} assigns into undefined {p}")
                    cur[p] = {}
                else:
                    ok = False
                    break
            cur = cur[p]
        if ok and path:
            cur[path[-1]] = val
    # the generated trailing loop:  names = fieldnames(RTMA.X); for ... n = names{idx}; ... RTMA.Y.(n) ...
    text = open(m_path).read()
    for var, src in re.findall(r"^\s*(\w+)\s*=\s*fieldnames\(RTMA\.(\w+)\)\s*;", text, re.M):
        m = re.search(r"for\s+\w+\s*=.*?\n(.*?)\nend", text[text.index(f"{var} = fieldnames"):], re.S)
        if not m:
            continue
        body = m.group(1)
        el = re.search(r"(\w+)\s*=\s*%s\{\w+\}" % var, body)
        if not el:
            continue
        names = list((env.get(src) or {}).keys()) if isinstance(env.get(src), dict) else []
        for tgt in sorted(set(re.findall(r"=\s*RTMA\.(\w+)\.\(%s\)" % el.group(1), body))):
            have = env.get(tgt) if isinstance(env.get(tgt), dict) else {}
            for n in names:
                if n not in have:
                    problems.append(f"loop over fieldnames(RTMA.{src}) reads RTMA.{tgt}.{n} which is never defined")
    return env, problems
