"""growth -- the parts of the specification that reach beyond the 19 listed properties.

    ./check GROWTH [--tier quick|thorough] [--seed N]          (= /venv/bin/python -m vf.growth)

Runs the specifications that are not (or not only) deciding a listed property, each model checked by TLC and replayed on
the real code:
    WebProxy.tla   the websocket proxy (web_manager.py)                                  vf/props/webproxy.py
    LoggerCtl.tla  the control state machine of the data logger (data_logger.py)         vf/props/c17ctl.py  (its C17/ clauses
                   are ALSO part of ./check C17)
(ClientSend.tla and ClientIdent.tla run inside ./check C13 and ./check C06.)

Nothing here is registered in MANIFEST.json: these specifications state INTENDED behaviour of code no listed property talks
about, and the code does deviate (see OBSERVED below and DESIGN.md 7.9).  The command prints one line per deviation family,
`OBSERVATION <family> <count> <what>` for the documented ones, `UNEXPECTED <signature>` for anything else, and exits 1 only
for UNEXPECTED ones (so that a change of the proxy / logger control code shows up here).
"""
from __future__ import annotations

import argparse
import sys
import time
import traceback

# documented deviations of the unchanged code from the intended behaviour stated in the growth specifications
OBSERVED = {
    "WEB/Crash:JSONDecodeError/": "D1/D2: a websocket text that is not JSON (or 'PING' while the websocket is not writable) raises JSONDecodeError out of handle(): the handler dies, finish() disconnects the proxy",
    "WEB/Crash:KeyError/": "D2: JSON without header/data keys: KeyError escapes handle()",
    "WEB/Crash:TypeError/": "D2: JSON that is not an object: TypeError escapes handle()",
    "WEB/ReplyUnexpected/SUB:ALL": "D3: SUBSCRIBE to ALL_MESSAGE_TYPES is carried out AND answered with rtma_msg_error (the log line looks up a class for id 2147483647)",
    "WEB/ReplyUnexpected/UNSUB:ALL": "D3 (unsubscribe)", "WEB/ReplyUnexpected/PAUSE:ALL": "D3 (pause)", "WEB/ReplyUnexpected/RESUME:ALL": "D3 (resume)",
}


def _family(sig: str, table=None):
    for k in (table or OBSERVED):
        if sig.startswith(k):
            return k
    return None


def main(argv=None) -> int:
    ap = argparse.ArgumentParser()
    ap.add_argument("--tier", default="quick")
    ap.add_argument("--seed", type=int, default=0)
    ap.add_argument("--only", default="")
    a = ap.parse_args(argv)
    out = sys.__stdout__
    unexpected = 0
    parts = []
    try:
        if a.only in ("", "web"):
            from .props import webproxy
            t0 = time.time()
            r = webproxy.run_web(a.tier, a.seed)
            parts.append(("web", r, time.time() - t0))
        if a.only in ("", "ctl"):
            try:
                from .props import c17ctl
            except ImportError:
                c17ctl = None
            if c17ctl is not None:
                t0 = time.time()
                r = c17ctl.run_ctl(a.tier, a.seed)
                r.setdefault("signatures", {})
                for sig, _, _ in list(r.get("violations", [])) + list(r.get("drift", [])):
                    r["signatures"][sig] = r["signatures"].get(sig, 0) + 1
                parts.append(("ctl", r, time.time() - t0))
    except Exception:
        traceback.print_exc(file=sys.__stderr__)
        print("MACHINERY-FAILURE growth", file=out, flush=True)
        return 2
    for name, r, wall in parts:
        fam = {}
        table = dict(OBSERVED)
        table.update(getattr(sys.modules.get("vf.props.c17ctl"), "OBSERVED", {}) if name == "ctl" else {})
        for sig, n in sorted(r.get("signatures", {}).items()):
            f = _family(sig, table)
            if f is None:
                unexpected += 1
                print(f"UNEXPECTED {sig} x{n}", file=out, flush=True)
            else:
                fam[f] = fam.get(f, 0) + n
        for f, n in sorted(fam.items()):
            print(f"OBSERVATION {f} x{n} -- {table.get(f, '')}", file=out, flush=True)
        mc = r.get("mc", {})
        print(f"GROWTH {name}: tier={a.tier} seed={a.seed} states={mc.get('distinct')} behaviours={r.get('behaviours')} "
              f"unexpected={unexpected} wall={wall:.1f}s", file=out, flush=True)
    return 1 if unexpected else 0


if __name__ == "__main__":
    sys.exit(main())
