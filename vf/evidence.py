from __future__ import annotations

import json
import os
from typing import Any, Dict

ROOT = os.path.dirname(os.path.dirname(os.path.abspath(__file__)))


def write(prop: str, tier: str, seed: int, level: str, coverage: Dict[str, Any], wall_s: float,
          violations: int, assumptions=None):
    d = os.path.join(ROOT, "evidence")
    os.makedirs(d, exist_ok=True)
    ev = {"property_id": prop, "tier": tier, "seed": int(seed), "level": level, "coverage": coverage,
          "assumptions": assumptions or [], "wall_s": round(wall_s, 2), "violations": int(violations)}
    tmp = os.path.join(d, f".{prop}.json.tmp")
    with open(tmp, "w") as f:
        json.dump(ev, f, indent=1, default=str)
    os.replace(tmp, os.path.join(d, f"{prop}.json"))
