SPECIFICATION Spec
CONSTANTS
  MaxMsgs = 10
  GenOn = TRUE
  ProxyId = 100
  WebSrc = 55
  PubId = 20
  Hostile = TRUE
  WConnect = 12
  WDeliver = 10
  WPub = 4
INVARIANT GenInv
CHECK_DEADLOCK FALSE
