\* C17 liveness: stop() terminates and the writer leaves after close(), under weak fairness of the writer (and of the
\* recorder's own pending steps).  Holds with ONE recording for all three handshakes (clear_then_set 64 937, set_then_clear 42 507,
\* handoff 25 802 distinct states); with MaxRec = 2 set_then_clear violates StopTerminates (MaxMsgs 1, MaxNone 1, MaxPause 0 suffices).
SPECIFICATION FairSpec
CONSTANTS
  DS = {"d1", "d2"}
  Types = {"A", "B"}
  MaxMsgs = 2
  MaxNone = 1
  MaxTicks = 2
  MaxPause = 1
  MaxRec = 1
  EaccReset = FALSE
  Dts = {16}
  WriterOrder = "clear_then_set"
  I1 = 30
  I2 = 0
  GenOn = FALSE
  EdgeOn = FALSE
PROPERTY StopTerminates
PROPERTY WriterLeaves
CHECK_DEADLOCK FALSE
