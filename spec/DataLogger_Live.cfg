\* C17 liveness: stop() terminates and the writer leaves after close(), under weak fairness of the writer (and of the
\* recorder's own pending steps).  Holds for both writer orders (34 089 / 45 799 distinct states).
SPECIFICATION FairSpec
CONSTANTS
  DS = {"d1", "d2"}
  Types = {"A", "B"}
  MaxMsgs = 2
  MaxNone = 1
  MaxTicks = 2
  MaxPause = 1
  Dts = {16}
  WriterOrder = "clear_then_set"
  I1 = 30
  I2 = 0
  GenOn = FALSE
  EdgeOn = FALSE
PROPERTY StopTerminates
PROPERTY WriterLeaves
CHECK_DEADLOCK FALSE
