\* C17 with a RESTART of the collection (stop -> start -> record -> stop), properties per recording.
\* WriterOrder = "handoff" (request accepted with clear(w2d) before writing, set(fin) last, recorder looks at fin only): no error,
\* 98 182 distinct states.  "set_then_clear": Conservation violated at depth 27 (the writer's late clear(w2d) of the last flush of
\* recording 1 erases the first request of recording 2); "clear_then_set": FilesComplete violated already with one recording.
\* With SPECIFICATION FairSpec / PROPERTY StopTerminates: "set_then_clear" also lets stop() of recording 2 wait forever.
SPECIFICATION Spec
CONSTANTS
  DS = {"d1", "d2"}
  Types = {"A", "B"}
  MaxMsgs = 2
  MaxNone = 1
  MaxTicks = 2
  MaxPause = 1
  MaxRec = 2
  EaccReset = FALSE
  Dts = {16}
  WriterOrder = "handoff"
  I1 = 30
  I2 = 0
  GenOn = FALSE
  EdgeOn = FALSE
INVARIANT Conservation
INVARIANT FilesComplete
INVARIANT TerminalComplete
CHECK_DEADLOCK FALSE
