-------------------------- MODULE Validation_Trace --------------------------
(* Trace validation for C09.  The driver (vf/valdrv.py) executes the REAL validators and records
     kind = "case":   one exported case c of Validation.tla with the observation o of one concrete execution
                      (o.res accepted/refused, o.rb read-back equals the value assigned, o.same every byte unchanged)
     kind = "blocks": a behaviour of the disable-block machine executed with real `with` blocks; after every
                      step the driver probes with values outside (bad) and inside (good) the domain
   TLC evaluates the C09 clauses (Judge / the block machine of Validation.tla) on every record and prints one
   verdict per record. *)
EXTENDS Validation, IOUtils, TLCExt

Traces == ndJsonDeserialize(IOEnv.TRACE_FILE)
VARIABLES tid, l, st, bad
tvars == <<vars, tid, l, st, bad>>

Tr == Traces[tid]
Out(r) == PrintT("VERDICT " \o ToJson(r))

(* a probe after a block action: ev.badref (every bad value refused), ev.badsame (message unchanged by the
   refused writes), ev.good ("ok" | "refused" | "differs") *)
ProbeClauses(ev) ==
  LET outside == Depth(stack) = 0 IN
     (IF outside /\ ~ev.badref THEN {"C09.ValidationOffOutsideBlock"} ELSE {})
\cup (IF ev.badref /\ ~ev.badsame THEN {"C09.NotAtomic"} ELSE {})
\cup (IF ev.good = "refused" THEN {"C09.RefusedInDomain"} ELSE {})
\cup (IF ev.good = "differs" THEN {"C09.ReadbackDiffers"} ELSE {})
ProbeDrift(ev) == Depth(stack) > 0 /\ ev.badref # enabled     \* inside a block the property leaves it open

TInit == BInit /\ tid \in 1..Len(Traces) /\ l = 1 /\ st = "run" /\ bad = {}

TNext ==
  /\ st = "run" /\ UNCHANGED tid
  /\ IF Tr.kind = "case"
     THEN LET cl == Judge(Tr.c, Tr.o) IN
          /\ Out([tid |-> Tr.tid, res |-> IF cl = {} THEN "ok" ELSE "fail", step |-> 1, props |-> {<<1, x>> : x \in cl},
                  exp |-> Accept(Tr.c)])
          /\ st' = "done" /\ UNCHANGED <<vars, l, bad>>
     ELSE IF l > Len(Tr.ev)
     THEN /\ Out([tid |-> Tr.tid, res |-> IF bad = {} THEN "ok" ELSE "fail", step |-> l - 1, props |-> bad, exp |-> "-"])
          /\ st' = "done" /\ UNCHANGED <<vars, l, bad>>
     ELSE LET ev == Tr.ev[l] IN
          /\ l' = l + 1 /\ UNCHANGED st
          /\ CASE ev.a = "Enter" -> Enter(ev.m) /\ UNCHANGED bad
               [] ev.a = "ExitNormal" -> ExitNormal /\ UNCHANGED bad
               [] ev.a = "ExitByException" -> ExitByException(ev.k) /\ UNCHANGED bad
               [] ev.a = "OtherEnter" -> OtherEnter /\ UNCHANGED bad
               [] ev.a = "OtherExit" -> OtherExit /\ UNCHANGED bad
               [] ev.a = "Probe" ->
                    /\ bad' = bad \cup {<<l, x>> : x \in ProbeClauses(ev)}
                                  \cup (IF ProbeClauses(ev) = {} /\ ProbeDrift(ev) THEN {<<l, "drift">>} ELSE {})
                    /\ UNCHANGED vars

TSpec == TInit /\ [][TNext]_tvars
=============================================================================
