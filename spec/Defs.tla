-------------------------------- MODULE Defs --------------------------------
(***************************************************************************)
(* Definition programs of the RTMA compiler and the wire signature they    *)
(* denote (C04, C15, C16).                                                 *)
(*                                                                         *)
(* Native is the table of the documented native type names - size,         *)
(* signedness, class - written here once from the C / RTMA meaning of the  *)
(* names.  It is the independent witness against the five hand-written     *)
(* type tables in the code (parser, python, c99, javascript, matlab).      *)
(*                                                                         *)
(* A program is built from a parameter record (chosen by TLC) over a fixed *)
(* family of shapes that exercises every documented construct: constants   *)
(* and constant expressions, a string constant, module and host ids,       *)
(* aliases of natives and of aliases, a struct defined in an IMPORTED file *)
(* and used by aliases / structs / messages of the importing file, nested  *)
(* structs, struct arrays, array lengths given by literals and by constant *)
(* expressions, a signal, field-list reuse, reserved ids, auto padding.    *)
(*                                                                         *)
(* Signature(p) is what every language output must describe: per           *)
(* definition its id, and per field name / class / element width /         *)
(* signedness / count / offset, plus size, constants, ids.  Layout comes   *)
(* from LayoutOps!Pad (whose theorems Layout.tla checks).                  *)
(***************************************************************************)
EXTENDS LayoutOps, TLC, Json

CONSTANTS Export, Variants

NT(s, sg, c) == [size |-> s, signed |-> sg, cls |-> c]
Native ==
  [n \in {"char", "unsigned char", "byte", "int", "signed int", "unsigned int", "unsigned", "short", "signed short",
          "unsigned short", "long", "signed long", "unsigned long", "long long", "signed long long", "unsigned long long",
          "float", "double", "uint8", "uint16", "uint32", "uint64", "int8", "int16", "int32", "int64"} |->
     CASE n = "char" -> NT(1, TRUE, "char")
       [] n \in {"unsigned char", "byte", "uint8"} -> NT(1, FALSE, "int")
       [] n = "int8" -> NT(1, TRUE, "int")
       [] n \in {"short", "signed short", "int16"} -> NT(2, TRUE, "int")
       [] n \in {"unsigned short", "uint16"} -> NT(2, FALSE, "int")
       [] n \in {"int", "signed int", "long", "signed long", "int32"} -> NT(4, TRUE, "int")
       [] n \in {"unsigned int", "unsigned", "unsigned long", "uint32"} -> NT(4, FALSE, "int")
       [] n \in {"long long", "signed long long", "int64"} -> NT(8, TRUE, "int")
       [] n \in {"unsigned long long", "uint64"} -> NT(8, FALSE, "int")
       [] n = "float" -> NT(4, TRUE, "float")
       [] n = "double" -> NT(8, TRUE, "float")]
NativeNames == DOMAIN Native

(* parameters of one program *)
VARIABLE p
Params == [n1 : NativeNames, n2 : NativeNames, n3 : NativeNames, n4 : NativeNames,
           sh : {0, 1, 3}, k : {2, 5}, variant : Variants]

(***************************************************************************)
(* abstract types: ["nat", name] | ["struct", def name]; aliases resolve    *)
(***************************************************************************)
NatT(n) == [t |-> "nat", n |-> n]
StrT(n) == [t |-> "struct", n |-> n]
F(name, ty, cnt) == [name |-> name, ty |-> ty, cnt |-> cnt]

K2(q) == q.k * 2                       \* constant expression  K2: K * 2
(* definitions in emission order; INNER lives in the imported file *)
Inner(q) == <<F("a", NatT(q.n1), 0), F("b", NatT(q.n2), q.sh), F("c", NatT("char"), 3)>>
Mid(q)   == <<F("x", StrT("INNER"), 0), F("y", StrT("INNER"), 2), F("z", NatT(q.n3), q.k)>>       \* struct array, literal-by-constant length
MsgA(q)  == <<F("c", NatT("char"), 0), F("d", NatT(q.n4), 0),                      \* d is declared through alias A2 -> A1 -> n4
              F("e", NatT(q.n1), K2(q)), F("o", StrT("MID"), 0), F("s", NatT("char"), 16), F("u", NatT(q.n2), 3),
              \* array lengths that are arithmetic: K / 2 * 4 (true division, = 2K; C integer division would give another number)
              \* and a constant whose value is a float with an integral value (DHALF: K2 / 2 = K)
              F("v", NatT("int8"), K2(q)), F("w", NatT("int8"), q.k)>>
DefsOf(q) == [INNER |-> Inner(q), MID |-> Mid(q), MSG_A |-> MsgA(q), MSG_B |-> MsgA(q)]     \* MSG_B: field-list reuse of MSG_A
StructNames == {"INNER", "MID"}
(* one signal and one constant whose names are longer than the 48-column padding the C back end uses for its #define lines *)
(* FMT_DATA / AMID_SHIP / CHID_X: legal identifiers that CONTAIN the prefixes the outputs put in front of ids (MT_, MID_, HID_) *)
MsgIds == [SIG |-> 1000, MSG_A |-> 1001, MSG_B |-> 1002, SIGNAL_WITH_A_NAME_THAT_GOES_PAST_COLUMN_FORTY_EIGHT |-> 1040, FMT_DATA |-> 1041, MT_LEAD |-> 1042]

RECURSIVE KindOf(_, _), SizeOfDef(_, _), AlignOfDef(_, _), Padded(_, _)
KindOf(q, f) ==
  IF f.ty.t = "nat" THEN [a |-> Native[f.ty.n].size, s |-> Native[f.ty.n].size, n |-> f.cnt, k |-> f.name]
  ELSE [a |-> AlignOfDef(q, f.ty.n), s |-> SizeOfDef(q, f.ty.n), n |-> f.cnt, k |-> f.name]
Padded(q, d) == Pad([i \in DOMAIN DefsOf(q)[d] |-> KindOf(q, DefsOf(q)[d][i])])
SizeOfDef(q, d) == Padded(q, d).size
AlignOfDef(q, d) == Padded(q, d).align

FieldSig(q, d) ==
  LET L == Padded(q, d).lay
      RECURSIVE Walk(_, _)
      Walk(i, ui) ==
        IF i > Len(L) THEN <<>>
        ELSE IF L[i].pad
             THEN <<[name |-> "padding", pad |-> TRUE, cls |-> "char", width |-> 1, signed |-> TRUE, count |-> L[i].f.n, offset |-> L[i].off]>> \o Walk(i + 1, ui)
             ELSE LET f == DefsOf(q)[d][ui] IN
                  <<[name |-> f.name, pad |-> FALSE,
                     cls |-> IF f.ty.t = "nat" THEN Native[f.ty.n].cls ELSE "struct",
                     width |-> IF f.ty.t = "nat" THEN Native[f.ty.n].size ELSE SizeOfDef(q, f.ty.n),
                     signed |-> IF f.ty.t = "nat" THEN Native[f.ty.n].signed ELSE FALSE,
                     struct |-> IF f.ty.t = "nat" THEN "" ELSE f.ty.n,
                     count |-> f.cnt, offset |-> L[i].off]>> \o Walk(i + 1, ui + 1)
  IN Walk(1, 1)

Signature(q) ==
  [defs |-> [d \in DOMAIN DefsOf(q) |-> [fields |-> FieldSig(q, d), size |-> SizeOfDef(q, d), align |-> AlignOfDef(q, d)]],
   ids |-> MsgIds,
   constants |-> [K |-> q.k, K2 |-> K2(q), BIG |-> q.k * 1000 + 7, CONSTANT_WITH_A_NAME_THAT_GOES_PAST_COLUMN_FORTY_EIGHT |-> 77,
                 WIDE |-> 78],      \* W0 + W1 + ... + W11 with Wi = i + 1: an expression over twelve constants
   ratios |-> [HALF |-> <<q.k, 2>>, INV |-> <<1, q.k>>, SPAN |-> <<q.k * 2 + 1, 2>>,
              THIRD |-> <<q.k, 3>>, SEVENTH |-> <<q.k * 2 + 1, 7>>],        \* values that need all 17 significant digits     \* constant expressions with a division: numerator / denominator
   mids |-> [MYMOD |-> 12, AMID_SHIP |-> 13], hids |-> [MYHOST |-> 10, CHID_X |-> 11],
   reserved |-> {1003, 1005, 1006, 1007}]

Init == p \in Params
Next == UNCHANGED p
Spec == Init /\ [][Next]_p

(* every definition of the family has a natural layout (Layout.tla proves Pad correct for all sequences;
   this instantiates it) and stays below the size limit *)
AllNatural == \A d \in DOMAIN DefsOf(p) :
                 LET L == Padded(p, d) IN
                 /\ \A i \in DOMAIN L.lay : L.lay[i].off % L.lay[i].f.a = 0
                 /\ L.size % L.align = 0 /\ L.size <= 65535
NativeSane == \A n \in NativeNames : Native[n].size \in {1, 2, 4, 8} /\ (Native[n].cls = "float" => Native[n].size \in {4, 8})

ExportInv == ~Export \/ PrintT("PROG " \o ToJson([p |-> p, sig |-> Signature(p)]))
=============================================================================
