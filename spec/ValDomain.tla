------------------------------ MODULE ValDomain ------------------------------
(***************************************************************************)
(* The domain table of pyrtma's field validators, constant level (no       *)
(* variables): validator kinds, symbolic value classes and what the        *)
(* property C09 says about each (kind, value class): "ok" (in the domain:  *)
(* accepted and read back), "reject" (outside: always refused), "open"     *)
(* (not decided).  Shared by Validation.tla (C09) and Codec.tla (C10: the  *)
(* values "constructible through the validated field API" are exactly the  *)
(* classes that are "ok" here).                                            *)
(***************************************************************************)
EXTENDS Integers, FiniteSets

NONE == 99             \* a missing slice bound / step (Python None); ints only, TLC cannot compare int with string

(***************************************************************************)
(* Part 1a: kinds, shapes, value classes                                   *)
(***************************************************************************)
SignedKinds   == {"Int8", "Int16", "Int32", "Int64"}
UnsignedKinds == {"Uint8", "Uint16", "Uint32", "Uint64"}
IntKinds      == SignedKinds \cup UnsignedKinds
FloatKinds    == {"Float", "Double"}
NumKinds      == IntKinds \cup FloatKinds
ElemKinds     == NumKinds \cup {"Byte", "Struct"}      \* IntArray(k,n) FloatArray(k,n) ByteArray(n) StructArray(n)
LeafKinds     == NumKinds \cup {"Byte", "Char"}         \* scalar validators (String and Struct are handled separately)

(* scalar value classes per kind *)
WrongTypes == {"STR", "BYTES", "NONE", "LIST", "DICT", "OBJ", "CT_OTHER"}
IntTags   == {"MINM1", "MIN", "M1", "ZERO", "ONE", "MAX", "MAXP1", "HUGE", "NEGHUGE", "TRUE", "FALSE",
              "F1_0", "F1_5", "PINF", "NINF", "NAN", "CT_SAME", "DECIMAL"} \cup WrongTypes
FloatTags == {"ZERO", "ONE", "M1", "F1_5", "F0_1", "FULLPREC", "FMAX", "NFMAX", "BIGINT", "SUBN", "NEGZERO", "NAN",
              "OVF", "NOVF", "HUGE", "NEGHUGE", "PINF", "NINF", "TRUE", "CT_SAME", "DECIMAL"} \cup WrongTypes
ByteTags  == {"ZERO", "ONE", "MAX", "MAXP1", "M1", "HUGE", "TRUE", "F1_0", "F1_5", "BYTES1", "BARR1", "BYTES0",
              "BYTES2", "STR", "NONE", "LIST", "DICT", "OBJ", "CT_SAME", "CT_OTHER"}
CharTags  == {"A", "NUL", "DEL", "QUOTE", "CTRL", "EMPTY", "TWO", "NONASCII", "HIGH", "BYTES", "INT", "NONE", "LIST",
              "CT_SAME", "CT_OTHER"}
StringTags == {"EMPTY", "ONE", "MAXLEN", "EXACT", "OVER", "OVERLONG", "NONASCII", "NONASCII_LAST", "NUL_MID", "CTRL",
               "QUOTES", "BYTES", "INT", "NONE", "LIST", "CT_SAME", "CT_OTHER"}
StructTags == {"SAME", "OTHER", "NONE", "TUPLE", "DICT", "INT", "BYTES", "SELFMSG"}

ScalarTags(k) ==
  CASE k \in IntKinds -> IntTags
    [] k \in FloatKinds -> IF k = "Double" THEN FloatTags \ {"OVF", "NOVF"} ELSE FloatTags
    [] k = "Byte" -> ByteTags
    [] k = "Char" -> CharTags
    [] k = "String" -> StringTags
    [] k = "Struct" -> StructTags

(* the domain table for one scalar value *)
AcceptScalar(k, t) ==
  CASE k \in IntKinds ->
         (CASE t \in {"MIN", "ZERO", "ONE", "MAX"} -> "ok"
            [] t = "M1" -> IF k \in SignedKinds THEN "ok" ELSE "reject"        \* -1 = MIN-1 of an unsigned field
            [] t \in {"MINM1", "MAXP1", "HUGE", "NEGHUGE"} -> "reject"             \* out of range
            [] t \in {"F1_5", "PINF", "NINF", "NAN"} -> "reject"                   \* non-integer
            [] t \in WrongTypes -> "reject"                                        \* not an integer at all
            [] t \in {"TRUE", "FALSE", "F1_0", "CT_SAME", "DECIMAL"} -> "open")    \* bool, 1.0, c_intN(v), Decimal(1)
    [] k \in FloatKinds ->
         (CASE t \in {"ZERO", "ONE", "M1", "F1_5", "F0_1", "FULLPREC", "FMAX", "NFMAX", "BIGINT", "SUBN", "NEGZERO", "NAN"} -> "ok"      \* FULLPREC: needs every significant digit (9 / 17) in decimal text
            [] t \in {"OVF", "NOVF", "HUGE", "NEGHUGE"} -> "reject"               \* finite, overflows to infinity
            [] t \in WrongTypes -> "reject"                                        \* no read-back could equal it
            [] t \in {"PINF", "NINF", "TRUE", "CT_SAME", "DECIMAL"} -> "open")     \* literal +-inf, bool, c_float(v)
    [] k = "Byte" ->
         (CASE t \in {"ZERO", "ONE", "MAX", "BYTES1", "BARR1"} -> "ok"
            [] t \in {"MAXP1", "M1", "HUGE", "F1_5", "BYTES0", "BYTES2", "STR", "NONE", "LIST", "DICT", "OBJ", "CT_OTHER"} -> "reject"
            [] t \in {"TRUE", "F1_0", "CT_SAME"} -> "open")
    [] k = "Char" ->
         (CASE t \in {"A", "NUL", "DEL", "QUOTE", "CTRL"} -> "ok"
            [] t \in {"TWO", "NONASCII", "HIGH", "BYTES", "INT", "NONE", "LIST", "CT_OTHER"} -> "reject"
            [] t \in {"EMPTY", "CT_SAME"} -> "open")
    [] k = "String" ->
         (CASE t \in {"EMPTY", "ONE", "MAXLEN", "NUL_MID", "CTRL", "QUOTES"} -> "ok"
            [] t \in {"OVER", "OVERLONG", "NONASCII", "NONASCII_LAST", "BYTES", "INT", "NONE", "LIST", "CT_OTHER"} -> "reject"
            [] t \in {"EXACT", "CT_SAME"} -> "open")     \* EXACT: n characters in char[n] (no room for the NUL)
    [] k = "Struct" ->
         (CASE t = "SAME" -> "ok"
            [] t \in {"OTHER", "NONE", "TUPLE", "DICT", "INT", "BYTES", "SELFMSG"} -> "reject")

OkTags(k) == {t \in ScalarTags(k) : AcceptScalar(k, t) = "ok"}

(* bad elements used inside otherwise valid sequences; "canonical" = the one used for slice shapes *)
BadElems(k) ==
  CASE k \in IntKinds -> {"MINM1", "MAXP1", "HUGE", "NEGHUGE", "F1_5", "NAN", "PINF", "STR", "NONE", "LIST"}
    [] k = "Float" -> {"OVF", "NOVF", "HUGE", "NEGHUGE", "STR", "NONE", "LIST"}
    [] k = "Double" -> {"HUGE", "NEGHUGE", "STR", "NONE", "LIST"}
    [] k = "Byte" -> {"MAXP1", "M1", "HUGE", "F1_5", "STR", "NONE", "LIST"}
    [] k = "Struct" -> {"OTHER", "NONE", "TUPLE", "DICT", "INT"}
CanonBad(k) ==
  CASE k \in IntKinds -> {"MAXP1", "MINM1"}
    [] k = "Float" -> {"OVF", "HUGE"}
    [] k = "Double" -> {"HUGE"}
    [] k = "Byte" -> {"MAXP1"}
    [] k = "Struct" -> {"OTHER"}
OpenElems(k) ==
  CASE k \in IntKinds -> {"TRUE", "F1_0", "CT_SAME"}
    [] k \in FloatKinds -> {"PINF", "NINF", "TRUE", "CT_SAME", "DECIMAL"}
    [] k = "Byte" -> {"TRUE", "BYTES1", "CT_SAME"}
    [] k = "Struct" -> {}
Neighbours(k) == IF k \in FloatKinds THEN {"plain", "NAN", "MIX"} ELSE {"plain"}

(* sequence value classes: [t, p, e, nb]  (p, e, nb only for BADAT / OPENAT) *)
SV(t) == [t |-> t, p |-> 0, e |-> "-", nb |-> "-"]
SeqPlain(k) ==
  {"GOOD", "TUPLE", "LENM1", "LENP1", "EMPTY", "STR", "NONE", "SCALAR", "GEN", "ITER", "SET", "CARR_SAME", "CARR_LEN"}
  \cup (IF k \in FloatKinds THEN {"GOOD_NAN"} ELSE {})
  \cup (IF k \in IntKinds THEN {"RANGE", "BYTES", "CARR_WRAP"} ELSE {})       \* CARR_WRAP: ctypes array of the other signedness holding a value outside the field's range
  \cup (IF k = "Byte" THEN {"BYTES_OK", "BARR_OK", "ALL00", "ALLFF", "BYTES_LENM1", "BYTES_LENP1"} ELSE {})
  \cup (IF k = "Struct" THEN {"CARR_OTHER"} ELSE {})

SeqValues(k, L, bads) ==
  {SV(t) : t \in SeqPlain(k)}
  \cup {[t |-> "BADAT", p |-> p, e |-> e, nb |-> nb] : p \in 1..L, e \in bads, nb \in Neighbours(k)}
  \cup {[t |-> "OPENAT", p |-> p, e |-> e, nb |-> "plain"] : p \in 1..L, e \in OpenElems(k)}
SliceValues(k, L) ==
  {SV(t) : t \in {"GOOD", "LENM1", "LENP1"} \cup (IF k = "Byte" THEN {"BYTES_OK", "BYTES_LENP1"} ELSE {})}
  \cup {[t |-> "BADAT", p |-> p, e |-> e, nb |-> nb] : p \in 1..L, e \in CanonBad(k), nb \in Neighbours(k) \ {"MIX"}}

(* a sequence of target length L assigned to L slots *)
AcceptSeq(k, L, v) ==
  CASE v.t \in {"GOOD", "TUPLE", "GOOD_NAN", "BYTES_OK", "BARR_OK", "ALL00", "ALLFF"} -> IF L = 0 THEN "open" ELSE "ok"
    [] v.t = "BADAT" -> "reject"                      \* wherever it occurs, whatever surrounds it
    [] v.t = "OPENAT" -> "open"
    [] v.t \in {"LENP1", "BYTES_LENP1", "CARR_LEN"} -> "reject"                   \* wrong-length sequences
    [] v.t = "CARR_WRAP" -> IF L = 0 THEN "open" ELSE "reject"                     \* an out-of-range value, whatever carries it
    [] v.t \in {"LENM1", "BYTES_LENM1", "EMPTY"} -> IF L = 0 THEN "open" ELSE "reject"
    [] v.t \in {"STR", "NONE", "SCALAR"} -> "reject"                               \* not a sequence of elements
    [] v.t = "CARR_OTHER" -> "reject"                                              \* wrong struct type
    [] v.t \in {"GEN", "ITER", "SET", "RANGE", "BYTES", "CARR_SAME"} -> "open"     \* one-shot iterators, unordered, ctypes arrays

(* Python slice semantics: number of selected slots of arr[a:b:s], len(arr) = n *)
Clamp(x, lo, hi) == IF x < lo THEN lo ELSE IF x > hi THEN hi ELSE x
SliceLen(a, b, s, n) ==
  LET st == IF s = NONE THEN 1 ELSE s
      start == IF a = NONE THEN (IF st > 0 THEN 0 ELSE n - 1)
               ELSE IF st > 0 THEN Clamp(IF a < 0 THEN a + n ELSE a, 0, n)
               ELSE Clamp(IF a < 0 THEN a + n ELSE a, 0 - 1, n - 1)
      stop  == IF b = NONE THEN (IF st > 0 THEN n ELSE 0 - 1)
               ELSE IF st > 0 THEN Clamp(IF b < 0 THEN b + n ELSE b, 0, n)
               ELSE Clamp(IF b < 0 THEN b + n ELSE b, 0 - 1, n - 1)
  IN IF st > 0 THEN (IF stop > start THEN (stop - start + st - 1) \div st ELSE 0)
     ELSE (IF start > stop THEN (start - stop - st - 1) \div (0 - st) ELSE 0)
=============================================================================
