------------------------------ MODULE Validation ------------------------------
(***************************************************************************)
(* C09 -- validated assignment to message fields (pyrtma/validators.py).   *)
(*                                                                         *)
(* Part 1 (1a in ValDomain.tla, 1b here) is the transcribed DOMAIN TABLE   *)
(* of the property: for a field                                            *)
(* (validator kind, length), a target shape (how the assignment is         *)
(* spelled) and a value class it says whether the property demands         *)
(* acceptance ("ok"), demands refusal ("reject") or leaves the choice      *)
(* open ("open").  All values are SYMBOLIC TAGS; the tag -> Python value   *)
(* mapping lives in vf/valdrv.py (trusted binding, several concrete values *)
(* per tag).  TLC enumerates every case (one initial state per case) and   *)
(* exports it; the driver performs one implementation test per case.       *)
(*                                                                         *)
(* Part 2 is the state machine of the nesting of disable-validation        *)
(* blocks (Enter, ExitNormal, ExitByException, Assign) with the invariant  *)
(* EnabledIffOutside and the action property AtomicStep.                   *)
(*                                                                         *)
(* Part 3 (Judge) evaluates the named clauses of C09 on an OBSERVATION of  *)
(* the real code; Validation_Trace.tla feeds recorded observations to it.  *)
(***************************************************************************)
EXTENDS ValDomain, Sequences, TLC, Json

CONSTANTS Lens,        \* array lengths for element / whole / via-field cases
          SliceLens,   \* array lengths for which EVERY slice shape is enumerated
          StrLens,     \* char[n] buffer lengths
          MaxDepth,    \* nesting bound of disable blocks
          MaxSteps,    \* length bound of block behaviours
          Mode,        \* "cases" | "blocks" | "gen" | "trace"
          RestoreOnException,  \* TRUE: intended behaviour; FALSE: model of a context manager without try/finally
          HandleCaptures,      \* FALSE: intended; TRUE: model of array objects that remember the switch they were made under
          SwitchShared         \* FALSE: intended (the switch belongs to the execution context); TRUE: model of one process-wide switch

(***************************************************************************)
(* Part 1b: the cases.  c = [k, n, sh, i, a, b, s, v]                      *)
(***************************************************************************)
Case(k, n, sh, i, a, b, s, v) == [k |-> k, n |-> n, sh |-> sh, i |-> i, a |-> a, b |-> b, s |-> s, v |-> v]
Bounds(n) == {NONE} \cup ((0 - n - 1)..(n + 1))
Steps == {NONE, 1, 2, 0 - 1, 0 - 2}
InnerStr == 8          \* the char[] field of the nested probe struct

(* the case families, as a predicate that TLC enumerates (one initial state per case) *)
IsCase(c) ==
  \/ \E k \in LeafKinds : \E sh \in {"scalar", "nested", "nestedarr"} : \E t \in ScalarTags(k) :
        c = Case(k, 0, sh, 0, 0, 0, 0, SV(t))
  \/ \E n \in StrLens : \E t \in StringTags : c = Case("String", n, "scalar", 0, 0, 0, 0, SV(t))
  \/ \E sh \in {"nested", "nestedarr"} : \E t \in StringTags : c = Case("String", InnerStr, sh, 0, 0, 0, 0, SV(t))
  \/ \E t \in StructTags : c = Case("Struct", 0, "scalar", 0, 0, 0, 0, SV(t))
  \/ \E k \in ElemKinds : \E n \in Lens :
        \/ \E i \in (0 - n - 1)..n : \E t \in ScalarTags(k) : c = Case(k, n, "element", i, 0, 0, 0, SV(t))
        \/ \E sh \in {"whole", "wholeslice"} : \E v \in SeqValues(k, n, BadElems(k)) : c = Case(k, n, sh, 0, 0, 0, 0, v)
        \/ \E t \in {"SAME", "OTHERLEN", "OTHERKIND", "UNBOUND"} : c = Case(k, n, "viafield", 0, 0, 0, 0, SV(t))
  \/ \E k \in ElemKinds : \E n \in SliceLens : \E a \in Bounds(n) : \E b \in Bounds(n) : \E s \in Steps :
        \E v \in SliceValues(k, SliceLen(a, b, s, n)) : c = Case(k, n, "slice", 0, a, b, s, v)

InRange(i, n) == (0 - n) <= i /\ i < n

(* THE TABLE *)
Accept(c) ==
  CASE c.sh \in {"scalar", "nested", "nestedarr"} -> AcceptScalar(c.k, c.v.t)
    [] c.sh = "element" ->
         IF ~InRange(c.i, c.n) THEN "open"      \* an index outside the array: the property is about values
         ELSE AcceptScalar(c.k, c.v.t)
    [] c.sh \in {"whole", "wholeslice"} -> AcceptSeq(c.k, c.n, c.v)
    [] c.sh = "slice" -> AcceptSeq(c.k, SliceLen(c.a, c.b, c.s, c.n), c.v)
    [] c.sh = "viafield" ->
         (CASE c.v.t = "SAME" -> "ok"
            [] c.v.t = "OTHERLEN" -> "reject"                                   \* wrong length
            [] c.v.t = "OTHERKIND" -> IF c.k = "Struct" THEN "reject" ELSE "open"  \* wrong struct type / other number type
            [] c.v.t = "UNBOUND" -> "open")
Verdicts == {"ok", "reject", "open"}
TargetLen(c) == IF c.sh = "slice" THEN SliceLen(c.a, c.b, c.s, c.n) ELSE c.n   \* slots addressed (cross-checked by the driver)

(***************************************************************************)
(* Part 3: the clauses of C09 on one observation                           *)
(*   o = [res: "accepted" | "refused", rb: BOOLEAN (read-back equals),     *)
(*        same: BOOLEAN (every byte of the message unchanged)]             *)
(***************************************************************************)
Judge(c, o) ==
  LET e == Accept(c) IN
     (IF o.res = "accepted" /\ e = "reject" THEN {"C09.AcceptedOutOfDomain"} ELSE {})
\cup (IF o.res = "refused" /\ e = "ok" THEN {"C09.RefusedInDomain"} ELSE {})
\cup (IF o.res = "accepted" /\ e # "reject" /\ ~o.rb THEN {"C09.ReadbackDiffers"} ELSE {})
\cup (IF o.res = "refused" /\ ~o.same THEN {"C09.NotAtomic"} ELSE {})

(***************************************************************************)
(* Part 2: nesting of disable blocks                                       *)
(*   stack: the open blocks, innermost last; a block is "dis" (disables)   *)
(*   or "ign" (disable_message_validation(ignore=True): does nothing) and  *)
(*   remembers the flag it found.  msg is the abstract content of a        *)
(*   message ("m0" initial, "new" after an accepted write, "junk" after an *)
(*   unvalidated write of a value outside the domain).                     *)
(***************************************************************************)
VARIABLES cs, stack, enabled, msg, last, hist,
          handles,    \* array objects (m.arr) the caller has kept: the set of origins, "in" (made inside a disable block) / "out"
          other       \* number of disable blocks ANOTHER thread of the process is inside (e.g. MessageManager.run() sits in one)
vars == <<cs, stack, enabled, msg, last, hist, handles, other>>

Frame(m, sv) == [mode |-> m, saved |-> sv]
HasDis(st) == \E j \in DOMAIN st : st[j].mode = "dis"
Depth(st) == Cardinality({j \in DOMAIN st : st[j].mode = "dis"})
Front(st, k) == SubSeq(st, 1, Len(st) - k)
NoLast == [cls |-> "good", refused |-> FALSE, pre |-> "m0"]
Log(e) == IF Mode = "gen" THEN Append(hist, e) ELSE hist

(* the flag after leaving the innermost k blocks, restoring what each one saved (innermost first) *)
RECURSIVE Unwind(_, _, _)
Unwind(st, en, k) ==
  IF k = 0 THEN en
  ELSE LET top == st[Len(st)] IN
       Unwind(Front(st, 1), IF top.mode = "dis" THEN top.saved ELSE en, k - 1)

Enter(m) ==
  /\ Len(stack) < MaxDepth /\ Len(hist) < MaxSteps
  /\ stack' = Append(stack, Frame(m, enabled))
  /\ enabled' = IF m = "dis" THEN FALSE ELSE enabled
  /\ hist' = Log([a |-> "Enter", m |-> m, k |-> 0])
  /\ UNCHANGED <<cs, msg, last, handles, other>>

ExitNormal ==
  /\ Len(stack) > 0 /\ Len(hist) < MaxSteps
  /\ enabled' = Unwind(stack, enabled, 1)
  /\ stack' = Front(stack, 1)
  /\ hist' = Log([a |-> "ExitNormal", m |-> "-", k |-> 1])
  /\ UNCHANGED <<cs, msg, last, handles, other>>

(* an exception raised in the innermost block propagates through k blocks and is caught there *)
ExitByException(k) ==
  /\ k \in 1..Len(stack) /\ Len(hist) < MaxSteps
  /\ enabled' = IF RestoreOnException THEN Unwind(stack, enabled, k) ELSE enabled
  /\ stack' = Front(stack, k)
  /\ hist' = Log([a |-> "ExitByException", m |-> "-", k |-> k])
  /\ UNCHANGED <<cs, msg, last, handles, other>>

(* assignment of a value inside ("good") or outside ("bad") the domain of the field *)
(* what this thread's assignments see: its own switch - unless the switch is one per process *)
Eff == IF SwitchShared THEN enabled /\ other = 0 ELSE enabled

Assign(cls) ==
  /\ Mode = "blocks"
  /\ IF Eff
     THEN /\ msg' = IF cls = "good" THEN "new" ELSE msg            \* refused: every byte unchanged
          /\ last' = [cls |-> cls, refused |-> cls = "bad", pre |-> msg]
     ELSE /\ msg' \in (IF cls = "good" THEN {"new"} ELSE {msg, "junk"})   \* validation off: whatever the raw write does
          /\ last' = [cls |-> cls, refused |-> FALSE, pre |-> msg]
  /\ UNCHANGED <<cs, stack, enabled, hist, handles, other>>

(* the caller reads an array field and keeps the object *)
TakeHandle ==
  /\ Mode = "blocks"
  /\ handles' = handles \cup {IF enabled THEN "out" ELSE "in"}
  /\ UNCHANGED <<cs, stack, enabled, msg, last, hist, other>>

(* an element / slice assignment through a kept array object: what counts is where execution IS, not where the object was made *)
AssignVia(o, cls) ==
  /\ Mode = "blocks" /\ o \in handles
  /\ LET eff == IF HandleCaptures THEN o = "out" ELSE Eff IN
     IF eff
     THEN /\ msg' = IF cls = "good" THEN "new" ELSE msg
          /\ last' = [cls |-> cls, refused |-> cls = "bad", pre |-> msg]
     ELSE /\ msg' \in (IF cls = "good" THEN {"new"} ELSE {msg, "junk"})
          /\ last' = [cls |-> cls, refused |-> FALSE, pre |-> msg]
  /\ UNCHANGED <<cs, stack, enabled, hist, handles, other>>

(* another thread enters / leaves a disable block of its own: nothing changes for this one *)
OtherEnter ==
  /\ other < 2 /\ Len(hist) < MaxSteps
  /\ other' = other + 1
  /\ hist' = Log([a |-> "OtherEnter", m |-> "dis", k |-> 0])
  /\ UNCHANGED <<cs, stack, enabled, msg, last, handles>>
OtherExit ==
  /\ other > 0 /\ Len(hist) < MaxSteps
  /\ other' = other - 1
  /\ hist' = Log([a |-> "OtherExit", m |-> "-", k |-> 1])
  /\ UNCHANGED <<cs, stack, enabled, msg, last, handles>>

BNext ==
  \/ \E m \in {"dis", "ign"} : Enter(m)
  \/ ExitNormal
  \/ \E k \in 1..MaxDepth : ExitByException(k)
  \/ \E cls \in {"good", "bad"} : Assign(cls)
  \/ TakeHandle
  \/ OtherEnter \/ OtherExit
  \/ \E o \in {"in", "out"} : \E cls \in {"good", "bad"} : AssignVia(o, cls)

NoCase == Case("-", 0, "-", 0, 0, 0, 0, SV("-"))
BInit == cs = NoCase /\ stack = <<>> /\ enabled = TRUE /\ msg = "m0" /\ last = NoLast /\ hist = <<>> /\ handles = {} /\ other = 0
CInit == IsCase(cs) /\ stack = <<>> /\ enabled = TRUE /\ msg = "m0" /\ last = NoLast /\ hist = <<>> /\ handles = {} /\ other = 0

Init == IF Mode = "cases" THEN CInit ELSE BInit
Next == IF Mode = "cases" THEN FALSE /\ UNCHANGED vars ELSE BNext
Spec == Init /\ [][Next]_vars

(* C09: validation is in force exactly when execution is outside every disable block *)
EnabledIffOutside == enabled = (Depth(stack) = 0)
(* C09: a refused assignment leaves the message unchanged *)
AtomicStep == [][(last' # last /\ last'.refused) => msg' = msg]_vars
(* C09: outside every block a value outside the domain is refused, through whatever object the assignment goes *)
RefusedOutside == [][(last' # last /\ Depth(stack) = 0 /\ last'.cls = "bad") => last'.refused]_vars
(* outside every block a value outside the domain never reaches the message *)
NoJunkOutside == (Depth(stack) = 0 /\ last.cls = "bad" /\ last.refused) => msg = last.pre

(* the table is total and the slice model is sane; exporting the cases *)
CaseInv ==
  Mode # "cases" \/
    (/\ Accept(cs) \in Verdicts
     /\ PrintT("CASE " \o ToJson(cs @@ [exp |-> Accept(cs), L |-> TargetLen(cs)])))
(* block behaviours (without Assign: the driver probes after every step) *)
GenInv == ~(Mode = "gen" /\ Len(hist) = MaxSteps) \/ PrintT("BEH " \o ToJson(hist))
=============================================================================
