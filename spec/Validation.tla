------------------------------ MODULE Validation ------------------------------
(***************************************************************************)
(* C09 -- validated assignment to message fields (pyrtma/validators.py).   *)
(*                                                                         *)
(* Part 1 is the transcribed DOMAIN TABLE of the property: for a field     *)
(* (validator kind, length), a target shape (how the assignment is         *)
(* spelled) and a value class it says whether the property demands         *)
(* acceptance ("ok"), demands refusal ("reject") or leaves the choice      *)
(* open ("open").  All values are SYMBOLIC TAGS; the tag -> Python value   *)
(* mapping lives in vf/valdrv.py (trusted binding, several concrete values *)
(* per tag).  TLC enumerates every case (one initial state per case) and   *)
(* exports it; the driver performs one implementation test per case.       *)
(*                                                                         *)
(* Part 2 is the state machine of the nesting of disable-validation        *)
(* blocks (Enter, ExitNormal, ExitByException, Assign) with the invariant  *)
(* EnabledIffOutside and the action property AtomicStep.                   *)
(*                                                                         *)
(* Part 3 (Judge) evaluates the named clauses of C09 on an OBSERVATION of  *)
(* the real code; Validation_Trace.tla feeds recorded observations to it.  *)
(***************************************************************************)
EXTENDS Integers, Sequences, FiniteSets, TLC, Json

CONSTANTS Lens,        \* array lengths for element / whole / via-field cases
          SliceLens,   \* array lengths for which EVERY slice shape is enumerated
          StrLens,     \* char[n] buffer lengths
          MaxDepth,    \* nesting bound of disable blocks
          MaxSteps,    \* length bound of block behaviours
          Mode,        \* "cases" | "blocks" | "gen" | "trace"
          RestoreOnException   \* TRUE: intended behaviour; FALSE: model of a context manager without try/finally

NONE == 99             \* a missing slice bound / step (Python None); ints only, TLC cannot compare int with string

(***************************************************************************)
(* Part 1a: kinds, shapes, value classes                                   *)
(***************************************************************************)
SignedKinds   == {"Int8", "Int16", "Int32", "Int64"}
UnsignedKinds == {"Uint8", "Uint16", "Uint32", "Uint64"}
IntKinds      == SignedKinds \cup UnsignedKinds
FloatKinds    == {"Float", "Double"}
NumKinds      == IntKinds \cup FloatKinds
ElemKinds     == NumKinds \cup {"Byte", "Struct"}      \* IntArray(k,n) FloatArray(k,n) ByteArray(n) StructArray(n)
LeafKinds     == NumKinds \cup {"Byte", "Char"}         \* scalar validators (String and Struct are handled separately)

(* scalar value classes per kind *)
WrongTypes == {"STR", "BYTES", "NONE", "LIST", "DICT", "OBJ", "CT_OTHER"}
IntTags   == {"MINM1", "MIN", "M1", "ZERO", "ONE", "MAX", "MAXP1", "HUGE", "NEGHUGE", "TRUE", "FALSE",
              "F1_0", "F1_5", "PINF", "NINF", "NAN", "CT_SAME", "DECIMAL"} \cup WrongTypes
FloatTags == {"ZERO", "ONE", "M1", "F1_5", "F0_1", "FMAX", "NFMAX", "BIGINT", "SUBN", "NEGZERO", "NAN",
              "OVF", "NOVF", "HUGE", "NEGHUGE", "PINF", "NINF", "TRUE", "CT_SAME", "DECIMAL"} \cup WrongTypes
ByteTags  == {"ZERO", "ONE", "MAX", "MAXP1", "M1", "HUGE", "TRUE", "F1_0", "F1_5", "BYTES1", "BARR1", "BYTES0",
              "BYTES2", "STR", "NONE", "LIST", "DICT", "OBJ", "CT_SAME", "CT_OTHER"}
CharTags  == {"A", "NUL", "DEL", "QUOTE", "CTRL", "EMPTY", "TWO", "NONASCII", "HIGH", "BYTES", "INT", "NONE", "LIST",
              "CT_SAME", "CT_OTHER"}
StringTags == {"EMPTY", "ONE", "MAXLEN", "EXACT", "OVER", "OVERLONG", "NONASCII", "NONASCII_LAST", "NUL_MID", "CTRL",
               "QUOTES", "BYTES", "INT", "NONE", "LIST", "CT_SAME", "CT_OTHER"}
StructTags == {"SAME", "OTHER", "NONE", "TUPLE", "DICT", "INT", "BYTES", "SELFMSG"}

ScalarTags(k) ==
  CASE k \in IntKinds -> IntTags
    [] k \in FloatKinds -> IF k = "Double" THEN FloatTags \ {"OVF", "NOVF"} ELSE FloatTags
    [] k = "Byte" -> ByteTags
    [] k = "Char" -> CharTags
    [] k = "String" -> StringTags
    [] k = "Struct" -> StructTags

(* the domain table for one scalar value *)
AcceptScalar(k, t) ==
  CASE k \in IntKinds ->
         (CASE t \in {"MIN", "ZERO", "ONE", "MAX"} -> "ok"
            [] t = "M1" -> IF k \in SignedKinds THEN "ok" ELSE "reject"        \* -1 = MIN-1 of an unsigned field
            [] t \in {"MINM1", "MAXP1", "HUGE", "NEGHUGE"} -> "reject"             \* out of range
            [] t \in {"F1_5", "PINF", "NINF", "NAN"} -> "reject"                   \* non-integer
            [] t \in WrongTypes -> "reject"                                        \* not an integer at all
            [] t \in {"TRUE", "FALSE", "F1_0", "CT_SAME", "DECIMAL"} -> "open")    \* bool, 1.0, c_intN(v), Decimal(1)
    [] k \in FloatKinds ->
         (CASE t \in {"ZERO", "ONE", "M1", "F1_5", "F0_1", "FMAX", "NFMAX", "BIGINT", "SUBN", "NEGZERO", "NAN"} -> "ok"
            [] t \in {"OVF", "NOVF", "HUGE", "NEGHUGE"} -> "reject"               \* finite, overflows to infinity
            [] t \in WrongTypes -> "reject"                                        \* no read-back could equal it
            [] t \in {"PINF", "NINF", "TRUE", "CT_SAME", "DECIMAL"} -> "open")     \* literal +-inf, bool, c_float(v)
    [] k = "Byte" ->
         (CASE t \in {"ZERO", "ONE", "MAX", "BYTES1", "BARR1"} -> "ok"
            [] t \in {"MAXP1", "M1", "HUGE", "F1_5", "BYTES0", "BYTES2", "STR", "NONE", "LIST", "DICT", "OBJ", "CT_OTHER"} -> "reject"
            [] t \in {"TRUE", "F1_0", "CT_SAME"} -> "open")
    [] k = "Char" ->
         (CASE t \in {"A", "NUL", "DEL", "QUOTE", "CTRL"} -> "ok"
            [] t \in {"TWO", "NONASCII", "HIGH", "BYTES", "INT", "NONE", "LIST", "CT_OTHER"} -> "reject"
            [] t \in {"EMPTY", "CT_SAME"} -> "open")
    [] k = "String" ->
         (CASE t \in {"EMPTY", "ONE", "MAXLEN", "NUL_MID", "CTRL", "QUOTES"} -> "ok"
            [] t \in {"OVER", "OVERLONG", "NONASCII", "NONASCII_LAST", "BYTES", "INT", "NONE", "LIST", "CT_OTHER"} -> "reject"
            [] t \in {"EXACT", "CT_SAME"} -> "open")     \* EXACT: n characters in char[n] (no room for the NUL)
    [] k = "Struct" ->
         (CASE t = "SAME" -> "ok"
            [] t \in {"OTHER", "NONE", "TUPLE", "DICT", "INT", "BYTES", "SELFMSG"} -> "reject")

OkTags(k) == {t \in ScalarTags(k) : AcceptScalar(k, t) = "ok"}

(* bad elements used inside otherwise valid sequences; "canonical" = the one used for slice shapes *)
BadElems(k) ==
  CASE k \in IntKinds -> {"MINM1", "MAXP1", "HUGE", "NEGHUGE", "F1_5", "NAN", "PINF", "STR", "NONE", "LIST"}
    [] k = "Float" -> {"OVF", "NOVF", "HUGE", "NEGHUGE", "STR", "NONE", "LIST"}
    [] k = "Double" -> {"HUGE", "NEGHUGE", "STR", "NONE", "LIST"}
    [] k = "Byte" -> {"MAXP1", "M1", "HUGE", "F1_5", "STR", "NONE", "LIST"}
    [] k = "Struct" -> {"OTHER", "NONE", "TUPLE", "DICT", "INT"}
CanonBad(k) ==
  CASE k \in IntKinds -> {"MAXP1", "MINM1"}
    [] k = "Float" -> {"OVF", "HUGE"}
    [] k = "Double" -> {"HUGE"}
    [] k = "Byte" -> {"MAXP1"}
    [] k = "Struct" -> {"OTHER"}
OpenElems(k) ==
  CASE k \in IntKinds -> {"TRUE", "F1_0", "CT_SAME"}
    [] k \in FloatKinds -> {"PINF", "NINF", "TRUE", "CT_SAME", "DECIMAL"}
    [] k = "Byte" -> {"TRUE", "BYTES1", "CT_SAME"}
    [] k = "Struct" -> {}
Neighbours(k) == IF k \in FloatKinds THEN {"plain", "NAN", "MIX"} ELSE {"plain"}

(* sequence value classes: [t, p, e, nb]  (p, e, nb only for BADAT / OPENAT) *)
SV(t) == [t |-> t, p |-> 0, e |-> "-", nb |-> "-"]
SeqPlain(k) ==
  {"GOOD", "TUPLE", "LENM1", "LENP1", "EMPTY", "STR", "NONE", "SCALAR", "GEN", "ITER", "SET", "CARR_SAME", "CARR_LEN"}
  \cup (IF k \in FloatKinds THEN {"GOOD_NAN"} ELSE {})
  \cup (IF k \in IntKinds THEN {"RANGE", "BYTES"} ELSE {})
  \cup (IF k = "Byte" THEN {"BYTES_OK", "BARR_OK", "ALL00", "ALLFF", "BYTES_LENM1", "BYTES_LENP1"} ELSE {})
  \cup (IF k = "Struct" THEN {"CARR_OTHER"} ELSE {})

SeqValues(k, L, bads) ==
  {SV(t) : t \in SeqPlain(k)}
  \cup {[t |-> "BADAT", p |-> p, e |-> e, nb |-> nb] : p \in 1..L, e \in bads, nb \in Neighbours(k)}
  \cup {[t |-> "OPENAT", p |-> p, e |-> e, nb |-> "plain"] : p \in 1..L, e \in OpenElems(k)}
SliceValues(k, L) ==
  {SV(t) : t \in {"GOOD", "LENM1", "LENP1"} \cup (IF k = "Byte" THEN {"BYTES_OK", "BYTES_LENP1"} ELSE {})}
  \cup {[t |-> "BADAT", p |-> p, e |-> e, nb |-> nb] : p \in 1..L, e \in CanonBad(k), nb \in Neighbours(k) \ {"MIX"}}

(* a sequence of target length L assigned to L slots *)
AcceptSeq(k, L, v) ==
  CASE v.t \in {"GOOD", "TUPLE", "GOOD_NAN", "BYTES_OK", "BARR_OK", "ALL00", "ALLFF"} -> IF L = 0 THEN "open" ELSE "ok"
    [] v.t = "BADAT" -> "reject"                      \* wherever it occurs, whatever surrounds it
    [] v.t = "OPENAT" -> "open"
    [] v.t \in {"LENP1", "BYTES_LENP1", "CARR_LEN"} -> "reject"                   \* wrong-length sequences
    [] v.t \in {"LENM1", "BYTES_LENM1", "EMPTY"} -> IF L = 0 THEN "open" ELSE "reject"
    [] v.t \in {"STR", "NONE", "SCALAR"} -> "reject"                               \* not a sequence of elements
    [] v.t = "CARR_OTHER" -> "reject"                                              \* wrong struct type
    [] v.t \in {"GEN", "ITER", "SET", "RANGE", "BYTES", "CARR_SAME"} -> "open"     \* one-shot iterators, unordered, ctypes arrays

(* Python slice semantics: number of selected slots of arr[a:b:s], len(arr) = n *)
Clamp(x, lo, hi) == IF x < lo THEN lo ELSE IF x > hi THEN hi ELSE x
SliceLen(a, b, s, n) ==
  LET st == IF s = NONE THEN 1 ELSE s
      start == IF a = NONE THEN (IF st > 0 THEN 0 ELSE n - 1)
               ELSE IF st > 0 THEN Clamp(IF a < 0 THEN a + n ELSE a, 0, n)
               ELSE Clamp(IF a < 0 THEN a + n ELSE a, 0 - 1, n - 1)
      stop  == IF b = NONE THEN (IF st > 0 THEN n ELSE 0 - 1)
               ELSE IF st > 0 THEN Clamp(IF b < 0 THEN b + n ELSE b, 0, n)
               ELSE Clamp(IF b < 0 THEN b + n ELSE b, 0 - 1, n - 1)
  IN IF st > 0 THEN (IF stop > start THEN (stop - start + st - 1) \div st ELSE 0)
     ELSE (IF start > stop THEN (start - stop - st - 1) \div (0 - st) ELSE 0)

(***************************************************************************)
(* Part 1b: the cases.  c = [k, n, sh, i, a, b, s, v]                      *)
(***************************************************************************)
Case(k, n, sh, i, a, b, s, v) == [k |-> k, n |-> n, sh |-> sh, i |-> i, a |-> a, b |-> b, s |-> s, v |-> v]
Bounds(n) == {NONE} \cup ((0 - n - 1)..(n + 1))
Steps == {NONE, 1, 2, 0 - 1, 0 - 2}
InnerStr == 8          \* the char[] field of the nested probe struct

(* the case families, as a predicate that TLC enumerates (one initial state per case) *)
IsCase(c) ==
  \/ \E k \in LeafKinds : \E sh \in {"scalar", "nested", "nestedarr"} : \E t \in ScalarTags(k) :
        c = Case(k, 0, sh, 0, 0, 0, 0, SV(t))
  \/ \E n \in StrLens : \E t \in StringTags : c = Case("String", n, "scalar", 0, 0, 0, 0, SV(t))
  \/ \E sh \in {"nested", "nestedarr"} : \E t \in StringTags : c = Case("String", InnerStr, sh, 0, 0, 0, 0, SV(t))
  \/ \E t \in StructTags : c = Case("Struct", 0, "scalar", 0, 0, 0, 0, SV(t))
  \/ \E k \in ElemKinds : \E n \in Lens :
        \/ \E i \in (0 - n - 1)..n : \E t \in ScalarTags(k) : c = Case(k, n, "element", i, 0, 0, 0, SV(t))
        \/ \E sh \in {"whole", "wholeslice"} : \E v \in SeqValues(k, n, BadElems(k)) : c = Case(k, n, sh, 0, 0, 0, 0, v)
        \/ \E t \in {"SAME", "OTHERLEN", "OTHERKIND", "UNBOUND"} : c = Case(k, n, "viafield", 0, 0, 0, 0, SV(t))
  \/ \E k \in ElemKinds : \E n \in SliceLens : \E a \in Bounds(n) : \E b \in Bounds(n) : \E s \in Steps :
        \E v \in SliceValues(k, SliceLen(a, b, s, n)) : c = Case(k, n, "slice", 0, a, b, s, v)

InRange(i, n) == (0 - n) <= i /\ i < n

(* THE TABLE *)
Accept(c) ==
  CASE c.sh \in {"scalar", "nested", "nestedarr"} -> AcceptScalar(c.k, c.v.t)
    [] c.sh = "element" ->
         IF ~InRange(c.i, c.n) THEN "open"      \* an index outside the array: the property is about values
         ELSE AcceptScalar(c.k, c.v.t)
    [] c.sh \in {"whole", "wholeslice"} -> AcceptSeq(c.k, c.n, c.v)
    [] c.sh = "slice" -> AcceptSeq(c.k, SliceLen(c.a, c.b, c.s, c.n), c.v)
    [] c.sh = "viafield" ->
         (CASE c.v.t = "SAME" -> "ok"
            [] c.v.t = "OTHERLEN" -> "reject"                                   \* wrong length
            [] c.v.t = "OTHERKIND" -> IF c.k = "Struct" THEN "reject" ELSE "open"  \* wrong struct type / other number type
            [] c.v.t = "UNBOUND" -> "open")
Verdicts == {"ok", "reject", "open"}

(***************************************************************************)
(* Part 3: the clauses of C09 on one observation                           *)
(*   o = [res: "accepted" | "refused", rb: BOOLEAN (read-back equals),     *)
(*        same: BOOLEAN (every byte of the message unchanged)]             *)
(***************************************************************************)
Judge(c, o) ==
  LET e == Accept(c) IN
     (IF o.res = "accepted" /\ e = "reject" THEN {"C09.AcceptedOutOfDomain"} ELSE {})
\cup (IF o.res = "refused" /\ e = "ok" THEN {"C09.RefusedInDomain"} ELSE {})
\cup (IF o.res = "accepted" /\ e # "reject" /\ ~o.rb THEN {"C09.ReadbackDiffers"} ELSE {})
\cup (IF o.res = "refused" /\ ~o.same THEN {"C09.NotAtomic"} ELSE {})

(***************************************************************************)
(* Part 2: nesting of disable blocks                                       *)
(*   stack: the open blocks, innermost last; a block is "dis" (disables)   *)
(*   or "ign" (disable_message_validation(ignore=True): does nothing) and  *)
(*   remembers the flag it found.  msg is the abstract content of a        *)
(*   message ("m0" initial, "new" after an accepted write, "junk" after an *)
(*   unvalidated write of a value outside the domain).                     *)
(***************************************************************************)
VARIABLES cs, stack, enabled, msg, last, hist
vars == <<cs, stack, enabled, msg, last, hist>>

Frame(m, sv) == [mode |-> m, saved |-> sv]
HasDis(st) == \E j \in DOMAIN st : st[j].mode = "dis"
Depth(st) == Cardinality({j \in DOMAIN st : st[j].mode = "dis"})
Front(st, k) == SubSeq(st, 1, Len(st) - k)
NoLast == [cls |-> "good", refused |-> FALSE, pre |-> "m0"]
Log(e) == IF Mode = "gen" THEN Append(hist, e) ELSE hist

(* the flag after leaving the innermost k blocks, restoring what each one saved (innermost first) *)
RECURSIVE Unwind(_, _, _)
Unwind(st, en, k) ==
  IF k = 0 THEN en
  ELSE LET top == st[Len(st)] IN
       Unwind(Front(st, 1), IF top.mode = "dis" THEN top.saved ELSE en, k - 1)

Enter(m) ==
  /\ Len(stack) < MaxDepth /\ Len(hist) < MaxSteps
  /\ stack' = Append(stack, Frame(m, enabled))
  /\ enabled' = IF m = "dis" THEN FALSE ELSE enabled
  /\ hist' = Log([a |-> "Enter", m |-> m, k |-> 0])
  /\ UNCHANGED <<cs, msg, last>>

ExitNormal ==
  /\ Len(stack) > 0 /\ Len(hist) < MaxSteps
  /\ enabled' = Unwind(stack, enabled, 1)
  /\ stack' = Front(stack, 1)
  /\ hist' = Log([a |-> "ExitNormal", m |-> "-", k |-> 1])
  /\ UNCHANGED <<cs, msg, last>>

(* an exception raised in the innermost block propagates through k blocks and is caught there *)
ExitByException(k) ==
  /\ k \in 1..Len(stack) /\ Len(hist) < MaxSteps
  /\ enabled' = IF RestoreOnException THEN Unwind(stack, enabled, k) ELSE enabled
  /\ stack' = Front(stack, k)
  /\ hist' = Log([a |-> "ExitByException", m |-> "-", k |-> k])
  /\ UNCHANGED <<cs, msg, last>>

(* assignment of a value inside ("good") or outside ("bad") the domain of the field *)
Assign(cls) ==
  /\ Mode = "blocks"
  /\ IF enabled
     THEN /\ msg' = IF cls = "good" THEN "new" ELSE msg            \* refused: every byte unchanged
          /\ last' = [cls |-> cls, refused |-> cls = "bad", pre |-> msg]
     ELSE /\ msg' \in (IF cls = "good" THEN {"new"} ELSE {msg, "junk"})   \* validation off: whatever the raw write does
          /\ last' = [cls |-> cls, refused |-> FALSE, pre |-> msg]
  /\ UNCHANGED <<cs, stack, enabled, hist>>

BNext ==
  \/ \E m \in {"dis", "ign"} : Enter(m)
  \/ ExitNormal
  \/ \E k \in 1..MaxDepth : ExitByException(k)
  \/ \E cls \in {"good", "bad"} : Assign(cls)

NoCase == Case("-", 0, "-", 0, 0, 0, 0, SV("-"))
BInit == cs = NoCase /\ stack = <<>> /\ enabled = TRUE /\ msg = "m0" /\ last = NoLast /\ hist = <<>>
CInit == IsCase(cs) /\ stack = <<>> /\ enabled = TRUE /\ msg = "m0" /\ last = NoLast /\ hist = <<>>

Init == IF Mode = "cases" THEN CInit ELSE BInit
Next == IF Mode = "cases" THEN FALSE /\ UNCHANGED vars ELSE BNext
Spec == Init /\ [][Next]_vars

(* C09: validation is in force exactly when execution is outside every disable block *)
EnabledIffOutside == enabled = (Depth(stack) = 0)
(* C09: a refused assignment leaves the message unchanged *)
AtomicStep == [][(last' # last /\ last'.refused) => msg' = msg]_vars
(* outside every block a value outside the domain never reaches the message *)
NoJunkOutside == (Depth(stack) = 0 /\ last.cls = "bad" /\ last.refused) => msg = last.pre

(* the table is total and the slice model is sane; exporting the cases *)
CaseInv ==
  Mode # "cases" \/
    (/\ Accept(cs) \in Verdicts
     /\ PrintT("CASE " \o ToJson(cs @@ [exp |-> Accept(cs)])))
(* block behaviours (without Assign: the driver probes after every step) *)
GenInv == ~(Mode = "gen" /\ Len(hist) = MaxSteps) \/ PrintT("BEH " \o ToJson(hist))
=============================================================================
