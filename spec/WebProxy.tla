------------------------------ MODULE WebProxy ------------------------------
(***************************************************************************)
(* The websocket proxy of pyrtma (web_manager.py, RTMAWebSocketHandler):   *)
(* one proxy `Client` per websocket connection.  The module follows the    *)
(* code: one action per branch of process_json_message, the error path     *)
(* explicit, the body of the message loop in handle() (Deliver), finish(). *)
(* Wherever the code tests `ws_ready_to_send` the environment chooses w.    *)
(*                                                                         *)
(* The manager's reaction to what the proxy writes is folded into the same *)
(* step (manager.py process_message: subscription tables, one ACKNOWLEDGE   *)
(* per subscription control message, forwarding to subscribers including   *)
(* the sender itself).                                                     *)
(*                                                                         *)
(* WHAT THE CODE REALLY DOES, where it differs from what one would guess   *)
(* (all of it replayed on the real handler by vf/webdrv.py):               *)
(*  R1 `proxy._socket_connect` in handle() already makes proxy.connected   *)
(*     true.  Control inputs that arrive BEFORE CONNECT therefore do not   *)
(*     raise NotConnectedError (which would be a ClientError and caught):  *)
(*     they are written to the manager by a module that has no id yet      *)
(*     (src_mod_id 0); the manager honours them and acknowledges to id 0.  *)
(*     state "sock" below.  NotConnectedError is unreachable inside        *)
(*     handle(): after DISCONNECT the loop condition ends the loop.        *)
(*  R2 The ACKNOWLEDGE of every SUBSCRIBE / UNSUBSCRIBE / PAUSE / RESUME   *)
(*     is not consumed by the proxy; it arrives through the message loop   *)
(*     (read_message(ack=True)) and is passed to the websocket as JSON.    *)
(*  R3 _connect_helper takes the FIRST acknowledge it finds as the answer  *)
(*     to CONNECT and throws away every other frame queued before it; it   *)
(*     resets the proxy's subscription sets, the manager keeps its own.    *)
(*     After pre-CONNECT control input the first acknowledge is a stale    *)
(*     one addressed to id 0 and the proxy believes its id is 0.           *)
(*  R4 A second CONNECT on a connected proxy sets proxy.module_id to 0,    *)
(*     is ignored by the manager, and waits 3 s for an acknowledge: a      *)
(*     stale queued ACK is taken as the answer (subscription sets reset on *)
(*     the proxy only), otherwise every queued frame is lost and the       *)
(*     error path answers (AcknowledgementTimeout is a ClientError).       *)
(*  R5 read_message(timeout=None) discards frames of types the proxy is    *)
(*     no longer subscribed to and then BLOCKS in recv for the next frame  *)
(*     (no select): phase "blocked".  For a client that says CONNECT first *)
(*     and once, an acknowledge always follows a discarded frame.          *)
(*  R6 A FAILED_MESSAGE report goes to every subscriber of FAILED_MESSAGE, *)
(*     i.e. back to the proxy itself when it is subscribed to ALL; the     *)
(*     recursion guard of send_failed_message stops the echo.              *)
(*  R7 see WsClose.                                                         *)
(*  R8 A frame of a type without a definition in the proxy process (only   *)
(*     delivered under a subscription to ALL) is answered by the error     *)
(*     path of the loop: rtma_msg_error on the websocket when writable,    *)
(*     otherwise NOTHING - no FAILED_MESSAGE goes to the manager.          *)
(* `clean` records the environment assumption "CONNECT first and once";    *)
(* the properties that need it say so, the *Strict variants (not in the    *)
(* cfg) are violated by the behaviour described in R3 / R4 / R5.           *)
(*                                                                         *)
(* INTENDED behaviour where the code is defective (replay reports these):  *)
(*  D1 "PING" while the websocket is not writable: nothing happens         *)
(*     (code: falls through to Message.from_json("PING"), JSONDecodeError  *)
(*     is not caught, the handler dies).                                   *)
(*  D2 text that is not a JSON object with "header" and "data": answered   *)
(*     by the error path like every other undecodable message (code:       *)
(*     JSONDecodeError / KeyError / TypeError are not caught).             *)
(*  D3 SUBSCRIBE .. RESUME of ALL_MESSAGE_TYPES: no error reply (code:     *)
(*     the log line calls get_msg_cls(ALL_MESSAGE_TYPES) after the request *)
(*     was carried out, UnknownMessageType lands in the error path).       *)
(***************************************************************************)
EXTENDS Integers, Sequences, FiniteSets, TLC, Json

CONSTANTS MaxMsgs,      \* bound on the number of environment inputs + loop iterations
          GenOn,        \* TRUE: record the behaviour in hist and print it at the end
          ProxyId,      \* the dynamic module id the manager hands to the proxy
          WebSrc,       \* src_mod_id the web client writes into messages it wants forwarded
          PubId,        \* module id of the other module
          Hostile,      \* FALSE: the inputs of D1 / D2 (which end a replay on the defective code) are left out
          WConnect, WDeliver, WPub   \* weights for the random export only (1 when model checking): the step is
                                     \* offered that many times, told apart by a `pad` field in the record

ASSUME WebSrc # ProxyId /\ WebSrc # 0 /\ ProxyId # 0 /\ PubId \notin {0, ProxyId, WebSrc}

VARIABLES st,           \* "sock": TCP connection to the manager only | "conn": module connected | "disc"
          pid,          \* proxy.module_id
          mid,          \* the id the manager has for this connection (0: none yet)
          psub, ppaused,\* proxy-side subscription sets (Client._subscribed_types / _paused_types)
          msub,         \* manager-side subscriptions of the proxy's connection = its delivery set
          inq,          \* frames the manager has written to the proxy that the proxy has not read yet
          ka,           \* handler.keep_alive
          phase,        \* "loop" | "ended" (loop left) | "finished" (finish() done) | "done" | "blocked" (R5)
          n, nid,       \* steps taken, data messages created
          wsmax,        \* largest data message id written to the websocket so far
          clean,        \* the web client said CONNECT first and once (so far)
          last,         \* what the most recent step did (deltas)
          hist
vars == <<st, pid, mid, psub, ppaused, msub, inq, ka, phase, n, nid, wsmax, clean, last, hist>>

DataTypes == {"T1", "T2"}
Targets == DataTypes \cup {"ALL"}
CtlKinds == {"SUB", "UNSUB", "PAUSE", "RESUME"}

(* frames manager -> proxy *)
Ack(d) == [k |-> "ACK", dst |-> d]
Data(t, i) == [k |-> "DATA", t |-> t, id |-> i]
FmFrame == [k |-> "FM"]
InfoFrame == [k |-> "INFO"]
UnkFrame == [k |-> "UNK"]            \* a message of a type the proxy process has no definition for ("TX")
TypeOf(f) == IF f.k = "DATA" THEN f.t ELSE f.k

(* texts on the websocket *)
Pong == [k |-> "pong"]
Err == [k |-> "err"]
WsText(f) == CASE f.k = "ACK" -> [k |-> "msg", t |-> "ACK", dst |-> f.dst]
               [] f.k = "DATA" -> [k |-> "msg", t |-> f.t, id |-> f.id]
               [] OTHER -> [k |-> "msg", t |-> f.k]

(* manager.py forward_message: subscribers of the type and of ALL_MESSAGE_TYPES *)
Delivers(ms, ty) == ty \in ms \/ "ALL" \in ms
ToProxy(ms, ty, dst) == Delivers(ms, ty) /\ (dst = 0 \/ dst = mid)

(* manager.py add_subscription / remove_subscription (RESUME = add, PAUSE = remove) *)
MgrSubAfter(ms, kind, t) ==
  IF kind \in {"SUB", "RESUME"}
  THEN IF t = "ALL" THEN {"ALL"} ELSE IF "ALL" \in ms THEN ms ELSE ms \cup {t}
  ELSE IF t = "ALL" THEN {} ELSE IF "ALL" \in ms THEN ms ELSE ms \ {t}

(* client.py _subscription_control *)
SubAll == "ALL" \in psub
PSubAfter(kind, t) ==
  CASE kind \in {"SUB", "RESUME"} -> IF t = "ALL" THEN {"ALL"} ELSE psub \cup {t}
    [] OTHER -> IF t = "ALL" THEN {} ELSE psub \ {t}
PPausedAfter(kind, t) ==
  CASE t = "ALL" -> {}
    [] kind = "PAUSE" -> ppaused \cup {t}
    [] OTHER -> ppaused \ {t}

(* client.py read_message(ack=True): what gets past the subscription filter *)
Passes(f) == SubAll \/ f.k = "ACK" \/ (f.k = "DATA" /\ f.t \in psub)
             \/ f.k = "UNK"      \* _read_message raises UnknownMessageType before the filter looks at it
IsAck(f) == f.k = "ACK"
FirstIdx(q, P(_)) == IF \E i \in DOMAIN q : P(q[i])
                     THEN CHOOSE i \in DOMAIN q : P(q[i]) /\ \A j \in 1..(i - 1) : ~P(q[j])
                     ELSE 0
After(q, i) == SubSeq(q, i + 1, Len(q))

(* web_manager.py send_failed_message: nothing for a FAILED_MESSAGE (recursion guard) *)
FailedReport(p, f) == IF f.k = "FM" THEN <<>> ELSE <<[k |-> "FM", src |-> p, dest |-> p, of |-> TypeOf(f)]>>
FmEcho(ms, rep) == IF rep # <<>> /\ Delivers(ms, "FM") THEN <<FmFrame>> ELSE <<>>

WsIds(ws) == {ws[i].id : i \in {j \in DOMAIN ws : ws[j].k = "msg" /\ ws[j].t \in DataTypes}}
SetMax(S) == CHOOSE x \in S : \A y \in S : y <= x

Rec(act, a, in, t, id, dst, w) == [act |-> act, a |-> a, in |-> in, t |-> t, id |-> id, dst |-> dst, w |-> w]

(* bookkeeping common to all steps; must come after the primed state variables are fixed *)
Log(rec, ws, mg, q, read) ==
  /\ n' = n + 1
  /\ wsmax' = IF WsIds(ws) = {} THEN wsmax ELSE SetMax(WsIds(ws) \cup {wsmax})
  /\ last' = rec @@ [ws |-> ws, mg |-> mg, q |-> q, read |-> read, wsmax0 |-> wsmax, pid0 |-> pid]
  /\ hist' = IF GenOn
             THEN Append(hist, rec @@ [exp |-> [ws |-> ws, mg |-> mg, q |-> q, psub |-> psub', ppaused |-> ppaused',
                                                msub |-> msub', pid |-> pid', mid |-> mid', st |-> st', ka |-> ka', inq |-> inq',
                                                blocked |-> (phase' = "blocked")]])
             ELSE hist

InLoop == phase = "loop" /\ n < MaxMsgs
ErrReply(w) == IF w THEN <<Err>> ELSE <<>>

-----------------------------------------------------------------------------
(* process_json_message: `message == "PING" and self.ws_ready_to_send`  (D1: intended when not writable) *)
WsPing(w) ==
  /\ InLoop
  /\ w \/ Hostile
  /\ UNCHANGED <<st, pid, mid, psub, ppaused, msub, inq, ka, phase, nid, clean>>
  /\ Log(Rec("WsPing", "Ws", "PING", "", 0, 0, w), IF w THEN <<Pong>> ELSE <<>>, <<>>, <<>>, <<>>)

(* the except branch: RTMAMessageError from Message.from_json  *)
WsInvalid(w) ==
  /\ InLoop
  /\ UNCHANGED <<st, pid, mid, psub, ppaused, msub, inq, ka, phase, nid, clean>>
  /\ Log(Rec("WsInvalid", "Ws", "INVALID", "", 0, 0, w), ErrReply(w), <<>>, <<>>, <<>>)

(* D2: text that json.loads / d["header"] / d["data"] cannot take: intended = the same error path *)
WsMalformed(w) ==
  /\ InLoop
  /\ Hostile
  /\ UNCHANGED <<st, pid, mid, psub, ppaused, msub, inq, ka, phase, nid, clean>>
  /\ Log(Rec("WsMalformed", "Ws", "MALFORMED", "", 0, 0, w), ErrReply(w), <<>>, <<>>, <<>>)

(* MT_SUBSCRIBE / MT_UNSUBSCRIBE / MT_PAUSE_SUBSCRIPTION / MT_RESUME_SUBSCRIPTION carried out.
   No reply of its own: the manager's ACK comes through the loop (R2).  Before CONNECT: R1. *)
WsCtl(kind, t) ==
  /\ InLoop
  /\ ~(SubAll /\ t # "ALL")
  /\ psub' = PSubAfter(kind, t)
  /\ ppaused' = PPausedAfter(kind, t)
  /\ msub' = MgrSubAfter(msub, kind, t)
  /\ inq' = Append(inq, Ack(mid))
  /\ clean' = (clean /\ st = "conn")
  /\ UNCHANGED <<st, pid, mid, ka, phase, nid>>
  /\ Log(Rec("WsCtl", "Ws", kind, t, 0, 0, TRUE), <<>>, <<[k |-> kind, t |-> t, src |-> pid]>>, <<Ack(mid)>>, <<>>)

(* InvalidSubscription (a ClientError): individual type while subscribed to ALL; nothing is written *)
WsCtlRefused(kind, t, w) ==
  /\ InLoop
  /\ SubAll /\ t # "ALL"
  /\ clean' = (clean /\ st = "conn")
  /\ UNCHANGED <<st, pid, mid, psub, ppaused, msub, inq, ka, phase, nid>>
  /\ Log(Rec("WsCtlRefused", "Ws", kind, t, 0, 0, w), ErrReply(w), <<>>, <<>>, <<>>)

(* handle_connect / handle_connect_v2 on a proxy that is not yet a module; R3 *)
WsConnect(v, w, pad) ==
  /\ InLoop
  /\ st = "sock"
  /\ LET q1 == <<Ack(ProxyId)>> \o (IF Delivers(msub, "INFO") THEN <<InfoFrame>> ELSE <<>>)
         full == inq \o q1
         i == FirstIdx(full, IsAck)
         ack == full[i]
         rep == IF w THEN <<>> ELSE FailedReport(ack.dst, ack)
         echo == FmEcho(msub, rep)
     IN /\ st' = "conn"
        /\ mid' = ProxyId
        /\ pid' = ack.dst
        /\ psub' = {} /\ ppaused' = {}
        /\ inq' = After(full, i) \o echo
        /\ UNCHANGED <<msub, ka, phase, nid, clean>>
        /\ Log(Rec("WsConnect", "Ws", v, "", 0, 0, w) @@ [pad |-> pad], IF w THEN <<WsText(ack)>> ELSE <<>>,
               <<[k |-> "CONNECT_V2", src |-> 0], [k |-> "CONNECT", src |-> 0]>> \o rep, q1 \o echo, <<>>)

(* a second CONNECT / CONNECT_V2; R4 *)
WsReconnect(v, w) ==
  /\ InLoop
  /\ st = "conn"
  /\ \A j \in DOMAIN inq : inq[j].k # "UNK"
  /\ clean' = FALSE
  /\ LET i == FirstIdx(inq, IsAck)
         con == <<[k |-> "CONNECT_V2", src |-> 0], [k |-> "CONNECT", src |-> 0]>>
     IN IF i # 0
        THEN LET ack == inq[i]
                 rep == IF w THEN <<>> ELSE FailedReport(ack.dst, ack)
                 echo == FmEcho(msub, rep)
             IN /\ pid' = ack.dst
                /\ psub' = {} /\ ppaused' = {}
                /\ inq' = After(inq, i) \o echo
                /\ UNCHANGED <<st, mid, msub, ka, phase, nid>>
                /\ Log(Rec("WsReconnectStaleAck", "Ws", v, "", 0, 0, w), IF w THEN <<WsText(ack)>> ELSE <<>>, con \o rep, echo, <<>>)
        ELSE /\ pid' = 0
             /\ inq' = <<>>
             /\ UNCHANGED <<st, mid, psub, ppaused, msub, ka, phase, nid>>
             /\ Log(Rec("WsReconnectTimeout", "Ws", v, "", 0, 0, w), ErrReply(w), con, <<>>, <<>>)

(* MT_DISCONNECT: proxy.disconnect(); the loop condition `self.proxy.connected` ends the loop *)
WsDisconnect ==
  /\ InLoop
  /\ st' = "disc" /\ phase' = "ended"
  /\ psub' = {} /\ ppaused' = {} /\ msub' = {} /\ mid' = 0 /\ inq' = <<>>
  /\ UNCHANGED <<pid, ka, nid, clean>>
  /\ Log(Rec("WsDisconnect", "Ws", "DISCONNECT", "", 0, 0, TRUE), <<>>, <<[k |-> "DISCONNECT", src |-> pid]>>, <<>>, <<>>)

(* the else branch: proxy.forward_message(header, data): the header goes out as the web client wrote it *)
WsFwd(t, dst) ==
  /\ InLoop
  /\ nid' = nid + 1
  /\ LET q == IF ToProxy(msub, t, dst) THEN <<Data(t, nid + 1)>> ELSE <<>>
     IN /\ inq' = inq \o q
        /\ UNCHANGED <<st, pid, mid, psub, ppaused, msub, ka, phase, clean>>
        /\ Log(Rec("WsFwd", "Ws", "FWD", t, nid + 1, dst, TRUE), <<>>,
               <<[k |-> "FWD", t |-> t, src |-> WebSrc, dst |-> dst, id |-> nid + 1]>>, q, <<>>)

(* read_ws_message: close frame -> keep_alive = 0.  R7: when select reported the manager socket readable in the
   same iteration (both), one frame is still read from it and dropped without a FAILED_MESSAGE
   (`if msg is not None and self.keep_alive`); R5 applies to that read as well. *)
WsClose(both) ==
  /\ InLoop
  /\ both => inq # <<>>
  /\ ka' = FALSE
  /\ UNCHANGED <<st, pid, mid, psub, ppaused, msub, nid, clean>>
  /\ LET i == IF both THEN FirstIdx(inq, Passes) ELSE 0
     IN /\ phase' = IF both /\ i = 0 THEN "blocked" ELSE "ended"
        /\ inq' = IF both THEN (IF i = 0 THEN <<>> ELSE After(inq, i)) ELSE inq
        /\ Log(Rec(IF both THEN "WsCloseAndRead" ELSE "WsClose", "Ws", "CLOSE", "", 0, 0, TRUE) @@ [both |-> both],
               <<>>, <<>>, <<>>, IF i = 0 THEN <<>> ELSE <<inq[i]>>)

(* environment: the other module publishes a data message (broadcast) *)
Pub(t, pad) ==
  /\ InLoop
  /\ t = "TX" => clean /\ st = "conn"     \* environment restriction: R3 / R4 with such a frame queued are not modelled
  /\ nid' = nid + 1
  /\ LET q == IF Delivers(msub, t) THEN <<IF t = "TX" THEN UnkFrame ELSE Data(t, nid + 1)>> ELSE <<>>
     IN /\ inq' = inq \o q
        /\ UNCHANGED <<st, pid, mid, psub, ppaused, msub, ka, phase, clean>>
        /\ Log(Rec("Pub", "Pub", "", t, nid + 1, 0, TRUE) @@ [pad |-> pad], <<>>, <<>>, q, <<>>)

(* message loop, `self.proxy.sock in rd`: read_message(timeout=None, ack=True), then to the websocket or FAILED_MESSAGE *)
Deliver(w, pad) ==
  /\ InLoop
  /\ inq # <<>>
  /\ LET i == FirstIdx(inq, Passes)
     IN IF i = 0
        THEN /\ phase' = "blocked"            \* R5: everything queued was discarded, recv blocks
             /\ inq' = <<>>
             /\ UNCHANGED <<st, pid, mid, psub, ppaused, msub, ka, nid, clean>>
             /\ Log(Rec("DeliverBlocked", "Deliver", "", "", 0, 0, w) @@ [pad |-> pad], <<>>, <<>>, <<>>, <<>>)
        ELSE LET f == inq[i]
                 rep == IF w \/ f.k = "UNK" THEN <<>> ELSE FailedReport(pid, f)
                 echo == FmEcho(msub, rep)
             IN /\ inq' = After(inq, i) \o echo
                /\ UNCHANGED <<st, pid, mid, psub, ppaused, msub, ka, phase, nid, clean>>
                /\ Log(Rec("Deliver_" \o f.k, "Deliver", "", "", 0, 0, w) @@ [pad |-> pad],
                       IF f.k = "UNK" THEN ErrReply(w) ELSE IF w THEN <<WsText(f)>> ELSE <<>>, rep, echo, <<f>>)

(* WebsocketServer._terminate_client_handler: keep_alive = False *)
Shutdown ==
  /\ phase = "loop"
  /\ ka' = FALSE /\ phase' = "ended"
  /\ UNCHANGED <<st, pid, mid, psub, ppaused, msub, inq, nid, clean>>
  /\ Log(Rec("Shutdown", "Shutdown", "", "", 0, 0, TRUE), <<>>, <<>>, <<>>, <<>>)

(* finish(): disconnect on behalf of the web client if still connected *)
Finish ==
  /\ phase = "ended"
  /\ phase' = "finished"
  /\ IF st = "disc"
     THEN /\ UNCHANGED <<st, pid, mid, psub, ppaused, msub, inq, ka, nid, clean>>
          /\ Log(Rec("Finish", "Finish", "", "", 0, 0, TRUE), <<>>, <<>>, <<>>, <<>>)
     ELSE /\ st' = "disc"
          /\ psub' = {} /\ ppaused' = {} /\ msub' = {} /\ mid' = 0 /\ inq' = <<>>
          /\ UNCHANGED <<pid, ka, nid, clean>>
          /\ Log(Rec("Finish", "Finish", "", "", 0, 0, TRUE), <<>>, <<[k |-> "DISCONNECT", src |-> pid]>>, <<>>, <<>>)

(* process_json_message on a proxy that is no longer connected.  Not reachable through handle() (its loop has
   ended; the replay calls the dispatcher directly): requires_connection raises NotConnectedError, which IS a
   ClientError, so the error path answers and nothing is written; DISCONNECT is a no-op; PING as ever. *)
LateKinds == {"PING", "SUB", "FWD", "CONNECT", "DISCONNECT"}
LateInput(kind, w) ==
  /\ phase = "finished"
  /\ phase' = "done"
  /\ (kind = "PING" /\ ~(w /\ ka)) => Hostile
  /\ pid' = IF kind = "CONNECT" THEN 0 ELSE pid     \* _connect_helper forgets the dynamic id before it tries to send
  /\ UNCHANGED <<st, mid, psub, ppaused, msub, inq, ka, nid, clean>>
  /\ LET up == w /\ ka
     IN Log(Rec("LateInput", "Late", kind, IF kind \in {"SUB", "FWD"} THEN "T1" ELSE "", IF kind = "FWD" THEN nid + 1 ELSE 0, 0, w),
            CASE kind = "PING" -> IF up THEN <<Pong>> ELSE <<>>
              [] kind = "DISCONNECT" -> <<>>
              [] OTHER -> IF up THEN <<Err>> ELSE <<>>,
            <<>>, <<>>, <<>>)

Next ==
  \/ \E kind \in LateKinds, w \in BOOLEAN : LateInput(kind, w)
  \/ \E w \in BOOLEAN : WsPing(w) \/ WsInvalid(w) \/ WsMalformed(w) \/ \E pad \in 1..WDeliver : Deliver(w, pad)
  \/ \E kind \in CtlKinds, t \in Targets : WsCtl(kind, t) \/ \E w \in BOOLEAN : WsCtlRefused(kind, t, w)
  \/ \E v \in {"CONNECT", "CONNECT_V2"}, w \in BOOLEAN : WsReconnect(v, w) \/ \E pad \in 1..WConnect : WsConnect(v, w, pad)
  \/ WsDisconnect \/ Shutdown \/ Finish \/ \E both \in BOOLEAN : WsClose(both)
  \/ \E t \in DataTypes : \E dst \in {0, PubId} : WsFwd(t, dst)
  \/ \E t \in DataTypes \cup {"TX"} : \E pad \in 1..WPub : Pub(t, pad)

Init ==
  /\ st = "sock" /\ pid = 0 /\ mid = 0
  /\ psub = {} /\ ppaused = {} /\ msub = {} /\ inq = <<>>
  /\ ka = TRUE /\ phase = "loop" /\ n = 0 /\ nid = 0 /\ wsmax = 0 /\ clean = TRUE
  /\ last = [a |-> "Init"]
  /\ hist = <<>>

Spec == Init /\ [][Next]_vars

-----------------------------------------------------------------------------
TypeOK ==
  /\ st \in {"sock", "conn", "disc"} /\ pid \in {0, ProxyId} /\ mid \in {0, ProxyId}
  /\ psub \subseteq Targets /\ ppaused \subseteq DataTypes /\ msub \subseteq Targets
  /\ phase \in {"loop", "ended", "finished", "done", "blocked"} /\ ka \in BOOLEAN /\ clean \in BOOLEAN

(* the proxy's idea of its subscriptions and the manager's delivery set are the same set *)
SubsAgree == clean => psub = msub
PausedApart == ppaused \cap psub = {} /\ (SubAll => psub = {"ALL"} /\ ppaused = {})
ModuleIdKnown == clean /\ st = "conn" => pid = ProxyId /\ mid = ProxyId

(* every websocket input produces at most one websocket output, and exactly the documented one *)
ReplyDocumented ==
  last.a = "Ws" =>
    /\ Len(last.ws) <= 1
    /\ (~last.w => last.ws = <<>>)
    /\ (last.in = "PING" => last.ws = IF last.w THEN <<Pong>> ELSE <<>>)
    /\ (last.in \in {"MALFORMED", "INVALID"} => last.ws = ErrReply(last.w))
    /\ (last.in \in {"DISCONNECT", "CLOSE", "FWD"} => last.ws = <<>>)
    /\ (last.in \in CtlKinds => last.ws \in {<<>>, <<Err>>} /\ (last.ws = <<Err>> => last.mg = <<>>)
                                /\ (last.mg # <<>> => last.ws = <<>>))
    /\ (last.in \in {"CONNECT", "CONNECT_V2"} /\ last.w =>
           IF clean THEN last.ws = <<[k |-> "msg", t |-> "ACK", dst |-> ProxyId]>>
           ELSE \E d \in {0, ProxyId} : last.ws \in {<<[k |-> "msg", t |-> "ACK", dst |-> d]>>, <<Err>>})
OnlyLoopWritesData == last.a \in {"Pub", "Shutdown", "Finish"} => last.ws = <<>>

(* a frame the proxy takes from the manager goes to the websocket exactly once and in order when the websocket
   is writable; otherwise exactly one FAILED_MESSAGE that names the proxy's module id goes to the manager *)
IsDataText(o) == o.k = "msg" /\ o.t \in DataTypes
DeliveredOnceInOrder ==
  /\ \A i \in DOMAIN inq : inq[i].k = "DATA" =>
        /\ inq[i].id > wsmax
        /\ \A j \in DOMAIN inq : (j < i /\ inq[j].k = "DATA") => inq[j].id < inq[i].id
  /\ last.a # "Init" => \A i \in DOMAIN last.ws : IsDataText(last.ws[i]) => last.ws[i].id > last.wsmax0
  /\ last.a = "Deliver" /\ last.read # <<>> /\ last.w =>
        last.ws = (IF last.read[1].k = "UNK" THEN <<Err>> ELSE <<WsText(last.read[1])>>) /\ last.mg = <<>>
FailedReported ==
  last.a = "Deliver" /\ last.read # <<>> /\ ~last.w =>
     /\ last.ws = <<>>
     /\ IF last.read[1].k \in {"FM", "UNK"} THEN last.mg = <<>>       \* recursion guard; R8
        ELSE last.mg = <<[k |-> "FM", src |-> last.pid0, dest |-> last.pid0, of |-> TypeOf(last.read[1])]>>
FailedNamesProxy ==
  last.a # "Init" /\ clean =>
     \A i \in DOMAIN last.mg : last.mg[i].k = "FM" => last.mg[i].dest = ProxyId /\ last.mg[i].src = ProxyId
ForwardKeepsSource ==
  last.a # "Init" => \A i \in DOMAIN last.mg : last.mg[i].k = "FWD" => last.mg[i].src = WebSrc /\ last.mg[i].src # pid

(* after DISCONNECT the loop ends; once it has ended only finish() happens; a clean client never wedges the handler *)
LoopEndsAfterDisconnect == st = "disc" => phase \in {"ended", "finished", "done"} /\ psub = {} /\ msub = {}
NoWedge == clean => phase # "blocked"
EndedOnlyFinishes == [][phase = "ended" => last'.a = "Finish" /\ phase' = "finished"]_vars
FinishedIsDisconnected == phase \in {"finished", "done"} => st = "disc"
LateDocumented ==
  last.a = "Late" =>
    /\ last.mg = <<>> /\ last.q = <<>>
    /\ last.ws = (CASE last.in = "PING" -> IF last.w /\ ka THEN <<Pong>> ELSE <<>>
                    [] last.in = "DISCONNECT" -> <<>>
                    [] OTHER -> IF last.w /\ ka THEN <<Err>> ELSE <<>>)

(* NOT in the cfg: violated by the modelled code (R3, R4, R5) as soon as the web client sends subscription control
   before CONNECT or CONNECT twice.  Counterexamples found by TLC, each reproduced on the real handler:
     SubsAgreeStrict   SUB T1 ; CONNECT                       proxy {} / manager {T1}
     ModuleIdStrict    SUB T1 ; CONNECT                       proxy.module_id 0 (stale ACK), manager 100
     NoWedgeStrict     SUB T1 ; CONNECT ; Pub T1 ; Deliver ; Deliver   (ACK passed on, T1 discarded, recv blocks)
                       SUB ALL ; Deliver(not writable) ; CONNECT(not writable) ; Deliver   (FAILED_MESSAGE echo) *)
SubsAgreeStrict == psub = msub
ModuleIdStrict == st = "conn" => pid = mid
NoWedgeStrict == phase # "blocked"

Terminal == phase \in {"done", "blocked"}
GenInv == ~(GenOn /\ Terminal) \/ PrintT("BEH " \o ToJson(hist))
=============================================================================
