------------------------------ MODULE DataLogger ------------------------------
(* C17 -- pyrtma data logger: DataCollection (recorder thread) + its background writer thread.

   Granularity: one step per synchronisation operation.  A thread that reaches an Event operation
   (set / clear / is_set / wait) or Thread.join stops BEFORE it; one step executes the pending operation and
   the code behind it up to the next operation (or to the end of the API call / of the thread).  The
   beginning of an API call (code before its first synchronisation operation) is a step of its own.

     recorder   update(m):  [append to the rbufs, evaluate deadlines]          (call step)
                            is_set(w2d) -> T: "unable to write fast enough", return
                                           F: next_write, stage every data set
                            clear(fin)
                            set(w2d), return
                stop():     []                                                  (call step)
                            is_set(w2d) -> T: wait(fin, .25)* until it returns True
                            clear(w2d)
                            clear(fin) [stage + finalize + close every data set], return
                close():    [_close = True]                                     (call step)
                            join(writer) [close data sets]
                start / pause / resume: one step each (no synchronisation operation inside)
                start() after a completed stop() begins the NEXT RECORDING of the same collection (at most MaxRec):
                new files (the user changed the metadata, so the names differ), recording index rec + 1, the clock
                reference and the deadlines are reset -- and everything else is as the code leaves it: _elapsed_time
                keeps the value of the last pause() (eacc; unless EaccReset), wbuf still holds the final segment that stop() handed to
                finalize(), the events and the writer are wherever the previous recording left them.
                update() between two recordings returns at once (the message belongs to no recording).
     writer     wait(w2d, .5) -> T: io(d1) [d1.write(): formatter.write(wbuf), wbuf.clear(), subdivide if flagged] ; io(d2) [d2.write()]
                                 F: [leave the loop if _close]
                then, in the order selected by WriterOrder ("clear_then_set" | "set_then_clear"):
                clear(w2d) ; set(fin) [leave the loop if _close]
                io(d) -- the writer is about to call DataSet.write() of d -- is a scheduling point like a synchronisation
                operation: what the recorder does WHILE THE WRITER IS SERVICING a request (between two data sets, before the
                first) is an interleaving of the model and of the executions, not hidden inside an atomic step.

   WriterOrder = "handoff" is a different division of labour between the two events (candidate repair for the restart
   defect of both orders above: the writer's LAST operation of a flush may be executed after stop() has returned, i.e.
   during the next recording, where a late clear(w2d) erases a new request and a late set(fin) fakes its completion):
     write_finished is set while no request is outstanding (initially set); only the recorder clears it (with a request),
     only the writer sets it (request completed); write_to_disk is set by the recorder, cleared by the writer when it
     ACCEPTS the request, i.e. before writing.
     recorder   update(m):  is_set(fin) -> F: "unable to write fast enough", return
                                           T: next_write, stage every data set ; clear(fin) ; set(w2d), return
                stop():     wait(fin, .25)* until it returns True [stage + finalize + close every data set], return
     writer     wait(w2d, .5) -> T: clear(w2d) ; io(d1) [d1.write()] ; io(d2) [d2.write()] ; set(fin)
   After set(fin) the writer has no operation left that belongs to the flush, so nothing can arrive late.

   Time is explicit: the environment advances a clock (Tick) between API calls; elapsed time, the flush
   deadline (WRITE_PERIOD 15 s) and the subdivision deadlines are computed as the code computes them, so
   "every placement of the deadlines relative to arrivals" = every placement of the Ticks.

   A wait() that times out without changing anything is a stuttering step; it is not in Next (the
   trace specification accepts it).

   Files: a data set's output is a sequence of files (subdivision); each file is modelled at the level of
   the quicklogger format, which subsumes the line/frame formats: msgs = frames / lines / message headers
   written so far in file order, tmp = data blocks parked in the temp file, data = data block of the file
   (after finalize), nw = number of write() calls, final, r = the recording that opened the file.  The offset table
   maps message i to data block i.

   Properties are stated PER RECORDING: the files of recording r hold exactly the messages handed over while r was
   recording (and not paused), in order -- nothing of another recording, nothing lost. *)
EXTENDS Integers, Sequences, FiniteSets, TLC, Json

CONSTANTS DS,          \* data set names; "d1" selects type "A" only, every other data set selects ALL
          Types,       \* message types, strings
          MaxMsgs, MaxNone, MaxTicks, MaxPause,   \* bounds on update(m), update(None), Tick, pause
          MaxRec,      \* bound on start(): number of recordings of the collection (1 = no restart)
          EaccReset,   \* does start() reset _elapsed_time?  (the code does not: FALSE; observed by a probe run)
          Dts,         \* set of clock advances (seconds)
          WriterOrder, \* "clear_then_set" (the original code) | "set_then_clear" (the first repair) | "handoff" (see above)
          I1, I2,      \* subdivide_interval argument of d1 / of the other data sets (<= 0: continuous)
          GenOn,       \* keep a history of step labels (behaviour export)
          EdgeOn       \* print every transition (state graph export for transition coverage)

ASSUME WriterOrder \in {"clear_then_set", "set_then_clear", "handoff"}
H == WriterOrder = "handoff"

VARIABLES rpc,        \* recorder: "idle" or the pending synchronisation operation
          wpc,        \* writer: "wait", "io" (about to write data set DsSeq[wix]), "w_a" (first event op), "w_b" (second), "exited"
          wix,        \* index of the data set the writer writes next (0 outside a flush)
          w2d, fin,   \* Events write_to_disk, write_finished
          closing,    \* _close
          phase,      \* "new" -> start -> "rec" -> (last step of stop) -> "stopped" -> start -> "rec" ...
          rec,        \* index of the current / last recording (0 before the first start)
          paused, now, eacc, ref, nextw, nexts, sflag, uel,
          rbuf, wbuf, files,
          arr,        \* messages handed to update so far: [t, live, r]  (id = index; r = recording, live = recording and not paused)
          nnone, nticks, npause,
          hist
vars == <<rpc, wpc, wix, w2d, fin, closing, phase, rec, paused, now, eacc, ref, nextw, nexts, sflag, uel,
          rbuf, wbuf, files, arr, nnone, nticks, npause, hist>>
Core == [rpc |-> rpc, wpc |-> wpc, wix |-> wix, w2d |-> w2d, fin |-> fin, closing |-> closing, phase |-> phase, rec |-> rec, paused |-> paused,
         now |-> now, eacc |-> eacc, ref |-> ref, nextw |-> nextw, nexts |-> nexts, sflag |-> sflag, uel |-> uel,
         rbuf |-> rbuf, wbuf |-> wbuf, files |-> files, arr |-> arr, nnone |-> nnone, nticks |-> nticks, npause |-> npause]

ASSUME DS = {"d1", "d2"}
DsSeq == <<"d1", "d2">>          \* DataCollection.datasets, in the order the writer loops over them
Inf == 1000000
WritePeriod == 15
Sel(d) == IF d = "d1" THEN {"A"} ELSE Types
Interval(d) == LET i == IF d = "d1" THEN I1 ELSE I2
               IN IF i <= 0 THEN Inf ELSE IF i < 30 THEN 30 ELSE IF i > 600 THEN 600 ELSE i

recording == phase = "rec"
stopped == phase = "stopped"
Elapsed == IF ~recording THEN 0 ELSE IF paused THEN eacc ELSE eacc + (now - ref)

-----------------------------------------------------------------------------
(* formatter layer *)
EmptyFile(r) == [msgs |-> <<>>, tmp |-> <<>>, data |-> <<>>, nw |-> 0, final |-> FALSE, r |-> r]
FWrite(f, b) == [f EXCEPT !.msgs = @ \o b, !.tmp = @ \o b, !.nw = @ + 1]
FFinal(f, b) == IF f.nw > 0
                THEN LET g == FWrite(f, b) IN [g EXCEPT !.data = g.tmp, !.final = TRUE]
                ELSE [f EXCEPT !.msgs = @ \o b, !.data = b, !.final = TRUE]
SetLast(fs, f) == [fs EXCEPT ![Len(fs)] = f]
Cur(d) == files[d][Len(files[d])]
Readable(f) == f.final /\ f.data = f.msgs            \* header i and data block i belong to the same message

RECURSIVE FlatMsgs(_)
FlatMsgs(fs) == IF fs = <<>> THEN <<>> ELSE fs[1].msgs \o FlatMsgs(Tail(fs))
FilesOf(d, r) == SelectSeq(files[d], LAMBDA f : f.r = r)
Flat(d, r) == FlatMsgs(FilesOf(d, r))                  \* what the files of recording r of data set d hold

Exp(d, r) == LET F[i \in 0..Len(arr)] == IF i = 0 THEN <<>>
                                         ELSE IF arr[i].live /\ arr[i].r = r /\ arr[i].t \in Sel(d) THEN Append(F[i - 1], i) ELSE F[i - 1]
             IN F[Len(arr)]
Pend(d) == SelectSeq(wbuf[d], LAMBDA i : arr[i].r = rec)   \* staged and not yet written; what stop() left in wbuf is dead

-----------------------------------------------------------------------------
(* properties *)
Conservation == recording => \A d \in DS : Flat(d, rec) \o Pend(d) \o rbuf[d] = Exp(d, rec)
RecComplete(r) == \A d \in DS : /\ Flat(d, r) = Exp(d, r)
                                /\ \A i \in 1..Len(files[d]) : files[d][i].r = r => Readable(files[d][i])
FilesComplete == \A r \in 1..rec : (r < rec \/ stopped) => RecComplete(r)     \* every finished recording, at any later time
Terminal == rpc = "closed" /\ wpc = "exited"
TerminalComplete == Terminal => stopped
StopTerminates == (rpc \in {"s_isset", "s_wait"}) ~> stopped
WriterLeaves == closing ~> (wpc = "exited")

-----------------------------------------------------------------------------
Log(l) == hist' = IF GenOn THEN Append(hist, l) ELSE hist
Edge(l) == EdgeOn => PrintT("EDGE " \o ToJson([s |-> Core, l |-> l, t |-> Core', bad |-> ~(Conservation /\ FilesComplete)',
                                               term |-> Terminal']))
R(a) == [th |-> "R", a |-> a, t |-> "", dt |-> 0]
W == [th |-> "W", a |-> "Op", t |-> "", dt |-> 0]

StageAll == /\ wbuf' = rbuf
            /\ rbuf' = [d \in DS |-> <<>>]

RStart ==     \* the first start(), or start() again after a completed stop(): eacc (_elapsed_time), rbuf, wbuf, w2d, fin are NOT touched
  /\ rpc = "idle" /\ (phase = "new" \/ stopped) /\ rec < MaxRec
  /\ phase' = "rec" /\ rec' = rec + 1 /\ paused' = FALSE /\ ref' = now /\ nextw' = WritePeriod
  /\ nexts' = [d \in DS |-> Interval(d)] /\ sflag' = [d \in DS |-> FALSE]
  /\ files' = [d \in DS |-> Append(files[d], EmptyFile(rec + 1))]
  /\ eacc' = IF EaccReset THEN 0 ELSE eacc
  /\ UNCHANGED <<rpc, wpc, wix, w2d, fin, closing, now, uel, rbuf, wbuf, arr, nnone, nticks, npause>>
  /\ Log(R("Start")) /\ Edge(R("Start"))

RTick(dt) ==
  /\ rpc = "idle" /\ recording /\ nticks < MaxTicks
  /\ now' = now + dt /\ nticks' = nticks + 1
  /\ UNCHANGED <<rpc, wpc, wix, w2d, fin, closing, phase, rec, paused, eacc, ref, nextw, nexts, sflag, uel, rbuf, wbuf, files, arr, nnone, npause>>
  /\ Log([R("Tick") EXCEPT !.dt = dt]) /\ Edge([R("Tick") EXCEPT !.dt = dt])

RUpdate(t) ==
  /\ rpc = "idle" /\ (recording \/ (stopped /\ rec < MaxRec))
  /\ IF t = "None" THEN nnone < MaxNone /\ nnone' = nnone + 1 /\ UNCHANGED arr
     ELSE Len(arr) < MaxMsgs /\ arr' = Append(arr, [t |-> t, live |-> recording /\ ~paused, r |-> rec]) /\ UNCHANGED nnone
  /\ IF paused \/ ~recording
     THEN UNCHANGED <<rpc, rbuf, nexts, sflag, uel>>
     ELSE LET e == Elapsed
              id == Len(arr) + 1
              subs == {d \in DS : e > nexts[d]}
          IN /\ rbuf' = [d \in DS |-> IF t # "None" /\ t \in Sel(d) THEN Append(rbuf[d], id) ELSE rbuf[d]]
             /\ nexts' = [d \in DS |-> IF d \in subs THEN e + Interval(d) ELSE nexts[d]]
             /\ sflag' = [d \in DS |-> sflag[d] \/ d \in subs]
             /\ IF subs # {} \/ e > nextw THEN rpc' = "u_isset" /\ uel' = e ELSE UNCHANGED <<rpc, uel>>
  /\ UNCHANGED <<wpc, wix, w2d, fin, closing, phase, rec, paused, now, eacc, ref, nextw, wbuf, files, nticks, npause>>
  /\ Log([R("Update") EXCEPT !.t = t]) /\ Edge([R("Update") EXCEPT !.t = t])

RPause ==
  /\ rpc = "idle" /\ recording /\ ~paused /\ npause < MaxPause
  /\ eacc' = Elapsed /\ paused' = TRUE /\ npause' = npause + 1
  /\ UNCHANGED <<rpc, wpc, wix, w2d, fin, closing, phase, rec, now, ref, nextw, nexts, sflag, uel, rbuf, wbuf, files, arr, nnone, nticks>>
  /\ Log(R("Pause")) /\ Edge(R("Pause"))

RResume ==
  /\ rpc = "idle" /\ recording /\ paused
  /\ paused' = FALSE /\ ref' = now
  /\ UNCHANGED <<rpc, wpc, wix, w2d, fin, closing, phase, rec, now, eacc, nextw, nexts, sflag, uel, rbuf, wbuf, files, arr, nnone, nticks, npause>>
  /\ Log(R("Resume")) /\ Edge(R("Resume"))

RStop ==
  /\ rpc = "idle" /\ recording
  /\ rpc' = IF H THEN "s_wait" ELSE "s_isset"
  /\ UNCHANGED <<wpc, wix, w2d, fin, closing, phase, rec, paused, now, eacc, ref, nextw, nexts, sflag, uel, rbuf, wbuf, files, arr, nnone, nticks, npause>>
  /\ Log(R("Stop")) /\ Edge(R("Stop"))

RClose ==
  /\ rpc = "idle" /\ stopped /\ ~closing
  /\ closing' = TRUE /\ rpc' = "c_join"
  /\ UNCHANGED <<wpc, wix, w2d, fin, phase, rec, paused, now, eacc, ref, nextw, nexts, sflag, uel, rbuf, wbuf, files, arr, nnone, nticks, npause>>
  /\ Log(R("Close")) /\ Edge(R("Close"))

(* the recorder's pending synchronisation operation *)
StopBody ==     \* the end of stop(): ds.stop() = stage_for_write + formatter.finalize(wbuf); ds.close(); reset of the recording state
  /\ StageAll
  /\ files' = [d \in DS |-> SetLast(files[d], FFinal(Cur(d), rbuf[d]))]
  /\ phase' = "stopped" /\ paused' = FALSE /\ nextw' = -1 /\ rpc' = "idle"
  /\ UNCHANGED <<w2d, uel>>

ROpBody ==
  CASE rpc = "u_isset" ->
         IF (IF H THEN ~fin ELSE w2d)
         THEN /\ rpc' = "idle" /\ uel' = 0
              /\ UNCHANGED <<w2d, fin, phase, paused, nextw, rbuf, wbuf, files>>
         ELSE /\ nextw' = uel + WritePeriod /\ StageAll /\ rpc' = "u_clearfin" /\ uel' = 0
              /\ UNCHANGED <<w2d, fin, phase, paused, files>>
    [] rpc = "u_clearfin" -> /\ fin' = FALSE /\ rpc' = "u_setw2d"
                             /\ UNCHANGED <<w2d, phase, paused, nextw, uel, rbuf, wbuf, files>>
    [] rpc = "u_setw2d" -> /\ w2d' = TRUE /\ rpc' = "idle"
                           /\ UNCHANGED <<fin, phase, paused, nextw, uel, rbuf, wbuf, files>>
    [] rpc = "s_isset" -> /\ rpc' = IF w2d THEN "s_wait" ELSE "s_clearw2d"
                          /\ UNCHANGED <<w2d, fin, phase, paused, nextw, uel, rbuf, wbuf, files>>
    [] rpc = "s_wait" -> /\ fin
                         /\ IF H THEN UNCHANGED fin /\ StopBody
                            ELSE rpc' = "s_clearw2d" /\ UNCHANGED <<w2d, fin, phase, paused, nextw, uel, rbuf, wbuf, files>>
    [] rpc = "s_clearw2d" -> /\ w2d' = FALSE /\ rpc' = "s_clearfin"
                             /\ UNCHANGED <<fin, phase, paused, nextw, uel, rbuf, wbuf, files>>
    [] rpc = "s_clearfin" ->
         /\ fin' = FALSE
         /\ StopBody
    [] rpc = "c_join" -> /\ wpc = "exited" /\ rpc' = "closed"
                         /\ UNCHANGED <<w2d, fin, phase, paused, nextw, uel, rbuf, wbuf, files>>
    [] OTHER -> FALSE

ROp ==
  /\ rpc \notin {"idle", "closed"}
  /\ ROpBody
  /\ UNCHANGED <<wpc, wix, closing, rec, now, eacc, ref, nexts, sflag, arr, nnone, nticks, npause>>
  /\ Log(R("Op")) /\ Edge(R("Op"))

(* writer *)
DsWritten(d) ==      \* DataSet.write(): formatter.write(wbuf); wbuf.clear(); subdivide if flagged
  LET f1 == FWrite(Cur(d), wbuf[d])
  IN IF ~stopped /\ sflag[d]
     THEN Append(SetLast(files[d], FFinal(f1, <<>>)), EmptyFile(rec))
     ELSE SetLast(files[d], f1)

WFirst == IF WriterOrder = "set_then_clear" THEN "set" ELSE "clear"
WDo(which) == IF which = "clear" THEN w2d' = FALSE /\ UNCHANGED fin ELSE fin' = TRUE /\ UNCHANGED w2d

WriteOne(d) == /\ files' = [files EXCEPT ![d] = DsWritten(d)]
               /\ wbuf' = [wbuf EXCEPT ![d] = <<>>]
               /\ sflag' = [sflag EXCEPT ![d] = IF ~stopped THEN FALSE ELSE sflag[d]]

WOpBody ==
  CASE wpc = "wait" ->
         IF w2d
         THEN /\ phase # "new"        \* (a request before start() is outside the recorder's protocol)
              /\ wpc' = IF H THEN "w_a" ELSE "io"          \* handoff: the request is accepted first (clear), then serviced
              /\ wix' = IF H THEN 0 ELSE 1
              /\ UNCHANGED <<w2d, fin, files, wbuf, sflag>>
         ELSE /\ closing /\ wpc' = "exited"          \* timeout and _close; a timeout without _close stutters
              /\ UNCHANGED <<wix, w2d, fin, files, wbuf, sflag>>
    [] wpc = "io" -> /\ WriteOne(DsSeq[wix])
                     /\ IF wix < Len(DsSeq) THEN wix' = wix + 1 /\ UNCHANGED wpc
                        ELSE wix' = 0 /\ wpc' = IF H THEN "w_b" ELSE "w_a"
                     /\ UNCHANGED <<w2d, fin>>
    [] wpc = "w_a" -> /\ WDo(WFirst)
                      /\ IF H THEN wpc' = "io" /\ wix' = 1 ELSE wpc' = "w_b" /\ UNCHANGED wix
                      /\ UNCHANGED <<files, wbuf, sflag>>
    [] wpc = "w_b" -> /\ WDo(IF WFirst = "clear" THEN "set" ELSE "clear")
                      /\ wpc' = IF closing THEN "exited" ELSE "wait"
                      /\ UNCHANGED <<wix, files, wbuf, sflag>>
    [] OTHER -> FALSE

WOp ==
  /\ wpc # "exited"
  /\ WOpBody
  /\ UNCHANGED <<rpc, closing, phase, rec, paused, now, eacc, ref, nextw, nexts, uel, rbuf, arr, nnone, nticks, npause>>
  /\ Log(W) /\ Edge(W)

Init ==
  /\ rpc = "idle" /\ wpc = "wait" /\ wix = 0 /\ w2d = FALSE /\ fin = H /\ closing = FALSE /\ phase = "new" /\ rec = 0 /\ paused = FALSE
  /\ now = 0 /\ eacc = 0 /\ ref = 0 /\ nextw = -1 /\ nexts = [d \in DS |-> Inf] /\ sflag = [d \in DS |-> FALSE] /\ uel = 0
  /\ rbuf = [d \in DS |-> <<>>] /\ wbuf = [d \in DS |-> <<>>] /\ files = [d \in DS |-> <<>>]
  /\ arr = <<>> /\ nnone = 0 /\ nticks = 0 /\ npause = 0 /\ hist = <<>>

RNext == \/ RStart \/ RPause \/ RResume \/ RStop \/ RClose \/ ROp
         \/ \E dt \in Dts : RTick(dt)
         \/ \E t \in Types \cup {"None"} : RUpdate(t)
Next == RNext \/ WOp

Spec == Init /\ [][Next]_vars
(* fairness: the writer thread is scheduled, the recorder finishes the calls it began and eventually stops and closes *)
FairSpec == Spec /\ WF_vars(WOp) /\ WF_vars(ROp) /\ WF_vars(RStop) /\ WF_vars(RClose)

GenInv == ~(GenOn /\ Terminal) \/ PrintT("BEH " \o ToJson(hist))
=============================================================================
