------------------------------ MODULE DataLogger ------------------------------
(* C17 -- pyrtma data logger: DataCollection (recorder thread) + its background writer thread.

   Granularity: one step per synchronisation operation.  A thread that reaches an Event operation
   (set / clear / is_set / wait) or Thread.join stops BEFORE it; one step executes the pending operation and
   the code behind it up to the next operation (or to the end of the API call / of the thread).  The
   beginning of an API call (code before its first synchronisation operation) is a step of its own.

     recorder   update(m):  [append to the rbufs, evaluate deadlines]          (call step)
                            is_set(w2d) -> T: "unable to write fast enough", return
                                           F: next_write, stage every data set
                            clear(fin)
                            set(w2d), return
                stop():     []                                                  (call step)
                            is_set(w2d) -> T: wait(fin, .25)* until it returns True
                            clear(w2d)
                            clear(fin) [stage + finalize + close every data set], return
                close():    [_close = True]                                     (call step)
                            join(writer) [close data sets]
                start / pause / resume: one step each (no synchronisation operation inside)
     writer     wait(w2d, .5) -> T: [write every data set, subdivide where flagged]
                                 F: [leave the loop if _close]
                then, in the order selected by WriterOrder (the code has "clear_then_set"):
                clear(w2d) ; set(fin) [leave the loop if _close]

   Time is explicit: the environment advances a clock (Tick) between API calls; elapsed time, the flush
   deadline (WRITE_PERIOD 15 s) and the subdivision deadlines are computed as the code computes them, so
   "every placement of the deadlines relative to arrivals" = every placement of the Ticks.

   A wait() that times out without changing anything is a stuttering step; it is not in Next (the
   trace specification accepts it).

   Files: a data set's output is a sequence of files (subdivision); each file is modelled at the level of
   the quicklogger format, which subsumes the line/frame formats: msgs = frames / lines / message headers
   written so far in file order, tmp = data blocks parked in the temp file, data = data block of the file
   (after finalize), nw = number of write() calls, final.  The offset table maps message i to data block i. *)
EXTENDS Integers, Sequences, FiniteSets, TLC, Json

CONSTANTS DS,          \* data set names; "d1" selects type "A" only, every other data set selects ALL
          Types,       \* message types, strings
          MaxMsgs, MaxNone, MaxTicks, MaxPause,   \* bounds on update(m), update(None), Tick, pause
          Dts,         \* set of clock advances (seconds)
          WriterOrder, \* "clear_then_set" (the code) | "set_then_clear" (candidate repair)
          I1, I2,      \* subdivide_interval argument of d1 / of the other data sets (<= 0: continuous)
          GenOn,       \* keep a history of step labels (behaviour export)
          EdgeOn       \* print every transition (state graph export for transition coverage)

ASSUME WriterOrder \in {"clear_then_set", "set_then_clear"}

VARIABLES rpc,        \* recorder: "idle" or the pending synchronisation operation
          wpc,        \* writer: "wait", "w_a" (first op after writing), "w_b" (second), "exited"
          w2d, fin,   \* Events write_to_disk, write_finished
          closing,    \* _close
          phase,      \* "new" -> start -> "rec" -> (last step of stop) -> "stopped"
          paused, now, eacc, ref, nextw, nexts, sflag, uel,
          rbuf, wbuf, files,
          arr,        \* messages handed to update so far: [t, live]  (id = index)
          nnone, nticks, npause,
          hist
vars == <<rpc, wpc, w2d, fin, closing, phase, paused, now, eacc, ref, nextw, nexts, sflag, uel,
          rbuf, wbuf, files, arr, nnone, nticks, npause, hist>>
Core == [rpc |-> rpc, wpc |-> wpc, w2d |-> w2d, fin |-> fin, closing |-> closing, phase |-> phase, paused |-> paused,
         now |-> now, eacc |-> eacc, ref |-> ref, nextw |-> nextw, nexts |-> nexts, sflag |-> sflag, uel |-> uel,
         rbuf |-> rbuf, wbuf |-> wbuf, files |-> files, arr |-> arr, nnone |-> nnone, nticks |-> nticks, npause |-> npause]

Inf == 1000000
WritePeriod == 15
Sel(d) == IF d = "d1" THEN {"A"} ELSE Types
Interval(d) == LET i == IF d = "d1" THEN I1 ELSE I2
               IN IF i <= 0 THEN Inf ELSE IF i < 30 THEN 30 ELSE IF i > 600 THEN 600 ELSE i

recording == phase = "rec"
stopped == phase = "stopped"
Elapsed == IF ~recording THEN 0 ELSE IF paused THEN eacc ELSE eacc + (now - ref)

-----------------------------------------------------------------------------
(* formatter layer *)
EmptyFile == [msgs |-> <<>>, tmp |-> <<>>, data |-> <<>>, nw |-> 0, final |-> FALSE]
FWrite(f, b) == [f EXCEPT !.msgs = @ \o b, !.tmp = @ \o b, !.nw = @ + 1]
FFinal(f, b) == IF f.nw > 0
                THEN LET g == FWrite(f, b) IN [g EXCEPT !.data = g.tmp, !.final = TRUE]
                ELSE [f EXCEPT !.msgs = @ \o b, !.data = b, !.final = TRUE]
SetLast(fs, f) == [fs EXCEPT ![Len(fs)] = f]
Cur(d) == files[d][Len(files[d])]
Readable(f) == f.final /\ f.data = f.msgs            \* header i and data block i belong to the same message

RECURSIVE FlatMsgs(_)
FlatMsgs(fs) == IF fs = <<>> THEN <<>> ELSE fs[1].msgs \o FlatMsgs(Tail(fs))
Flat(d) == FlatMsgs(files[d])

Exp(d) == LET F[i \in 0..Len(arr)] == IF i = 0 THEN <<>>
                                      ELSE IF arr[i].live /\ arr[i].t \in Sel(d) THEN Append(F[i - 1], i) ELSE F[i - 1]
          IN F[Len(arr)]

-----------------------------------------------------------------------------
(* properties *)
Conservation == recording => \A d \in DS : Flat(d) \o wbuf[d] \o rbuf[d] = Exp(d)
FilesComplete == stopped => \A d \in DS : /\ Flat(d) = Exp(d)
                                         /\ \A i \in 1..Len(files[d]) : Readable(files[d][i])
Terminal == rpc = "closed" /\ wpc = "exited"
TerminalComplete == Terminal => stopped
StopTerminates == (rpc = "s_isset") ~> stopped
WriterLeaves == closing ~> (wpc = "exited")

-----------------------------------------------------------------------------
Log(l) == hist' = IF GenOn THEN Append(hist, l) ELSE hist
Edge(l) == EdgeOn => PrintT("EDGE " \o ToJson([s |-> Core, l |-> l, t |-> Core', bad |-> ~(Conservation /\ FilesComplete)',
                                               term |-> Terminal']))
R(a) == [th |-> "R", a |-> a, t |-> "", dt |-> 0]
W == [th |-> "W", a |-> "Op", t |-> "", dt |-> 0]

StageAll == /\ wbuf' = rbuf
            /\ rbuf' = [d \in DS |-> <<>>]

RStart ==
  /\ rpc = "idle" /\ phase = "new"
  /\ phase' = "rec" /\ paused' = FALSE /\ ref' = now /\ nextw' = WritePeriod
  /\ nexts' = [d \in DS |-> Interval(d)] /\ sflag' = [d \in DS |-> FALSE]
  /\ files' = [d \in DS |-> <<EmptyFile>>]
  /\ UNCHANGED <<rpc, wpc, w2d, fin, closing, now, eacc, uel, rbuf, wbuf, arr, nnone, nticks, npause>>
  /\ Log(R("Start")) /\ Edge(R("Start"))

RTick(dt) ==
  /\ rpc = "idle" /\ recording /\ nticks < MaxTicks
  /\ now' = now + dt /\ nticks' = nticks + 1
  /\ UNCHANGED <<rpc, wpc, w2d, fin, closing, phase, paused, eacc, ref, nextw, nexts, sflag, uel, rbuf, wbuf, files, arr, nnone, npause>>
  /\ Log([R("Tick") EXCEPT !.dt = dt]) /\ Edge([R("Tick") EXCEPT !.dt = dt])

RUpdate(t) ==
  /\ rpc = "idle" /\ recording
  /\ IF t = "None" THEN nnone < MaxNone /\ nnone' = nnone + 1 /\ UNCHANGED arr
     ELSE Len(arr) < MaxMsgs /\ arr' = Append(arr, [t |-> t, live |-> ~paused]) /\ UNCHANGED nnone
  /\ IF paused
     THEN UNCHANGED <<rpc, rbuf, nexts, sflag, uel>>
     ELSE LET e == Elapsed
              id == Len(arr) + 1
              subs == {d \in DS : e > nexts[d]}
          IN /\ rbuf' = [d \in DS |-> IF t # "None" /\ t \in Sel(d) THEN Append(rbuf[d], id) ELSE rbuf[d]]
             /\ nexts' = [d \in DS |-> IF d \in subs THEN e + Interval(d) ELSE nexts[d]]
             /\ sflag' = [d \in DS |-> sflag[d] \/ d \in subs]
             /\ IF subs # {} \/ e > nextw THEN rpc' = "u_isset" /\ uel' = e ELSE UNCHANGED <<rpc, uel>>
  /\ UNCHANGED <<wpc, w2d, fin, closing, phase, paused, now, eacc, ref, nextw, wbuf, files, nticks, npause>>
  /\ Log([R("Update") EXCEPT !.t = t]) /\ Edge([R("Update") EXCEPT !.t = t])

RPause ==
  /\ rpc = "idle" /\ recording /\ ~paused /\ npause < MaxPause
  /\ eacc' = Elapsed /\ paused' = TRUE /\ npause' = npause + 1
  /\ UNCHANGED <<rpc, wpc, w2d, fin, closing, phase, now, ref, nextw, nexts, sflag, uel, rbuf, wbuf, files, arr, nnone, nticks>>
  /\ Log(R("Pause")) /\ Edge(R("Pause"))

RResume ==
  /\ rpc = "idle" /\ recording /\ paused
  /\ paused' = FALSE /\ ref' = now
  /\ UNCHANGED <<rpc, wpc, w2d, fin, closing, phase, now, eacc, nextw, nexts, sflag, uel, rbuf, wbuf, files, arr, nnone, nticks, npause>>
  /\ Log(R("Resume")) /\ Edge(R("Resume"))

RStop ==
  /\ rpc = "idle" /\ recording
  /\ rpc' = "s_isset"
  /\ UNCHANGED <<wpc, w2d, fin, closing, phase, paused, now, eacc, ref, nextw, nexts, sflag, uel, rbuf, wbuf, files, arr, nnone, nticks, npause>>
  /\ Log(R("Stop")) /\ Edge(R("Stop"))

RClose ==
  /\ rpc = "idle" /\ stopped /\ ~closing
  /\ closing' = TRUE /\ rpc' = "c_join"
  /\ UNCHANGED <<wpc, w2d, fin, phase, paused, now, eacc, ref, nextw, nexts, sflag, uel, rbuf, wbuf, files, arr, nnone, nticks, npause>>
  /\ Log(R("Close")) /\ Edge(R("Close"))

(* the recorder's pending synchronisation operation *)
ROpBody ==
  CASE rpc = "u_isset" ->
         IF w2d
         THEN /\ rpc' = "idle" /\ uel' = 0
              /\ UNCHANGED <<w2d, fin, phase, paused, nextw, rbuf, wbuf, files>>
         ELSE /\ nextw' = uel + WritePeriod /\ StageAll /\ rpc' = "u_clearfin" /\ uel' = 0
              /\ UNCHANGED <<w2d, fin, phase, paused, files>>
    [] rpc = "u_clearfin" -> /\ fin' = FALSE /\ rpc' = "u_setw2d"
                             /\ UNCHANGED <<w2d, phase, paused, nextw, uel, rbuf, wbuf, files>>
    [] rpc = "u_setw2d" -> /\ w2d' = TRUE /\ rpc' = "idle"
                           /\ UNCHANGED <<fin, phase, paused, nextw, uel, rbuf, wbuf, files>>
    [] rpc = "s_isset" -> /\ rpc' = IF w2d THEN "s_wait" ELSE "s_clearw2d"
                          /\ UNCHANGED <<w2d, fin, phase, paused, nextw, uel, rbuf, wbuf, files>>
    [] rpc = "s_wait" -> /\ fin /\ rpc' = "s_clearw2d"
                         /\ UNCHANGED <<w2d, fin, phase, paused, nextw, uel, rbuf, wbuf, files>>
    [] rpc = "s_clearw2d" -> /\ w2d' = FALSE /\ rpc' = "s_clearfin"
                             /\ UNCHANGED <<fin, phase, paused, nextw, uel, rbuf, wbuf, files>>
    [] rpc = "s_clearfin" ->
         /\ fin' = FALSE
         /\ StageAll                                                     \* ds.stop(): stage_for_write ...
         /\ files' = [d \in DS |-> SetLast(files[d], FFinal(Cur(d), rbuf[d]))]   \* ... formatter.finalize(wbuf); close
         /\ phase' = "stopped" /\ paused' = FALSE /\ nextw' = -1 /\ rpc' = "idle"
         /\ UNCHANGED <<w2d, uel>>
    [] rpc = "c_join" -> /\ wpc = "exited" /\ rpc' = "closed"
                         /\ UNCHANGED <<w2d, fin, phase, paused, nextw, uel, rbuf, wbuf, files>>
    [] OTHER -> FALSE

ROp ==
  /\ rpc \notin {"idle", "closed"}
  /\ ROpBody
  /\ UNCHANGED <<wpc, closing, now, eacc, ref, nexts, sflag, arr, nnone, nticks, npause>>
  /\ Log(R("Op")) /\ Edge(R("Op"))

(* writer *)
DsWritten(d) ==      \* DataSet.write(): formatter.write(wbuf); wbuf.clear(); subdivide if flagged
  LET f1 == FWrite(Cur(d), wbuf[d])
  IN IF ~stopped /\ sflag[d]
     THEN Append(SetLast(files[d], FFinal(f1, <<>>)), EmptyFile)
     ELSE SetLast(files[d], f1)

WFirst == IF WriterOrder = "clear_then_set" THEN "clear" ELSE "set"
WDo(which) == IF which = "clear" THEN w2d' = FALSE /\ UNCHANGED fin ELSE fin' = TRUE /\ UNCHANGED w2d

WOpBody ==
  CASE wpc = "wait" ->
         IF w2d
         THEN /\ phase # "new"        \* (a request before start() is outside the recorder's protocol)
              /\ files' = [d \in DS |-> DsWritten(d)]
              /\ wbuf' = [d \in DS |-> <<>>]
              /\ sflag' = [d \in DS |-> IF ~stopped THEN FALSE ELSE sflag[d]]
              /\ wpc' = "w_a"
              /\ UNCHANGED <<w2d, fin>>
         ELSE /\ closing /\ wpc' = "exited"          \* timeout and _close; a timeout without _close stutters
              /\ UNCHANGED <<w2d, fin, files, wbuf, sflag>>
    [] wpc = "w_a" -> /\ WDo(WFirst) /\ wpc' = "w_b" /\ UNCHANGED <<files, wbuf, sflag>>
    [] wpc = "w_b" -> /\ WDo(IF WFirst = "clear" THEN "set" ELSE "clear")
                      /\ wpc' = IF closing THEN "exited" ELSE "wait"
                      /\ UNCHANGED <<files, wbuf, sflag>>
    [] OTHER -> FALSE

WOp ==
  /\ wpc # "exited"
  /\ WOpBody
  /\ UNCHANGED <<rpc, closing, phase, paused, now, eacc, ref, nextw, nexts, uel, rbuf, arr, nnone, nticks, npause>>
  /\ Log(W) /\ Edge(W)

Init ==
  /\ rpc = "idle" /\ wpc = "wait" /\ w2d = FALSE /\ fin = FALSE /\ closing = FALSE /\ phase = "new" /\ paused = FALSE
  /\ now = 0 /\ eacc = 0 /\ ref = 0 /\ nextw = -1 /\ nexts = [d \in DS |-> Inf] /\ sflag = [d \in DS |-> FALSE] /\ uel = 0
  /\ rbuf = [d \in DS |-> <<>>] /\ wbuf = [d \in DS |-> <<>>] /\ files = [d \in DS |-> <<>>]
  /\ arr = <<>> /\ nnone = 0 /\ nticks = 0 /\ npause = 0 /\ hist = <<>>

RNext == \/ RStart \/ RPause \/ RResume \/ RStop \/ RClose \/ ROp
         \/ \E dt \in Dts : RTick(dt)
         \/ \E t \in Types \cup {"None"} : RUpdate(t)
Next == RNext \/ WOp

Spec == Init /\ [][Next]_vars
(* fairness: the writer thread is scheduled, the recorder finishes the calls it began and eventually stops and closes *)
FairSpec == Spec /\ WF_vars(WOp) /\ WF_vars(ROp) /\ WF_vars(RStop) /\ WF_vars(RClose)

GenInv == ~(GenOn /\ Terminal) \/ PrintT("BEH " \o ToJson(hist))
=============================================================================
