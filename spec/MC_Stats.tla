------------------------------ MODULE MC_Stats ------------------------------
(* Family "statistics": a publisher and a monitor subscribed to TIMING_MESSAGE / MESSAGE_TRAFFIC /
   ACTIVE_CLIENTS, a clock that advances between rounds, TrafficChunk = 2 and MaxMsgTypes = 4 so
   that chunk boundaries and out-of-range types are reached within the bound.  Decides C18. *)
EXTENDS MCBase

con(id, lg) == [k |-> "f", t |-> CONNECT, src |-> id, dst |-> 0, dhost |-> 0, p |-> [k |-> "con", logger |-> lg, daemon |-> 0]]
sub(ty, src, mt) == [k |-> "f", t |-> ty, src |-> src, dst |-> 0, dhost |-> 0, p |-> [k |-> "sub", mt |-> mt]]
data(t, src, id) == [k |-> "f", t |-> t, src |-> src, dst |-> 0, dhost |-> 0, p |-> [k |-> "d", id |-> id]]
rdy(src, pid) == [k |-> "f", t |-> READY, src |-> src, dst |-> 0, dhost |-> 0, p |-> [k |-> "rdy", pid |-> pid]]
round(acc, R, W) == [a |-> "Round", acc |-> acc, R |-> R, W |-> W]

SSetup == <<
  [a |-> "Open", c |-> "a"], [a |-> "Open", c |-> "m"], round("a", <<>>, <<>>), round("m", <<>>, <<>>),
  [a |-> "Send", c |-> "a", f |-> con(1, 0)], [a |-> "Send", c |-> "m", f |-> con(2, 0)],
  round("", <<"a", "m">>, <<"a", "m">>),
  [a |-> "Send", c |-> "m", f |-> sub(SUBSCRIBE, 2, TIMING)], round("", <<"m">>, <<"a", "m">>),
  [a |-> "Send", c |-> "m", f |-> sub(SUBSCRIBE, 2, TRAFFIC)], round("", <<"m">>, <<"a", "m">>),
  [a |-> "Send", c |-> "a", f |-> rdy(1, 77)], round("", <<"a">>, <<"a", "m">>) >>

UserTypes == {0, 1, 3, 5, 6}        \* 5, 6 are outside the TIMING array (MaxMsgTypes = 4)
SAlpha(c) == IF c = "a" THEN {data(t, 1, 1) : t \in UserTypes} ELSE {}

(* history: client publishes per type since the last TIMING / TRAFFIC report *)
VARIABLES pubT, pubR
svars == <<vars, pubT, pubR>>
Bump(f, t) == IF t \in DOMAIN f THEN [f EXCEPT ![t] = @ + 1] ELSE f @@ (t :> 1)

IsTimingF(f) == f.t = TIMING /\ f.src = 0 /\ f.p.k = "timing"
IsTrafficF(f) == f.t = TRAFFIC /\ f.src = 0 /\ f.p.k = "traffic"
Got(X, c) == IF c \in DOMAIN X.emit THEN X.emit[c] ELSE <<>>
TimingFrames(X) == SelectSeq(Got(X, "m"), IsTimingF)
TrafficFrames(X) == SelectSeq(Got(X, "m"), IsTrafficF)

SInit == Init /\ pubT = <<>> /\ pubR = <<>>
SNext ==
  /\ Next
  /\ IF ServicingPublish /\ SvcItem.t \in UserTypes
     THEN pubT' = Bump(pubT, SvcItem.t) /\ pubR' = Bump(pubR, SvcItem.t)
     ELSE IF phase = "round" /\ Len(rl) = 0
     THEN /\ pubT' = IF Len(TimingFrames(H')) > 0 \/ H'.lastT # H.lastT THEN <<>> ELSE pubT
          /\ pubR' = IF H'.lastTr # H.lastTr THEN <<>> ELSE pubR
     ELSE UNCHANGED <<pubT, pubR>>
SSpec == SInit /\ [][SNext]_svars

CountIn(pairs, t) == LET S == {i \in 1..Len(pairs) : pairs[i][1] = t} IN
                     IF S = {} THEN 0 ELSE pairs[CHOOSE i \in S : TRUE][2]
Occ(pairs, t) == Cardinality({i \in 1..Len(pairs) : pairs[i][1] = t})

(* C18: a TIMING_MESSAGE reports exactly the publishes since the previous report, for every type in range *)
PTimingExact ==
  [][(phase = "round" /\ Len(rl) = 0 /\ "m" \in H.wl) =>
       \A i \in 1..Len(TimingFrames(H')) :
          LET cs == TimingFrames(H')[i].p.counts IN
          /\ \A t \in UserTypes : t < MaxMsgTypes =>
                CountIn(cs, t) = (IF t \in DOMAIN pubT THEN pubT[t] ELSE 0) /\ Occ(cs, t) <= 1
          /\ \A j \in 1..Len(cs) : cs[j][1] >= 0 /\ cs[j][1] < MaxMsgTypes /\ cs[j][1] \notin {TIMING, TRAFFIC}
          /\ \E j \in 1..Len(TimingFrames(H')[i].p.pids) : TimingFrames(H')[i].p.pids[j] = <<1, 77>>]_svars

RECURSIVE AllEnts(_)
AllEnts(fs) == IF Len(fs) = 0 THEN <<>> ELSE Head(fs).p.ent \o AllEnts(Tail(fs))
(* C18: the sub-messages of one interval together list every type seen exactly once with its count *)
PTrafficPartition ==
  [][(phase = "round" /\ Len(rl) = 0 /\ "m" \in H.wl /\ H'.lastTr # H.lastTr) =>
       LET es == AllEnts(TrafficFrames(H')) IN
       /\ \A t \in UserTypes : Occ(es, t) = (IF t \in DOMAIN pubR THEN 1 ELSE 0)
                              /\ CountIn(es, t) = (IF t \in DOMAIN pubR THEN pubR[t] ELSE 0)
       /\ \A j \in 1..Len(es) : es[j][1] \notin {TIMING, TRAFFIC} /\ es[j][2] > 0
       /\ \A i \in 1..Len(TrafficFrames(H')) : Len(TrafficFrames(H')[i].p.ent) <= TrafficChunk]_svars
=============================================================================
