\* default model: the disable-block machine (exhaustive) -- the property files generate the other modes
SPECIFICATION Spec
CONSTANTS
  Lens = {2, 3}
  SliceLens = {3}
  StrLens = {2, 8}
  MaxDepth = 3
  MaxSteps = 6
  Mode = "blocks"
  RestoreOnException = TRUE
  HandleCaptures = FALSE
  SwitchShared = FALSE
INVARIANT EnabledIffOutside
INVARIANT NoJunkOutside
INVARIANT CaseInv
PROPERTY AtomicStep
CHECK_DEADLOCK FALSE
