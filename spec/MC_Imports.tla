----------------------------- MODULE MC_Imports -----------------------------
EXTENDS Imports
G(n, r, a, b, c) == [name |-> n, imp |-> [f \in Files |-> CASE f = "r" -> r [] f = "a" -> a [] f = "b" -> b [] f = "c" -> c]]
E == <<>>
MCGraphs == {
  G("single",   E, E, E, E),
  G("chain",    <<"a">>, <<"b">>, <<"c">>, E),
  G("tree",     <<"a", "b">>, <<"c">>, E, E),
  G("diamond",  <<"a", "b">>, <<"c">>, <<"c">>, E),
  G("repeat",   <<"a", "a", "b">>, <<"c", "c">>, <<"a">>, E),
  G("cycle2",   <<"a">>, <<"r", "b">>, E, E),
  G("cycle3",   <<"a">>, <<"b">>, <<"r", "c">>, E),
  G("selfimp",  <<"r", "a">>, <<"a", "b">>, E, E),
  G("cousins",  <<"a", "b">>, <<"c">>, <<"c", "a">>, <<"r">>),
  G("wide",     <<"c", "b", "a">>, E, E, E),
  \* twins: files a and b have the SAME file name in different directories and are imported with the same text
  G("twins",    <<"a", "c">>, E, E, <<"b">>),
  G("twins2",   <<"c", "a">>, E, <<"a">>, <<"b">>) }
=============================================================================
