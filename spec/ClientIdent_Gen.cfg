SPECIFICATION Spec
CONSTANTS
  DynStart = 100
  DynEnd = 199
  Static = 11
  MaxSteps = 6
  GenOn = TRUE
INVARIANT GenInv
CHECK_DEADLOCK FALSE
