SPECIFICATION Spec
CONSTANTS
  MaxModules = 200
  MaxHosts = 5
  MaxCalls = 4
  GenOn = FALSE
INVARIANT CountsGapFree
INVARIANT OnlyValidDestinations
PROPERTY RefusalWritesNothing
CHECK_DEADLOCK FALSE
