SPECIFICATION TSpec
CONSTANTS
  MaxModules = 200
  DynStart = 100
  MaxHosts = 5
  MaxMsgTypes = 10000
  TrafficChunk = 64
  MaxActive = 256
  TimingOn = FALSE
  Modes = {"deferred", "detach"}
INVARIANT TUniqueIds
CHECK_DEADLOCK FALSE
