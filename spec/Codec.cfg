SPECIFICATION Spec
CONSTANTS
  MaxPath = 4
  GenOn = FALSE
  Kinds = {"Int8", "Int16", "Int32", "Int64", "Uint8", "Uint16", "Uint32", "Uint64", "Float", "Double", "Byte", "Char", "String"}
  Shares = FALSE
  RefuseDifferent = TRUE
INVARIANT TypeOK
INVARIANT ValuePreserved
INVARIANT VersionRefused
INVARIANT GenInv
CHECK_DEADLOCK FALSE
