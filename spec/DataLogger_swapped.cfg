\* C17, first repair: the writer signals completion first, then clears the request. EXPECTED: no error with ONE recording
\* (189 875 distinct states); with MaxRec = 2 Conservation is violated (see DataLogger_restart.cfg).
SPECIFICATION Spec
CONSTANTS
  DS = {"d1", "d2"}
  Types = {"A", "B"}
  MaxMsgs = 3
  MaxNone = 1
  MaxTicks = 2
  MaxPause = 1
  MaxRec = 1
  EaccReset = FALSE
  Dts = {16}
  WriterOrder = "set_then_clear"
  I1 = 30
  I2 = 0
  GenOn = FALSE
  EdgeOn = FALSE
INVARIANT Conservation
INVARIANT FilesComplete
INVARIANT TerminalComplete
CHECK_DEADLOCK FALSE
