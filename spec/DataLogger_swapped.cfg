\* C17, candidate repair: the writer signals completion first, then clears the request. EXPECTED: no error (149 945 distinct states).
SPECIFICATION Spec
CONSTANTS
  DS = {"d1", "d2"}
  Types = {"A", "B"}
  MaxMsgs = 3
  MaxNone = 1
  MaxTicks = 2
  MaxPause = 1
  Dts = {16}
  WriterOrder = "set_then_clear"
  I1 = 30
  I2 = 0
  GenOn = FALSE
  EdgeOn = FALSE
INVARIANT Conservation
INVARIANT FilesComplete
INVARIANT TerminalComplete
CHECK_DEADLOCK FALSE
