-------------------------- MODULE DataLogger_Trace --------------------------
(* Trace validation for C17.  A REAL pyrtma DataCollection (recorder + writer thread) is executed under the
   deterministic two-thread scheduler of vf/logger_drv.py; every step -- the beginning of an API call, or one
   synchronisation operation of either thread with its result -- is one event.  The last event carries the
   files read back with the package's own readers.

   * The C17 clauses are evaluated on the trace's own data only (messages handed over while recording and not
     paused, per data set selection, against the serial numbers found in the files): they do not depend on the
     model being able to follow the execution.  They are evaluated PER RECORDING: the final event carries the files
     of every recording of the collection separately (recs[r].files[d] = the files of data set d written by the
     r-th start .. stop), and recording r is judged against the messages handed over during recording r.  "Written
     exactly once" (Duplicated) is judged over all files of a data set, so a message of recording 1 that appears
     again in a file of recording 2 is a duplicate.
   * The model (DataLogger.tla, WriterOrder as observed) follows the events; the first event it cannot follow, or
     whose observed operation / result / return differs from the prediction, is reported as "drift" and ends the
     following.  lostAt names the model step at which Conservation / FilesComplete first broke (the input class
     of a C17.Lost signature). *)
EXTENDS DataLogger, IOUtils, TLCExt

Traces == ndJsonDeserialize(IOEnv.TRACE_FILE)
VARIABLES tid, l, st, bad, lostAt
tvars == <<vars, tid, l, st, bad, lostAt>>

Ev(i) == Traces[tid].ev[i]
NEv == Len(Traces[tid].ev)
Rng(s) == {s[i] : i \in DOMAIN s}

(* ---- the clauses, on the trace alone ---- *)
Upd == SelectSeq(Traces[tid].ev, LAMBDA e : e.a = "Update" /\ e.t # "None")     \* message id = position
TExp(d, r) == LET F[i \in 0..Len(Upd)] == IF i = 0 THEN <<>>
                                          ELSE IF Upd[i].live /\ Upd[i].rec = r /\ Upd[i].t \in Sel(d) THEN Append(F[i - 1], i) ELSE F[i - 1]
              IN F[Len(Upd)]
RECURSIVE FlatSeq(_)
FlatSeq(ss) == IF ss = <<>> THEN <<>> ELSE ss[1] \o FlatSeq(Tail(ss))
NRecs(fe) == Len(fe.recs)
Judged(fe, r) == DOMAIN fe.recs[r].files \ Rng(fe.recs[r].badds)   \* a data set with an unreadable file is judged by FileUnreadable only
AllDs(fe) == UNION {DOMAIN fe.recs[r].files : r \in 1..NRecs(fe)}
Obs(fe, d, r) == FlatSeq(fe.recs[r].files[d])
ObsAll(fe, d) == FlatSeq([r \in 1..NRecs(fe) |-> IF d \in Judged(fe, r) THEN Obs(fe, d, r) ELSE <<>>])   \* all recordings, in order
RD(fe) == {<<r, d>> \in (1..NRecs(fe)) \X AllDs(fe) : d \in Judged(fe, r)}

FileClauses(fe) ==
     (IF \E x \in RD(fe) : \E i \in Rng(TExp(x[2], x[1])) : i \notin Rng(Obs(fe, x[2], x[1])) THEN {"C17.Lost"} ELSE {})
\cup (IF \E d \in AllDs(fe) : \E i, j \in DOMAIN ObsAll(fe, d) : i < j /\ ObsAll(fe, d)[i] = ObsAll(fe, d)[j] THEN {"C17.Duplicated"} ELSE {})
\cup (IF \E x \in RD(fe) : LET o == Obs(fe, x[2], x[1])  e == Rng(TExp(x[2], x[1]))
                            IN \E i, j \in DOMAIN o : i < j /\ o[i] > o[j] /\ o[i] \in e /\ o[j] \in e
      THEN {"C17.Reordered"} ELSE {})
\cup (IF \E x \in RD(fe) : \E i \in Rng(Obs(fe, x[2], x[1])) : i \in 1..Len(Upd) /\ Upd[i].t \notin Sel(x[2]) THEN {"C17.WrongDataSet"} ELSE {})
\cup {"C17.FileUnreadable(" \o fe.unread[i] \o ")" : i \in DOMAIN fe.unread}
\cup (IF fe.hang THEN {"C17.StopHangs"} ELSE {})

\* in a file of recording r: a message of the data set's selection that was handed over while paused / stopped / during another recording
ExtraInFile(fe) == \E x \in RD(fe) : \E i \in Rng(Obs(fe, x[2], x[1])) :
                      i \in 1..Len(Upd) /\ Upd[i].t \in Sel(x[2]) /\ ~(Upd[i].live /\ Upd[i].rec = x[1])

(* ---- predictions of the model for the pending operation of a thread ---- *)
Other(which) == IF which = "clear" THEN "set" ELSE "clear"
EvOf(which) == IF which = "clear" THEN "w2d" ELSE "fin"
PredR ==
  CASE rpc = "u_isset" -> IF H THEN [op |-> "is_set", ev |-> "fin", res |-> fin, ret |-> ~fin, stutter |-> FALSE]
                          ELSE [op |-> "is_set", ev |-> "w2d", res |-> w2d, ret |-> w2d, stutter |-> FALSE]
    [] rpc = "u_clearfin" -> [op |-> "clear", ev |-> "fin", res |-> FALSE, ret |-> FALSE, stutter |-> FALSE]
    [] rpc = "u_setw2d" -> [op |-> "set", ev |-> "w2d", res |-> FALSE, ret |-> TRUE, stutter |-> FALSE]
    [] rpc = "s_isset" -> [op |-> "is_set", ev |-> "w2d", res |-> w2d, ret |-> FALSE, stutter |-> FALSE]
    [] rpc = "s_wait" -> [op |-> "wait", ev |-> "fin", res |-> fin, ret |-> H /\ fin, stutter |-> ~fin]
    [] rpc = "s_clearw2d" -> [op |-> "clear", ev |-> "w2d", res |-> FALSE, ret |-> FALSE, stutter |-> FALSE]
    [] rpc = "s_clearfin" -> [op |-> "clear", ev |-> "fin", res |-> FALSE, ret |-> TRUE, stutter |-> FALSE]
    [] rpc = "c_join" -> [op |-> "join", ev |-> "W", res |-> FALSE, ret |-> TRUE, stutter |-> FALSE]
    [] OTHER -> [op |-> "none", ev |-> "", res |-> FALSE, ret |-> FALSE, stutter |-> FALSE]
PredW ==
  CASE wpc = "wait" -> [op |-> "wait", ev |-> "w2d", res |-> w2d, ret |-> ~w2d /\ closing, stutter |-> ~w2d /\ ~closing]
    [] wpc = "io" -> [op |-> "io", ev |-> DsSeq[wix], res |-> FALSE, ret |-> FALSE, stutter |-> FALSE]
    [] wpc = "w_a" -> [op |-> WFirst, ev |-> EvOf(WFirst), res |-> FALSE, ret |-> FALSE, stutter |-> FALSE]
    [] wpc = "w_b" -> [op |-> Other(WFirst), ev |-> EvOf(Other(WFirst)), res |-> FALSE, ret |-> closing, stutter |-> FALSE]
    [] OTHER -> [op |-> "none", ev |-> "", res |-> FALSE, ret |-> FALSE, stutter |-> FALSE]
OpEnabled(th) == IF th = "R" THEN rpc \notin {"idle", "closed"} /\ (rpc = "c_join" => wpc = "exited")
                 ELSE wpc # "exited"
SameOp(e, p) == e.op = p.op /\ e.ev = p.ev /\ e.res = p.res /\ e.ret = p.ret /\ e.exc = ""

CallGuard(e) ==
  /\ rpc = "idle" /\ e.exc = ""
  /\ CASE e.a = "Start" -> (phase = "new" \/ stopped) /\ rec < MaxRec /\ e.rec = rec + 1
       [] e.a = "Tick" -> recording
       [] e.a = "Update" -> /\ recording \/ (stopped /\ rec < MaxRec)
                            /\ e.t # "None" => e.id = Len(arr) + 1 /\ e.live = (recording /\ ~paused) /\ e.rec = rec
       [] e.a = "Pause" -> recording /\ ~paused
       [] e.a = "Resume" -> recording /\ paused
       [] e.a = "Stop" -> recording
       [] e.a = "Close" -> stopped /\ ~closing
       [] OTHER -> FALSE
CallAct(e) ==
  CASE e.a = "Start" -> RStart
    [] e.a = "Tick" -> RTick(e.dt)
    [] e.a = "Update" -> RUpdate(e.t)
    [] e.a = "Pause" -> RPause
    [] e.a = "Resume" -> RResume
    [] e.a = "Stop" -> RStop
    [] e.a = "Close" -> RClose

ModelFiles(d, r) == [i \in 1..Len(FilesOf(d, r)) |-> FilesOf(d, r)[i].msgs]
FilesDiffer(fe) == \/ NRecs(fe) # rec
                   \/ \E r \in 1..rec : \E d \in DOMAIN fe.recs[r].files : fe.recs[r].files[d] # ModelFiles(d, r)
Broken == ~(Conservation /\ FilesComplete)
Out(r) == PrintT("VERDICT " \o ToJson(r))
Verdict(b, la, step) == Out([tid |-> Traces[tid].tid, res |-> IF b = {} THEN "ok" ELSE "fail", step |-> step, props |-> b, lostAt |-> la])

TInit == Init /\ tid \in 1..Len(Traces) /\ l = 1 /\ st = "run" /\ bad = {} /\ lostAt = ""

(* the final event: clauses on the files; the model's files are compared only if it followed the whole run *)
Finish(followed) ==
  LET fe == Ev(NEv)
      cl == FileClauses(fe)
      dr == IF followed /\ cl = {} /\ (ExtraInFile(fe) \/ ~stopped \/ FilesDiffer(fe))
            THEN {<<NEv, "drift">>} ELSE {}
      b == bad \cup {<<NEv, c>> : c \in cl} \cup dr
  IN /\ bad' = b /\ st' = "done" /\ l' = NEv
     /\ Verdict(b, lostAt, NEv)
     /\ UNCHANGED <<vars, tid, lostAt>>

Drift ==   \* the model cannot follow event l: record it, judge the files, stop
  LET fe == Ev(NEv)
      b == bad \cup {<<l, "drift">>} \cup {<<NEv, c>> : c \in FileClauses(fe)}
  IN /\ bad' = b /\ st' = "done"
     /\ Verdict(b, lostAt, l)
     /\ UNCHANGED <<vars, tid, l, lostAt>>

Track(label) == lostAt' = IF lostAt = "" /\ Broken' THEN label \o (IF rec' > 1 THEN "@restart" ELSE "") ELSE lostAt

TNext ==
  /\ st = "run" /\ UNCHANGED tid
  /\ IF l >= NEv THEN Finish(\A x \in bad : x[2] # "drift")
     ELSE LET e == Ev(l) IN
       IF e.a = "Op"
       THEN LET p == IF e.th = "R" THEN PredR ELSE PredW IN
            IF OpEnabled(e.th) /\ SameOp(e, p)
            THEN /\ IF p.stutter THEN UNCHANGED vars ELSE IF e.th = "R" THEN ROp ELSE WOp
                 /\ Track(e.th \o "." \o (IF e.th = "R" THEN rpc ELSE wpc))
                 /\ l' = l + 1 /\ UNCHANGED <<st, bad>>
            ELSE Drift
       ELSE IF CallGuard(e)
            THEN /\ CallAct(e)
                 /\ Track("R." \o e.a)
                 /\ l' = l + 1 /\ UNCHANGED st
                 /\ bad' = bad \cup (IF e.ret # (rpc' = "idle") THEN {<<l, "drift">>} ELSE {})
            ELSE Drift

TSpec == TInit /\ [][TNext]_tvars
=============================================================================
