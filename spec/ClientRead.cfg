SPECIFICATION Spec
CONSTANTS
  Types = {26, 34}
  MaxFrames = 3
  MaxReads = 3
  GenOn = FALSE
INVARIANT NeverUnsubscribed
INVARIANT ErrorConsumesOffender
INVARIANT InOrder
INVARIANT LossReported
INVARIANT NoSilentLoss
CHECK_DEADLOCK FALSE
