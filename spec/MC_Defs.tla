------------------------------- MODULE MC_Defs -------------------------------
EXTENDS Defs, SequencesExt
NameSeq == SetToSeq(NativeNames)
NN == Len(NameSeq)
Rot(i, o) == NameSeq[((i - 1 + o) % NN) + 1]
(* parameter sets: every native name in every role, with neighbours chosen by fixed rotations *)
PSet(offsets) == {[n1 |-> Rot(i, o[1]), n2 |-> Rot(i, o[2]), n3 |-> Rot(i, o[3]), n4 |-> Rot(i, o[4]), sh |-> sh, k |-> k, variant |-> v] :
                    i \in 1..NN, o \in offsets, sh \in {0, 1, 3}, k \in {2, 5}, v \in Variants}
QuickParams == PSet({<<0, 0, 0, 0>>, <<0, 7, 13, 19>>})
ThoroughParams == PSet({<<0, a, b, c>> : a \in {0, 3, 7, 11}, b \in {0, 5, 13}, c \in {0, 9, 19}})
QInit == p \in QuickParams
TInit == p \in ThoroughParams
QSpec == QInit /\ [][Next]_p
TSpec == TInit /\ [][Next]_p
=============================================================================
