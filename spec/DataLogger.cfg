\* C17, the writer statement order of the ORIGINAL code (write_to_disk.clear() then write_finished.set()).
\* EXPECTED: TLC reports FilesComplete violated (depth 23: the stale write_finished.set() lets stop() restage over a
\* staged-but-unwritten buffer).  DataLogger_swapped.cfg (first repair) passes with one recording; DataLogger_restart.cfg
\* (two recordings) needs WriterOrder = "handoff", the handshake the code has now.
SPECIFICATION Spec
CONSTANTS
  DS = {"d1", "d2"}
  Types = {"A", "B"}
  MaxMsgs = 3
  MaxNone = 1
  MaxTicks = 2
  MaxPause = 1
  MaxRec = 1
  EaccReset = FALSE
  Dts = {16}
  WriterOrder = "clear_then_set"
  I1 = 30
  I2 = 0
  GenOn = FALSE
  EdgeOn = FALSE
INVARIANT Conservation
INVARIANT FilesComplete
INVARIANT TerminalComplete
CHECK_DEADLOCK FALSE
