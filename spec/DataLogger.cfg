\* C17, the writer statement order the code has (write_to_disk.clear() then write_finished.set()).
\* EXPECTED: TLC reports FilesComplete violated (22 states: the stale write_finished.set() lets stop() restage over a
\* staged-but-unwritten buffer).  149 945 distinct states / 2 s with DataLogger_swapped.cfg, which passes.
SPECIFICATION Spec
CONSTANTS
  DS = {"d1", "d2"}
  Types = {"A", "B"}
  MaxMsgs = 3
  MaxNone = 1
  MaxTicks = 2
  MaxPause = 1
  Dts = {16}
  WriterOrder = "clear_then_set"
  I1 = 30
  I2 = 0
  GenOn = FALSE
  EdgeOn = FALSE
INVARIANT Conservation
INVARIANT FilesComplete
INVARIANT TerminalComplete
CHECK_DEADLOCK FALSE
