SPECIFICATION Spec
CONSTANTS
  MaxMsgs = 16
  MinLen = 10
  GenOn = TRUE
INVARIANT GenInv
CHECK_DEADLOCK FALSE
