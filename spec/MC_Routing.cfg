SPECIFICATION Spec
CONSTANTS
  MaxModules = 200
  DynStart = 100
  MaxHosts = 5
  MaxMsgTypes = 10000
  TrafficChunk = 64
  MaxActive = 256
  TimingOn = TRUE
  Modes = {"inline", "deferred", "detach"}
  Conns = {"a", "b", "c"}
  Setup <- RSetup
  Alpha <- RAlpha
  MaxQ = 1
  MaxDeaths = 1
  MaxEnv = 3
  TickSteps = {}
  MaxNow = 0
  AllowOpen = FALSE
  AllowFin = TRUE
  AllowRst = FALSE
  HistOn = FALSE
  GenDepth = 100
INVARIANT IUniqueIds
PROPERTY PRoutingExact
PROPERTY PSeqGapFree
PROPERTY PNoTrace
PROPERTY PClosedAtMostOnce
PROPERTY POneClosedNotice
PROPERTY PFailureReported
PROPERTY PNoNoticeForNotices
PROPERTY PLoggerWaitedFor
PROPERTY PAckExactlyOnce
PROPERTY PAckAddressed
PROPERTY PAckCopiedToLoggers
PROPERTY PNoAckOtherwise
CHECK_DEADLOCK FALSE
