--------------------------- MODULE Manager_Trace ---------------------------
(***************************************************************************)
(* Trace validation: executions of the REAL MessageManager (recorded by    *)
(* vf/hub.py on the virtual I/O layer, or by the pytest recorder) are      *)
(* checked step by step against the operators of Manager.tla.              *)
(*                                                                         *)
(* Each trace event carries the step's inputs (which connection was        *)
(* serviced, the frame that was read, the snapshot that select returned,   *)
(* the virtual time) and the OBSERVED outputs (frames written per          *)
(* connection, connections closed).  The step is accepted when some        *)
(* outcome the specification allows has the same outputs (per connection   *)
(* the same multiset of frames, sequence numbers aside; the same closed    *)
(* set).  When none does, the verdict names the properties whose           *)
(* projection of the outputs no allowed outcome reproduces.  C05 clauses   *)
(* (gap-free sequence numbers, common frames in the same relative order)   *)
(* are evaluated on the observation at every step.                         *)
(*                                                                         *)
(* Many traces per TLC run: tid ranges over the lines of the ndjson file.  *)
(***************************************************************************)
EXTENDS Manager, Json, IOUtils, TLCExt

Traces == ndJsonDeserialize(IOEnv.TRACE_FILE)

VARIABLES tid, l, H, st
tvars == <<tid, l, H, st>>

Ev(i) == Traces[tid].ev[i]
NEv == Len(Traces[tid].ev)

Get(f, c) == IF c \in DOMAIN f THEN f[c] ELSE <<>>
RangeOf(s) == {s[i] : i \in DOMAIN s}
BagOf(s) == [x \in RangeOf(s) |-> Cardinality({i \in DOMAIN s : s[i] = x})]
Sel(s, P(_)) == SelectSeq(s, P)

(* RTMA_LOG* messages the manager publishes about itself when its logging is enabled are noise (DESIGN 2.9): they must
   respect sequence numbering (checked on the raw observation) and are otherwise ignored, also inside the statistics *)
IsLogNoise(f) == f.src = 0 /\ f.t \in LOG_TYPES
DropLogPairs(ps) == SelectSeq(ps, LAMBDA e : e[1] \notin LOG_TYPES)
Denoise(f) == IF f.p.k = "timing" THEN [f EXCEPT !.p.counts = DropLogPairs(@)]
              ELSE IF f.p.k = "traffic" THEN [f EXCEPT !.p.ent = DropLogPairs(@)]
              ELSE f
Clean(s) == LET t == SelectSeq(s, LAMBDA f : ~IsLogNoise(f)) IN [i \in DOMAIN t |-> Denoise(t[i])]

(* canonical, order-insensitive content of what one connection received in a step *)
IsTraffic(f) == f.t = TRAFFIC /\ f.src = 0 /\ f.p.k = "traffic"
RECURSIVE ConcatEnts(_)
ConcatEnts(s) == IF Len(s) = 0 THEN <<>> ELSE Head(s).p.ent \o ConcatEnts(Tail(s))
TrafficAgg(s) ==
  LET tf == Sel(s, IsTraffic) IN
  [seqnos |-> {tf[i].p.seqno : i \in DOMAIN tf}, ents |-> BagOf(ConcatEnts(tf))]
Canon(s) == [frames |-> BagOf([i \in DOMAIN Sel(s, LAMBDA f : ~IsTraffic(f)) |-> NoSeq(Sel(s, LAMBDA f : ~IsTraffic(f))[i])]),
             traffic |-> TrafficAgg(s)]

Conns(e1, e2) == DOMAIN e1 \cup DOMAIN e2
ProjEq(e1, e2, P(_)) == \A c \in Conns(e1, e2) : Canon(Sel(Clean(Get(e1, c)), P)) = Canon(Sel(Clean(Get(e2, c)), P))

IsData(f)    == f.p.k = "d"
IsFailed(f)  == f.t = FAILED /\ f.p.k = "failed"
IsAck(f)     == f.t = ACK /\ f.p.k = "none"
IsClosedN(f) == f.t = CLIENT_CLOSED /\ f.p.k = "ci"
IsInfo(f)    == f.t = CLIENT_INFO /\ f.p.k = "ci"
IsStats(f)   == f.p.k \in {"timing", "traffic", "active"}
AnyF(f)      == TRUE

ObsClosed(ev) == RangeOf(ev.closed)

FullMatch(cand, ev) == ProjEq(cand.emit, ev.emit, AnyF) /\ cand.closed = ObsClosed(ev)

(* properties whose projection of the observed outputs no allowed outcome reproduces *)
HasFailure(cand) ==   \* the specification expects a delivery failure / departure in this step
  cand.closed # {} \/ \E c \in DOMAIN cand.emit : \E i \in 1..Len(cand.emit[c]) : IsFailed(cand.emit[c][i])
FailedProps(Cands, ev) ==
  LET no(P(_)) == \A cand \in Cands : ~ProjEq(cand.emit, ev.emit, P) IN
     (IF no(IsData) THEN {"C01"} ELSE {})
\cup (IF no(IsData) /\ (\E cand \in Cands : HasFailure(cand)) /\ (\E cand \in Cands : cand.closed # {})
      THEN {"C07.SurvivorMissed"} ELSE {})
\cup (IF no(IsData) /\ (\E cand \in Cands : HasFailure(cand)) THEN {"C14.OthersMissed"} ELSE {})
\* a departure was discovered in this step (by the specification and by the code) and what the
\* remaining clients received differs from every allowed outcome in frames other than the notices
\cup (IF (\E cand \in Cands : cand.closed # {}) /\ ObsClosed(ev) # {}
         /\ (\A cand \in Cands : ~ProjEq(cand.emit, ev.emit, LAMBDA f : ~IsClosedN(f) /\ ~IsFailed(f)))
      THEN {"C07.SurvivorAffected"} ELSE {})
\cup (IF no(IsFailed) THEN {"C14"} ELSE {})
\cup (IF no(IsAck) THEN {"C19"} ELSE {})
\cup (IF no(IsClosedN) \/ (\A cand \in Cands : cand.closed # ObsClosed(ev)) THEN {"C07"} ELSE {})
\cup (IF no(IsInfo) THEN {"C06"} ELSE {})
\cup (IF no(IsStats) THEN {"C18"} ELSE {})

(* C05 clauses evaluated directly on the observation *)
ObsAsHub(ev) == [emit |-> ev.emit]
C05Fail(Hpre, ev) ==
     (IF ~SeqGapFree(Hpre, ObsAsHub(ev)) THEN {"C05.SeqGap"} ELSE {})
\cup (IF ~TotalOrder([emit |-> [c \in DOMAIN ev.emit |-> Clean(ev.emit[c])]]) THEN {"C05.TotalOrder"} ELSE {})
\* ... and with the manager's own log messages in place: they are messages, too (two receivers of a data message and of a
\* log message see the two in the same order)
\cup (IF ~TotalOrder(ObsAsHub(ev)) THEN {"C05.TotalOrder"} ELSE {})

(* sequence counters follow the observation (the number of MESSAGE_TRAFFIC sub-messages is open) *)
FollowCnt(Hpre, cand, ev) ==
  [cand EXCEPT !.mods = [m \in DOMAIN cand.mods |->
      [cand.mods[m] EXCEPT !.cnt = PreCnt(Hpre, m) + Len(Get(ev.emit, m))]]]

StepCands(ev) ==
  CASE ev.a = "Svc" ->
         LET S1 == WithModes(H, LAMBDA X : ServiceOp(X, ev.c, ev.in))
         IN IF ev.end THEN UNION {EndOp(H2, ev.now) : H2 \in S1} ELSE S1
    [] ev.a = "End" -> WithModes(H, LAMBDA X : EndOp(ClearObs(X), ev.now))

Verdict(r) == PrintT("VERDICT " \o ToJson(r))

TInit == /\ tid \in 1..Len(Traces)
         /\ l = 1
         /\ H = InitHub
         /\ st = "run"

TNext ==
  /\ st = "run"
  /\ UNCHANGED tid
  /\ IF l > NEv
     THEN /\ Verdict([tid |-> Traces[tid].tid, res |-> "ok", step |-> l - 1, props |-> {}])
          /\ st' = "done" /\ UNCHANGED <<l, H>>
     ELSE LET ev == Ev(l) IN
       CASE ev.a = "Open" -> l' = l + 1 /\ UNCHANGED <<H, st>>
         [] ev.a = "Die" -> l' = l + 1 /\ H' = [H EXCEPT !.dead = @ \cup {ev.c}] /\ UNCHANGED st
         [] ev.a = "Begin" ->
              /\ l' = l + 1 /\ UNCHANGED st
              /\ H' = BeginOp(H, ev.acc, ev.nread, RangeOf(ev.W))
         [] ev.a = "Crash" ->
              /\ Verdict([tid |-> Traces[tid].tid, res |-> "fail", step |-> l, props |-> {"C03"}])
              /\ st' = "done" /\ UNCHANGED <<l, H>>
         [] ev.a \in {"Svc", "End"} ->
              LET Cands == StepCands(ev)
                  M == {cand \in Cands : FullMatch(cand, ev)}
                  c05 == C05Fail(H, ev)
              IN IF M = {}
                 THEN /\ Verdict([tid |-> Traces[tid].tid, res |-> "fail", step |-> l,
                                  props |-> FailedProps(Cands, ev) \cup c05,
                                  expected |-> LET c0 == CHOOSE x \in Cands : TRUE IN [emit |-> c0.emit, closed |-> c0.closed],
                                  ncands |-> Cardinality(Cands)])
                      /\ st' = "done" /\ UNCHANGED <<l, H>>
                 ELSE IF c05 # {}
                 THEN /\ Verdict([tid |-> Traces[tid].tid, res |-> "fail", step |-> l, props |-> c05])
                      /\ st' = "done" /\ UNCHANGED <<l, H>>
                 ELSE /\ \E cand \in M : H' = FollowCnt(H, cand, ev)
                      /\ l' = l + 1 /\ UNCHANGED st

TSpec == TInit /\ [][TNext]_tvars

(* invariants of the specification state along every validated trace *)
TUniqueIds == UniqueIds(H)
=============================================================================
