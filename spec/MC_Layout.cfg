SPECIFICATION Spec
CONSTANTS
  Kinds <- MCKinds
  MaxLen = 3
  Export = FALSE
INVARIANT Natural
INVARIANT OnlyCharPadding
INVARIANT UserFieldsPreserved
INVARIANT Minimal
INVARIANT NoPadIffAccepted
CHECK_DEADLOCK FALSE
