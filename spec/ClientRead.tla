------------------------------ MODULE ClientRead ------------------------------
(***************************************************************************)
(* The read path of a pyrtma Client (client.py read_message /              *)
(* _read_message) over the byte stream arriving from the manager.          *)
(*                                                                         *)
(* The stream is a queue of frame classes; the environment appends frames, *)
(* cuts the connection (orderly close, possibly in the middle of the last  *)
(* frame, or reset) and changes the subscription state between reads.      *)
(* Read(tm, ack, sync) is one call of Client.read_message: its result is   *)
(* a function of the state (the call is sequential), defined by ReadOp.    *)
(*                                                                         *)
(* C08: Faithful, NeverUnsubscribed, ErrorConsumesExactlyOffender,         *)
(* NextFrameIntact, LossReportedAndDisconnected.                           *)
(***************************************************************************)
EXTENDS Integers, Sequences, SequencesExt, FiniteSets, TLC, Json

CONSTANTS Types,      \* message types with a local definition
          MaxFrames,  \* frames that may arrive in one behaviour
          MaxReads,
          GenOn

ACKT == 2
ALLT == 2147483647
(* frame classes *)
Classes == {"good", "zerolen", "unknown", "wrongsize", "wrongsize0", "wrongver", "wrongver0", "wrongboth", "zerover", "ack"}
(* wrongsize0: a type with a non-empty local definition arriving with NO payload; wrongver0: a signal (empty definition)
   carrying a non-zero version hash different from the local one; wrongboth: payload size AND version hash differ from the
   local definition (what a real change of the sender's definition produces) - refused with or without the sync check *)
TimeoutClasses == {"zero", "pos", "tiny", "block"}   \* tiny: a positive timeout shorter than one read

VARIABLES q,          \* unread frames: records [cls, t, id]
          cut,        \* "open" | "fin" (orderly close after q) | "rst" | close inside the last frame: "finmid" (inside its
                      \* header) / "finbody" (header complete, payload missing or cut short)
          csub, suball, connected,
          nfr, nrd, last, hist
vars == <<q, cut, csub, suball, connected, nfr, nrd, last, hist>>

Frame(cls, t, id) == [cls |-> cls, t |-> t, id |-> id]

Subscribed(S, f) == S.suball \/ f.t \in S.csub

(* does the frame decode, and if not, which documented error *)
Decode(f, sync) ==
  CASE f.cls = "unknown" -> "UnknownMessageType"
    [] f.cls \in {"wrongsize", "wrongsize0", "wrongboth"} -> "InvalidMessageDefinition"
    [] f.cls \in {"wrongver", "wrongver0"} /\ sync -> "InvalidMessageDefinition"
    [] OTHER -> "ok"

(* what the header alone tells: the type is unknown, or the announced size is not the size of the local definition *)
EarlyDecode(f, sync) ==
  CASE f.cls = "unknown" -> "UnknownMessageType"
    [] f.cls \in {"wrongsize", "wrongboth"} -> "InvalidMessageDefinition"
    [] f.cls = "wrongver" /\ sync -> "InvalidMessageDefinition"          \* the version is in the header, too
    [] OTHER -> "ok"

(* one call of read_message.  S: [q, cut, csub, suball, connected]
   result: [res |-> "msg"|"none"|"raise"|"blocks", id, exc, q (rest), connected] *)
RECURSIVE ReadOp(_, _, _, _)
ReadOp(S, tm, ack, sync) ==
  IF ~S.connected THEN [res |-> "raise", exc |-> "NotConnectedError", id |-> 0, q |-> S.q, connected |-> FALSE]
  ELSE IF Len(S.q) = 1 /\ S.cut = "finbody" /\ EarlyDecode(Head(S.q), sync) # "ok"
  THEN (* DEVIATION the code makes and the property tolerates: the header of the torn last frame is complete and already
          shows that the frame cannot be decoded (unknown type / other size / other version with the sync check): the documented decode error is raised for
          it, the loss of the connection is reported by the NEXT call (q is empty then) *)
       [res |-> "raise", exc |-> EarlyDecode(Head(S.q), sync), id |-> Head(S.q).id, q |-> <<>>, connected |-> TRUE]
  ELSE IF Len(S.q) = 0 \/ (Len(S.q) = 1 /\ S.cut \in {"finmid", "finbody"})
  THEN (* nothing (complete) left to read *)
       IF S.cut = "open"
       THEN IF tm = "block" THEN [res |-> "blocks", exc |-> "", id |-> 0, q |-> S.q, connected |-> TRUE]
            ELSE [res |-> "none", exc |-> "", id |-> 0, q |-> S.q, connected |-> TRUE]
       ELSE [res |-> "raise", exc |-> "ConnectionLost", id |-> 0, q |-> <<>>, connected |-> FALSE]
  ELSE IF S.cut = "rst"
  THEN [res |-> "raise", exc |-> "ConnectionLost", id |-> 0, q |-> <<>>, connected |-> FALSE]
  ELSE LET f == Head(S.q)
           rest == Tail(S.q)
           d == Decode(f, sync)
       IN IF d # "ok" THEN [res |-> "raise", exc |-> d, id |-> f.id, q |-> rest, connected |-> TRUE]
          ELSE IF Subscribed(S, f) \/ (ack /\ f.t = ACKT)
          THEN [res |-> "msg", exc |-> "", id |-> f.id, q |-> rest, connected |-> TRUE]
          ELSE (* not subscribed: discarded, never returned *)
               IF tm = "zero" THEN [res |-> "none", exc |-> "", id |-> 0, q |-> rest, connected |-> TRUE]
               ELSE ReadOp([S EXCEPT !.q = rest], tm, ack, sync)

State == [q |-> q, cut |-> cut, csub |-> csub, suball |-> suball, connected |-> connected]

(***************************************************************************)
(* actions                                                                 *)
(***************************************************************************)
TypeOf(cls, t) == IF cls = "ack" THEN ACKT ELSE IF cls = "unknown" THEN 4321 ELSE t
Log(e) == IF GenOn THEN Append(hist, e) ELSE hist

Arrive(cls, t) ==
  /\ cut = "open" /\ nfr < MaxFrames
  /\ q' = Append(q, Frame(cls, TypeOf(cls, t), nfr + 1))
  /\ nfr' = nfr + 1
  /\ hist' = Log([a |-> "Arrive", cls |-> cls, t |-> TypeOf(cls, t), id |-> nfr + 1])
  /\ UNCHANGED <<cut, csub, suball, connected, nrd, last>>

Cut(kind) ==
  /\ cut = "open" /\ connected
  /\ kind \in {"finmid", "finbody"} => Len(q) > 0
  /\ kind = "finbody" => Last(q).cls \notin {"zerolen", "wrongsize0", "wrongver0", "ack"}       \* it has a payload to cut
  /\ cut' = kind
  /\ hist' = Log([a |-> "Cut", kind |-> kind])
  /\ UNCHANGED <<q, csub, suball, connected, nfr, nrd, last>>

SubChange(op, t) ==
  /\ connected
  /\ CASE op = "sub" -> csub' = csub \cup {t} /\ UNCHANGED suball
       [] op = "unsub" -> csub' = csub \ {t} /\ UNCHANGED suball
       [] op = "suball" -> csub' = {ALLT} /\ suball' = TRUE
       [] op = "unsuball" -> csub' = {} /\ suball' = FALSE
  /\ (op \in {"sub", "unsub"} => ~suball)
  /\ hist' = Log([a |-> "Sub", op |-> op, t |-> t])
  /\ UNCHANGED <<q, cut, connected, nfr, nrd, last>>

(* the same client object connects again after its connection was lost: a new connection has no subscriptions *)
Reconnect ==
  /\ ~connected
  /\ q' = <<>> /\ cut' = "open" /\ csub' = {} /\ suball' = FALSE /\ connected' = TRUE
  /\ hist' = Log([a |-> "Reconnect"])
  /\ UNCHANGED <<nfr, nrd, last>>

Read(tm, ack, sync) ==
  /\ nrd < MaxReads
  /\ LET r == ReadOp(State, tm, ack, sync) IN
     /\ r.res # "blocks"                      \* a read that blocks forever is outside the property
     /\ q' = r.q /\ connected' = r.connected
     /\ last' = r @@ [pre |-> State, tm |-> tm, ack |-> ack, sync |-> sync]
  /\ nrd' = nrd + 1
  /\ hist' = Log([a |-> "Read", tm |-> tm, ack |-> ack, sync |-> sync])
  /\ UNCHANGED <<cut, csub, suball, nfr>>

Next ==
  \/ \E cls \in Classes : \E t \in Types : Arrive(cls, t)
  \/ \E k \in {"fin", "finmid", "finbody", "rst"} : Cut(k)
  \/ \E op \in {"sub", "unsub", "suball", "unsuball"} : \E t \in Types : SubChange(op, t)
  \/ \E tm \in TimeoutClasses : \E ack, sync \in BOOLEAN : Read(tm, ack, sync)
  \/ Reconnect

NoLast == [res |-> "none", exc |-> "", id |-> 0, q |-> <<>>, connected |-> TRUE,
           pre |-> [q |-> <<>>, cut |-> "open", csub |-> {}, suball |-> FALSE, connected |-> TRUE],
           tm |-> "zero", ack |-> FALSE, sync |-> FALSE]

Init == /\ q = <<>> /\ cut = "open" /\ csub = {} /\ suball = FALSE /\ connected = TRUE
        /\ nfr = 0 /\ nrd = 0 /\ last = NoLast /\ hist = <<>>

Spec == Init /\ [][Next]_vars

(***************************************************************************)
(* C08, stated on the last read (pre-state last.pre)                       *)
(***************************************************************************)
FrameById(s, id) == CHOOSE f \in {s[i] : i \in DOMAIN s} : f.id = id
Ids(s) == {s[i].id : i \in DOMAIN s}

(* a returned message is one of the queued frames, of a subscribed type (or an ACK on request) *)
NeverUnsubscribed ==
  last.res = "msg" =>
     /\ last.id \in Ids(last.pre.q)
     /\ LET f == FrameById(last.pre.q, last.id) IN
          Subscribed(last.pre, f) \/ (last.ack /\ f.t = ACKT)
(* an error names the first frame that does not decode and consumes exactly up to it; everything in
   front of it was unsubscribed (discarded) and decodable *)
ErrorConsumesOffender ==
  (last.res = "raise" /\ last.exc \in {"UnknownMessageType", "InvalidMessageDefinition"}) =>
     /\ last.id \in Ids(last.pre.q)
     /\ \E i \in DOMAIN last.pre.q :
          /\ last.pre.q[i].id = last.id
          /\ Decode(last.pre.q[i], last.sync) = last.exc
          /\ last.q = SubSeq(last.pre.q, i + 1, Len(last.pre.q))
(* frames are returned in arrival order: nothing in front of a returned frame was deliverable *)
InOrder ==
  last.res = "msg" =>
     \E i \in DOMAIN last.pre.q :
        /\ last.pre.q[i].id = last.id
        /\ \A j \in 1..(i - 1) : LET f == last.pre.q[j] IN
              Decode(f, last.sync) = "ok" /\ ~Subscribed(last.pre, f) /\ ~(last.ack /\ f.t = ACKT)
(* loss of the connection is reported and leaves the client disconnected *)
LossReported ==
  (last.res = "raise" /\ last.exc = "ConnectionLost") => (~last.connected /\ last.pre.cut # "open")
NoSilentLoss ==
  (last.res = "none" /\ last.pre.connected) => (last.pre.cut = "open" \/ Len(last.pre.q) > 0)

Terminal == nrd = MaxReads
GenInv == ~(GenOn /\ Terminal) \/ PrintT("BEH " \o ToJson(hist))
=============================================================================
