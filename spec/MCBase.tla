------------------------------- MODULE MCBase -------------------------------
(***************************************************************************)
(* Closed system for model checking and behaviour generation:              *)
(* Manager.tla + an environment of clients (open, send, close, reset,      *)
(* die) + the scheduler choices of one select round (which connections     *)
(* are reported readable, in which order they are serviced, which are      *)
(* reported writable) + a virtual clock.                                   *)
(*                                                                         *)
(* A round of the real run() loop is  Begin ; Service* ; End.  Environment *)
(* actions happen between rounds (phase "idle").                           *)
(*                                                                         *)
(* hist records the environment/schedule actions only; a driver replays    *)
(* them on the real manager (vf/replay.py) and the recorded execution is   *)
(* validated by Manager_Trace.                                             *)
(***************************************************************************)
EXTENDS Manager, Json

CONSTANTS
  Conns,          \* connection names that may be opened
  Setup,          \* sequence of hist entries executed before exploration starts
  Alpha(_),       \* frames connection c may send
  MaxQ,           \* max unread items per connection
  MaxDeaths,      \* max EnvDie actions
  MaxEnv,         \* max environment actions after setup
  TickSteps,      \* set of clock advances (ticks) allowed, {} = no time
  MaxNow,
  AllowOpen, AllowFin, AllowRst,     \* BOOLEAN switches
  AnyW,           \* BOOLEAN: explore every writable subset (else: everything writable)
  HistOn,         \* BOOLEAN: record hist (behaviour generation)
  GenDepth        \* level at which a behaviour is printed

VARIABLES H, inq, opened, gone, pend, rl, phase, now, nenv, ndeaths, hist
vars == <<H, inq, opened, gone, pend, rl, phase, now, nenv, ndeaths, hist>>

Log(e) == IF HistOn THEN Append(hist, e) ELSE hist
One(S) == CHOOSE x \in S : TRUE

(***************************************************************************)
(* whole rounds as one operator (used for Setup)                           *)
(***************************************************************************)
RECURSIVE ServeAll(_, _, _)
ServeAll(X, Q, order) ==
  IF Len(order) = 0 THEN [h |-> X, q |-> Q]
  ELSE LET c == Head(order) IN
       IF c \notin Live(X) \/ Len(Q[c]) = 0 THEN ServeAll(X, Q, Tail(order))
       ELSE ServeAll(One(ServiceOp([X EXCEPT !.mode = "inline"], c, Head(Q[c]))), [Q EXCEPT ![c] = Tail(@)], Tail(order))

ApplyEntry(S, e) ==
  CASE e.a = "Open" -> [S EXCEPT !.opened = @ \cup {e.c}, !.pend = Append(@, e.c)]
    [] e.a = "Send" -> [S EXCEPT !.q[e.c] = Append(@, e.f)]
    [] e.a = "Fin"  -> [S EXCEPT !.q[e.c] = Append(@, [k |-> "fin"]), !.gone = @ \cup {e.c}]
    [] e.a = "Rst"  -> [S EXCEPT !.q[e.c] = Append(@, [k |-> "rst"]), !.gone = @ \cup {e.c}, !.h.dead = @ \cup {e.c}]
    [] e.a = "Die"  -> [S EXCEPT !.h.dead = @ \cup {e.c}]
    [] e.a = "Tick" -> [S EXCEPT !.now = @ + e.n]
    [] e.a = "Round" ->
         LET H1 == BeginOp(S.h, e.acc, Len(e.R), {e.W[i] : i \in DOMAIN e.W})
             r == ServeAll(H1, S.q, e.R)
             H2 == One(EndOp(ClearObs([r.h EXCEPT !.mode = "inline"]), S.now))
         IN [S EXCEPT !.h = H2, !.q = r.q, !.pend = IF e.acc = "" THEN @ ELSE Tail(@)]

RECURSIVE ApplyAll(_, _)
ApplyAll(S, es) == IF Len(es) = 0 THEN S ELSE ApplyAll(ApplyEntry(S, Head(es)), Tail(es))

S0 == [h |-> InitHub, q |-> [c \in Conns |-> <<>>], opened |-> {}, gone |-> {}, pend |-> <<>>, now |-> 0]
AfterSetup == ApplyAll(S0, Setup)

Init ==
  /\ H = AfterSetup.h
  /\ inq = AfterSetup.q
  /\ opened = AfterSetup.opened
  /\ gone = AfterSetup.gone
  /\ pend = AfterSetup.pend
  /\ now = AfterSetup.now
  /\ rl = <<>> /\ phase = "idle" /\ nenv = 0 /\ ndeaths = 0
  /\ hist = IF HistOn THEN Setup ELSE <<>>

(***************************************************************************)
(* environment                                                             *)
(***************************************************************************)
CanSend(c) == c \in opened /\ c \notin gone /\ Len(inq[c]) < MaxQ

EnvOpen(c) ==
  /\ AllowOpen /\ phase = "idle" /\ nenv < MaxEnv /\ c \in Conns \ opened
  /\ opened' = opened \cup {c} /\ pend' = Append(pend, c)
  /\ nenv' = nenv + 1 /\ hist' = Log([a |-> "Open", c |-> c])
  /\ UNCHANGED <<H, inq, gone, rl, phase, now, ndeaths>>

EnvSend(c, f) ==
  /\ phase = "idle" /\ nenv < MaxEnv /\ CanSend(c)
  /\ inq' = [inq EXCEPT ![c] = Append(@, f)]
  /\ nenv' = nenv + 1 /\ hist' = Log([a |-> "Send", c |-> c, f |-> f])
  /\ UNCHANGED <<H, opened, gone, pend, rl, phase, now, ndeaths>>

EnvFin(c) ==
  /\ AllowFin /\ phase = "idle" /\ nenv < MaxEnv /\ CanSend(c)
  /\ inq' = [inq EXCEPT ![c] = Append(@, [k |-> "fin"])]
  /\ nenv' = nenv + 1 /\ hist' = Log([a |-> "Fin", c |-> c]) /\ gone' = gone \cup {c}
  /\ UNCHANGED <<H, opened, pend, rl, phase, now, ndeaths>>

EnvRst(c) ==
  /\ AllowRst /\ phase = "idle" /\ nenv < MaxEnv /\ CanSend(c)
  /\ inq' = [inq EXCEPT ![c] = Append(@, [k |-> "rst"])]
  /\ nenv' = nenv + 1 /\ hist' = Log([a |-> "Rst", c |-> c]) /\ gone' = gone \cup {c}
  /\ H' = [H EXCEPT !.dead = @ \cup {c}]          \* after a reset the manager's writes fail too
  /\ UNCHANGED <<opened, pend, rl, phase, now, ndeaths>>

EnvDie(c) ==
  /\ phase = "idle" /\ ndeaths < MaxDeaths /\ c \in Live(H) \ H.dead
  /\ H' = [H EXCEPT !.dead = @ \cup {c}]
  /\ ndeaths' = ndeaths + 1 /\ hist' = Log([a |-> "Die", c |-> c])
  /\ UNCHANGED <<inq, opened, gone, pend, rl, phase, now, nenv>>

EnvTick(n) ==
  /\ phase = "idle" /\ now + n <= MaxNow
  /\ now' = now + n /\ hist' = Log([a |-> "Tick", n |-> n])
  /\ UNCHANGED <<H, inq, opened, gone, pend, rl, phase, nenv, ndeaths>>

(***************************************************************************)
(* one iteration of run()                                                  *)
(***************************************************************************)
Ready == {c \in Live(H) : Len(inq[c]) > 0}

Begin(acc, order, W) ==
  /\ phase = "idle"
  /\ acc # "" \/ Len(order) > 0 \/ TickSteps # {}
  /\ H' = BeginOp(H, acc, Len(order), W)
  /\ pend' = IF acc = "" THEN pend ELSE Tail(pend)
  /\ rl' = order /\ phase' = "round"
  /\ hist' = Log([a |-> "Round", acc |-> acc, R |-> order, W |-> SetToSeq(W)])
  /\ UNCHANGED <<inq, opened, gone, now, nenv, ndeaths>>

BeginAny ==
  \E acc \in (IF Len(pend) > 0 THEN {Head(pend), ""} ELSE {""}) :
    \E R \in SUBSET Ready :
      \E order \in SetToSeqs(R) :
        LET live1 == Live(H) \cup (IF acc = "" THEN {} ELSE {acc}) IN
        \E W \in (IF R = {} THEN {{}} ELSE IF AnyW THEN SUBSET live1 ELSE {live1}) :
          Begin(acc, order, W)

Service ==
  /\ phase = "round" /\ Len(rl) > 0
  /\ LET c == Head(rl) IN
       IF c \in Live(H)
       THEN /\ H' \in WithModes(H, LAMBDA X : ServiceOp(X, c, Head(inq[c])))
            /\ inq' = [inq EXCEPT ![c] = Tail(@)]
       ELSE /\ H' = ClearObs(H) /\ UNCHANGED inq
  /\ rl' = Tail(rl)
  /\ UNCHANGED <<opened, gone, pend, phase, now, nenv, ndeaths, hist>>

End ==
  /\ phase = "round" /\ Len(rl) = 0
  /\ H' \in WithModes(H, LAMBDA X : EndOp(ClearObs(X), now))
  /\ phase' = "idle"
  /\ UNCHANGED <<inq, opened, gone, pend, rl, now, nenv, ndeaths, hist>>

Next ==
  \/ \E c \in Conns : EnvOpen(c) \/ EnvFin(c) \/ EnvRst(c) \/ EnvDie(c)
  \/ \E c \in Conns : \E f \in Alpha(c) : EnvSend(c, f)
  \/ \E n \in TickSteps : EnvTick(n)
  \/ BeginAny \/ Service \/ End

Spec == Init /\ [][Next]_vars

(***************************************************************************)
(* properties                                                              *)
(***************************************************************************)
SvcConn == Head(rl)
SvcItem == Head(inq[SvcConn])
ServicingFrame == phase = "round" /\ Len(rl) > 0 /\ SvcConn \in Live(H) /\ SvcItem.k = "f"
IsPublish(it) == it.t \notin ControlTypes /\ it.t # ALL
ServicingPublish == ServicingFrame /\ IsPublish(SvcItem) /\ H.mods[SvcConn].st = "con"

(* C01 *)
PRoutingExact ==
  [][ServicingPublish => RoutingExact(ClearObs(H), Hdr(SvcItem.t, SvcItem.src, SvcItem.dst, SvcItem.dhost, SvcItem.p), H')]_vars

(* C05 *)
PSeqGapFree == [][phase = "round" => SeqGapFree(H, H')]_vars
PTotalOrder == [][phase = "round" => TotalOrder(H')]_vars

(* C06 *)
IUniqueIds == UniqueIds(H)
IIdsValid == IdsValid(H)

(* C07: a removed connection is erased everywhere and got nothing after its close; exactly one
   CLIENT_CLOSED for it reaches every monitor that is able to receive it *)
PNoTrace ==
  [][phase = "round" => \A m \in H'.closed : m \notin Live(H') /\ m \notin H'.dead]_vars

IsClosedFor(f, uid) == f.t = CLIENT_CLOSED /\ f.src = 0 /\ f.p.k = "ci" /\ f.p.uid = uid
ClosedCount(X, x, uid) ==
  IF x \in DOMAIN X.emit THEN Cardinality({i \in 1..Len(X.emit[x]) : IsClosedFor(X.emit[x][i], uid)}) ELSE 0
POneClosedNotice ==
  [][phase = "round" =>
       \A m \in H'.closed : \A x \in Live(H') :
          (x \in Live(H) /\ x \notin H.dead /\ (x \in H.wl \/ H.mods[x].logger)
             /\ (CLIENT_CLOSED \in H.mods[x].subs \/ ALL \in H.mods[x].subs)
             /\ H.mods[x].subs = H'.mods[x].subs)
          => ClosedCount(H', x, H.mods[m].uid) = 1]_vars
PClosedAtMostOnce ==
  [][phase = "round" => \A m \in Live(H) : \A x \in DOMAIN H'.emit : ClosedCount(H', x, H.mods[m].uid) <= 1]_vars

(* C14: every eligible-by-subscription recipient that could not be handed a published frame is
   named in a FAILED_MESSAGE that reaches every able FAILED subscriber *)
IsFailedFor(f, mid, h) == f.t = FAILED /\ f.src = 0 /\ f.p.k = "failed" /\ f.p.mid = mid /\ f.p.ft = h.t /\ f.p.fsrc = h.src /\ f.p.fdst = h.dst
FailedCount(X, x, mid, h) ==
  IF x \in DOMAIN X.emit THEN Cardinality({i \in 1..Len(X.emit[x]) : IsFailedFor(X.emit[x][i], mid, h)}) ELSE 0
Undeliverable(X, h) ==
  IF ~InRange(h) THEN {}
  ELSE {m \in Live(X) : /\ (h.t \in X.mods[m].subs \/ ALL \in X.mods[m].subs)
                        /\ (h.dst = 0 \/ X.mods[m].id = h.dst \/ X.mods[m].logger)
                        /\ \/ (m \notin X.dead /\ ~(m \in X.wl \/ X.mods[m].logger))
                           \* a dead peer whose death can only be discovered on this very frame; one that
                           \* also receives notices may be found dead while a notice is being delivered,
                           \* and then (third sentence of C14) nothing further is published
                           \/ (m \in X.dead /\ (m \in X.wl \/ X.mods[m].logger)
                               /\ (X.mods[m].subs \cap {FAILED, CLIENT_CLOSED, ALL} = {} \/ Modes = {"deferred"}))}
AbleMonitor(X, Y, x) ==
  /\ x \in Live(X) /\ x \in Live(Y) /\ x \notin X.dead /\ (x \in X.wl \/ X.mods[x].logger)
  /\ (FAILED \in X.mods[x].subs \/ ALL \in X.mods[x].subs)
PFailureReported ==
  [][(ServicingPublish /\ SvcItem.t \notin NoNotice) =>
       LET h == Hdr(SvcItem.t, SvcItem.src, SvcItem.dst, SvcItem.dhost, SvcItem.p) IN
       \A m \in Undeliverable(H, h) : \A x \in DOMAIN H.mods :
          AbleMonitor(H, H', x) => FailedCount(H', x, H.mods[m].id, h) >= 1]_vars
PNoNoticeForNotices ==
  [][(ServicingPublish /\ SvcItem.t \in NoNotice) =>
       \A x \in DOMAIN H'.emit : \A i \in 1..Len(H'.emit[x]) :
          ~(H'.emit[x][i].t = FAILED /\ H'.emit[x][i].src = 0 /\ H'.emit[x][i].p.k = "failed" /\ H'.emit[x][i].p.ft = SvcItem.t)]_vars
(* a logger entitled to the frame gets it whether or not it was reported writable *)
PLoggerWaitedFor ==
  [][ServicingPublish =>
       LET h == Hdr(SvcItem.t, SvcItem.src, SvcItem.dst, SvcItem.dhost, SvcItem.p) IN
       \A m \in Live(H) : (H.mods[m].logger /\ m \notin H.dead /\ InRange(h)
                            /\ (h.t \in H.mods[m].subs \/ ALL \in H.mods[m].subs)) => Copies(H', m, h) = 1]_vars

(* C19 *)
IsAckable(it) == it.k = "f" /\ it.t \in {SUBSCRIBE, UNSUBSCRIBE, PAUSE, RESUME} /\ it.p.k = "sub"
PAckExactlyOnce ==
  [][(ServicingFrame /\ IsAckable(SvcItem) /\ SvcConn \notin H.dead) =>
        LET n == AckCount(H', SvcConn) IN
        IF H.mods[SvcConn].logger /\ H.mods[SvcConn].st = "con" THEN n \in {1, 2} ELSE n = 1]_vars
PAckAddressed ==
  [][(ServicingFrame /\ IsAckable(SvcItem)) =>
        \A x \in DOMAIN H'.emit : \A i \in 1..Len(H'.emit[x]) :
           (H'.emit[x][i].t = ACK /\ H'.emit[x][i].src = 0) => H'.emit[x][i].dst = H.mods[SvcConn].id]_vars
PAckCopiedToLoggers ==
  [][(ServicingFrame /\ IsAckable(SvcItem)) =>
        \A g \in Loggers(H) : (g \notin H.dead /\ g # SvcConn /\ g \in Live(H')) => AckCount(H', g) = 1]_vars
PNoAckOtherwise ==
  [][(ServicingFrame /\ ~IsAckable(SvcItem) /\ SvcItem.t \notin {CONNECT, CONNECT_V2}) =>
        \A x \in DOMAIN H'.emit : AckCount(H', x) = 0]_vars
PConnectAck ==
  [][(ServicingFrame /\ SvcItem.t \in {CONNECT, CONNECT_V2} /\ SvcItem.p.k \in {"con", "con2"}) =>
        LET c == SvcConn IN
        IF H.mods[c].st = "con" THEN \A x \in DOMAIN H'.emit : AckCount(H', x) = 0
        ELSE IF c \in Live(H') /\ H'.mods[c].st = "con"
             THEN AckCount(H', c) \in (IF H'.mods[c].logger THEN {1, 2} ELSE {1})
                  /\ \A i \in 1..Len(H'.emit[c]) : H'.emit[c][i].t = ACK => H'.emit[c][i].dst = H'.mods[c].id
             ELSE c \in H.dead \/ (\A x \in DOMAIN H'.emit : AckCount(H', x) = 0)]_vars

(* behaviour export *)
Terminal == phase = "idle" /\ nenv = MaxEnv /\ Ready = {} /\ Len(pend) = 0
GenInv == ~Terminal \/ PrintT("BEH " \o ToJson(hist))
LevelBound == TLCGet("level") <= GenDepth
=============================================================================
