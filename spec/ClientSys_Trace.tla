--------------------------- MODULE ClientSys_Trace ---------------------------
(* Trace validation for C02: API calls performed on a REAL pyrtma Client connected to the REAL
   manager (vio), with - after every call - what the client reports (subscribed_types,
   paused_subscribed_types) and what the manager actually delivers to its socket (one probe message
   per type of the universe).  The specification follows the same calls through ClientSys!Apply;
   the C02 clauses are evaluated on every step.  After a step the specification adopts the
   observed state, so one defect does not hide the rest of the trace. *)
EXTENDS ClientSys, IOUtils, TLCExt

Traces == ndJsonDeserialize(IOEnv.TRACE_FILE)
VARIABLES tid, l, prev, st, bad
tvars == <<cvars, tid, l, prev, st, bad>>

Ev(i) == Traces[tid].ev[i]
NEv == Len(Traces[tid].ev)
S(x) == {x[i] : i \in DOMAIN x}

ObsDelivOK(ev) == S(ev.deliv) = (IF ALL \in S(ev.sub) THEN Universe ELSE S(ev.sub) \cap Universe)

(* what the specification expects of this call in the current state *)
Expect(ev) ==
  CASE ev.op \in {"Subscribe", "Unsubscribe", "Pause", "Resume"} -> Apply(Mirror, H, ev.op, ev.L)
    [] ev.op = "UnsubscribeFromAll" -> Apply(Mirror, H, "Unsubscribe", SeqOfSet(csub))
    [] ev.op = "PauseAll" -> Apply(Mirror, H, "Pause", SeqOfSet(csub))
    [] ev.op = "ResumeAll" -> Apply(Mirror, H, "Resume", SeqOfSet(cpause))
    [] ev.op = "EnterSubCtx" -> Apply(Mirror, H, "Subscribe", Filter(ev.L, LAMBDA x : x \notin csub))
    [] ev.op = "EnterPauseCtx" -> Apply(Mirror, H, "Pause", Filter(ev.L, LAMBDA x : x \in csub))
    [] ev.op = "ExitCtx" ->
         LET c == ctx[Len(ctx)] IN
         IF c.kind = "pause" THEN Apply(Mirror, H, "Resume", c.lf)
         ELSE LET keep == Filter(c.lf, LAMBDA x : x \notin c.wasp)
                  back == Filter(c.lf, LAMBDA x : x \in c.wasp)
                  r1 == Apply(Mirror, H, "Unsubscribe", keep)
              IN IF r1.raised \/ Len(back) = 0 THEN r1 ELSE Apply(r1.s, r1.h, "Pause", back)

Clauses(ev, r) ==
     (IF ~ObsDelivOK(ev) THEN {"C02.ReportedNeDelivered"} ELSE {})
\cup (IF S(ev.paused) \cap S(ev.deliv) # {} THEN {"C02.PausedDelivered"} ELSE {})
\cup (IF r.raised /\ ~ev.raised /\ ev.op # "ExitCtx" /\ ~HasAll(ev.L) /\ Len(ev.L) > 0
      THEN {"C02.IndividualOpNotRefused"} ELSE {})
\cup (IF ev.raised /\ (S(ev.sub) # S(prev.sub) \/ S(ev.paused) # S(prev.paused) \/ S(ev.deliv) # S(prev.deliv))
      THEN {"C02.RefusedOpChangedState"} ELSE {})
\cup (IF ev.op = "ExitCtx" /\ Len(ctx) > 0 /\ ~ctx[Len(ctx)].dirty /\ ctx[Len(ctx)].indiv /\ ~ev.raised
         /\ (S(ev.sub) # ctx[Len(ctx)].entry.sub \/ S(ev.paused) # ctx[Len(ctx)].entry.pause)
      THEN {"C02.CtxNotRestored"} ELSE {})
\cup (IF ~r.raised /\ ev.raised /\ ~HasAll(ev.L) THEN {"C02.WronglyRefused"} ELSE {})

Drift(ev, r) == S(ev.sub) # r.s.sub \/ S(ev.paused) # r.s.pause

(* hub state adopted from the observation: the manager-side subscription is what it delivers *)
AdoptHub(X, ev) ==
  [X EXCEPT !.mods[K].subs = IF S(ev.deliv) = Universe THEN {ALL} ELSE S(ev.deliv)]

Out(r) == PrintT("VERDICT " \o ToJson(r))

TInit == /\ Init /\ tid \in 1..Len(Traces) /\ l = 1 /\ st = "run" /\ bad = {}
         /\ prev = [sub |-> <<>>, paused |-> <<>>, deliv |-> <<>>]

TNext ==
  /\ st = "run" /\ UNCHANGED <<tid, nops, hist>>
  /\ IF l > NEv
     THEN /\ Out([tid |-> Traces[tid].tid, res |-> IF bad = {} THEN "ok" ELSE "fail", step |-> l - 1, props |-> bad])
          /\ st' = "done" /\ UNCHANGED <<csub, cpause, suball, H, ctx, last, l, prev, bad>>
     ELSE LET ev == Ev(l)
              r == Expect(ev)
              cl == Clauses(ev, r)
          IN /\ bad' = bad \cup {<<l, x>> : x \in cl} \cup (IF cl = {} /\ Drift(ev, r) THEN {<<l, "drift">>} ELSE {})
             /\ csub' = S(ev.sub) /\ cpause' = S(ev.paused) /\ suball' = (ALL \in S(ev.sub))
             /\ H' = AdoptHub(r.h, ev)
             /\ prev' = [sub |-> ev.sub, paused |-> ev.paused, deliv |-> ev.deliv]
             /\ last' = last
             /\ ctx' = CASE ev.op = "EnterSubCtx" /\ ~ev.raised ->
                              Append(MarkDirty, [kind |-> "sub", lf |-> Filter(ev.L, LAMBDA x : x \notin csub),
                                                 wasp |-> S(Filter(ev.L, LAMBDA x : x \notin csub)) \cap cpause,
                                                 entry |-> Mirror, dirty |-> FALSE, indiv |-> ~HasAll(ev.L)])
                         [] ev.op = "EnterPauseCtx" /\ ~ev.raised ->
                              Append(MarkDirty, [kind |-> "pause", lf |-> Filter(ev.L, LAMBDA x : x \in csub), wasp |-> {},
                                                 entry |-> Mirror, dirty |-> FALSE, indiv |-> ~HasAll(ev.L)])
                         [] ev.op = "ExitCtx" -> SubSeq(ctx, 1, Len(ctx) - 1)
                         [] OTHER -> MarkDirty
             /\ l' = l + 1 /\ UNCHANGED st

TSpec == TInit /\ [][TNext]_tvars
=============================================================================
