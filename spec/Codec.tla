------------------------------- MODULE Codec -------------------------------
(***************************************************************************)
(* C10 -- one message value and its representations.                       *)
(*                                                                         *)
(* A value v of a message class (built through the validated field API:    *)
(* every field of validator kind `kind` holds a value of class `vcl`, see  *)
(* ValDomain.tla) exists as                                                *)
(*   "obj"   a message-data object          "bytes"  its raw bytes         *)
(*   "dict"  to_dict()                      "json"   to_json() text        *)
(*   "mjson" header-plus-data JSON (Message.to_json), header version hash  *)
(*           of class vc in {zero, same, different}                        *)
(* and as a copy.  The conversion actions move between representations;    *)
(* every conversion must carry the SAME value (ValuePreserved), a copy     *)
(* must not share storage with its source (MutateCopy writes into the copy  *)
(* and the source is read again), a dictionary handed out by to_dict() is  *)
(* private to the caller (EditDict edits it in place and the message is    *)
(* converted again), and header-plus-data JSON whose version               *)
(* hash is non-zero and different from the local definition must be        *)
(* refused (VersionRefused) -- and only that one.                          *)
(*                                                                         *)
(* TLC enumerates every conversion path up to MaxPath for every (kind,     *)
(* value class) and exports them; the driver (vf/codecdrv.py) executes     *)
(* each path on every message / struct class that has a field of that kind *)
(* and compares bytes at every object state.  Numeric fidelity itself is   *)
(* checked by byte comparison in Python, not by TLC: the specification     *)
(* contributes the path / value enumeration, the copy rule and the         *)
(* refusal rule (stated limit of the method for this property).            *)
(***************************************************************************)
EXTENDS ValDomain, Sequences, TLC, Json

CONSTANTS MaxPath,          \* number of conversion actions in a path
          GenOn,            \* export the paths
          Kinds,            \* validator kinds enumerated (subset of CodecKinds)
          Shares,           \* FALSE: intended; TRUE: variant where a copy shares storage with its source
          RefuseDifferent   \* TRUE: intended; FALSE: variant that accepts a different version hash

CodecKinds == LeafKinds \cup {"String"}
(* values of the domain that C10 names beyond the C09 classes *)
ExtraValues(k) ==
  CASE k \in FloatKinds -> {"NEGNAN", "NANPAYLOAD", "MIXED"}
    [] k = "String" -> {"STALE", "STALE_NUL"}      \* a shorter string written over a longer one
    [] k \in IntKinds -> {"MIXED"}                   \* arrays holding different in-domain values per element
    [] k = "Byte" -> {"MIXED"}
    [] OTHER -> {}
CodecValues(k) == OkTags(k) \cup ExtraValues(k)     \* "every value constructible through the validated field API"

VersionClasses == {"zero", "same", "different"}

VARIABLES kind, vcl,     \* the value under test (constant along a behaviour)
          rep,           \* current representation
          cur,           \* abstract value carried by the current representation: "v" original, "w" scribbled
          src,           \* value of the retained source of a copy, or "none"
          vc,            \* version class of an mjson representation
          hist
vars == <<kind, vcl, rep, cur, src, vc, hist>>

Log(a, p) == Append(hist, [a |-> a, p |-> p])
Conv(from, to, a, p) ==
  /\ rep = from /\ rep' = to /\ hist' = Log(a, p)
  /\ UNCHANGED <<kind, vcl, cur, src, vc>>

AToBytes    == Conv("obj", "bytes", "ToBytes", "-")
AFromBytes  == Conv("bytes", "obj", "FromBytes", "-")
AToDict     == Conv("obj", "dict", "ToDict", "-")
AFromDict   == Conv("dict", "obj", "FromDict", "-")
AToJson(m)  == Conv("obj", "json", "ToJson", m)
AFromJson   == Conv("json", "obj", "FromJson", "-")
ADictToJson == Conv("dict", "json", "DictToJson", "-")       \* json.dumps(to_dict(), cls=RTMAJSONEncoder)
AJsonToDict == Conv("json", "dict", "JsonToDict", "-")       \* json.loads
AMsgToJson(v) ==
  /\ rep = "obj" /\ rep' = "mjson" /\ vc' = v /\ hist' = Log("MsgToJson", v)
  /\ UNCHANGED <<kind, vcl, cur, src>>
AMsgFromJson ==
  /\ rep = "mjson"
  /\ rep' = IF vc = "different" /\ RefuseDifferent THEN "refused" ELSE "obj"
  /\ hist' = Log("MsgFromJson", "-")
  /\ UNCHANGED <<kind, vcl, cur, src, vc>>
(* copy: the copy becomes the current object, the source is retained *)
ACopy(a) ==
  /\ rep = "obj" /\ src = "none"
  /\ src' = cur /\ hist' = Log(a, "-")
  /\ UNCHANGED <<kind, vcl, rep, cur, vc>>
(* write into the copy, read the source again and continue with the source *)
AMutateCopy ==
  /\ rep = "obj" /\ src # "none"
  /\ cur' = IF Shares THEN "w" ELSE src
  /\ src' = "none" /\ hist' = Log("MutateCopy", "-")
  /\ UNCHANGED <<kind, vcl, rep, vc>>

(* the caller edits a dictionary it got from to_dict() in place (data_logger/cli.py does; so does the "take a template,
   fill it in" idiom) and then goes back to the untouched message: a result is private to the caller, so every later
   conversion of the message still carries v.  Shares = TRUE is the variant in which results share storage. *)
AEditDict ==
  /\ rep = "dict" /\ rep' = "obj"
  /\ cur' = IF Shares THEN "w" ELSE cur
  /\ hist' = Log("EditDict", "-")
  /\ UNCHANGED <<kind, vcl, src, vc>>

Next ==
  /\ Len(hist) < MaxPath /\ rep # "refused"
  /\ \/ AToBytes \/ AFromBytes \/ AToDict \/ AFromDict \/ AFromJson \/ ADictToJson \/ AJsonToDict \/ AMsgFromJson \/ AMutateCopy
     \/ AEditDict
     \/ \E m \in {"pretty", "minify"} : AToJson(m)
     \/ \E v \in VersionClasses : AMsgToJson(v)
     \/ \E a \in {"Copy", "MsgCopy"} : ACopy(a)

Init ==
  /\ kind \in Kinds /\ vcl \in CodecValues(kind)
  /\ rep = "obj" /\ cur = "v" /\ src = "none" /\ vc = "zero" /\ hist = <<>>

Spec == Init /\ [][Next]_vars

(* C10 *)
ValuePreserved == (rep # "refused") => (cur = "v" /\ src \in {"none", "v"})
VersionRefused ==
  (rep = "refused") <=> (Len(hist) > 0 /\ hist[Len(hist)].a = "MsgFromJson" /\ vc = "different")
TypeOK == Kinds \subseteq CodecKinds /\ rep \in {"obj", "bytes", "dict", "json", "mjson", "refused"}

Terminal == Len(hist) = MaxPath \/ rep = "refused"
GenInv == ~(GenOn /\ Terminal) \/ PrintT("PATH " \o ToJson([k |-> kind, v |-> vcl, path |-> hist]))

(***************************************************************************)
(* Judging an observed execution of a path (Codec_Trace.tla).              *)
(* o is one observation made after a step on some class: "ok", "differs",  *)
(* "refused", "raised", "shares" or "skipped"; spec_rep is the             *)
(* representation the specification reaches with that step.                *)
(***************************************************************************)
StepClauses(a, spec_rep, o) ==
  IF o = "skipped" THEN {}
  ELSE IF spec_rep = "refused" THEN (IF o = "refused" THEN {} ELSE {"C10.VersionNotRefused"})
  ELSE IF o = "refused" THEN {"C10.VersionWronglyRefused"}
  ELSE IF o = "shares" THEN {IF a = "EditDict" THEN "C10.ResultShared" ELSE "C10.CopyShares"}
  ELSE IF o \in {"differs", "raised"} THEN {"C10.RoundTripDiffers"}
  ELSE {}
=============================================================================
