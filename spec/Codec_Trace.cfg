SPECIFICATION TSpec
CONSTANTS
  MaxPath = 1000
  GenOn = FALSE
  Kinds = {"Int8", "Int16", "Int32", "Int64", "Uint8", "Uint16", "Uint32", "Uint64", "Float", "Double", "Byte", "Char", "String"}
  Shares = FALSE
  RefuseDifferent = TRUE
CHECK_DEADLOCK FALSE
