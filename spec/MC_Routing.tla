----------------------------- MODULE MC_Routing -----------------------------
(* Family "routing": three connected modules (c a logger) exchange subscribe-family and data
   frames; every service order and every writable subset; at most one peer death.
   Decides C01, C05, C14, C19 (and the C07 clauses for write-side failures) on the spec. *)
EXTENDS MCBase

T1 == 100
con(id, lg) == [k |-> "f", t |-> CONNECT, src |-> id, dst |-> 0, dhost |-> 0, p |-> [k |-> "con", logger |-> lg, daemon |-> 0]]
sub(ty, src, mt) == [k |-> "f", t |-> ty, src |-> src, dst |-> 0, dhost |-> 0, p |-> [k |-> "sub", mt |-> mt]]
data(t, src, dst, dhost, id) == [k |-> "f", t |-> t, src |-> src, dst |-> dst, dhost |-> dhost, p |-> [k |-> "d", id |-> id]]
round(acc, R, W) == [a |-> "Round", acc |-> acc, R |-> R, W |-> W]

RSetup == <<
  [a |-> "Open", c |-> "a"], [a |-> "Open", c |-> "b"], [a |-> "Open", c |-> "c"],
  round("a", <<>>, <<>>), round("b", <<>>, <<>>), round("c", <<>>, <<>>),
  [a |-> "Send", c |-> "a", f |-> con(1, 0)],
  [a |-> "Send", c |-> "b", f |-> con(2, 0)],
  [a |-> "Send", c |-> "c", f |-> con(3, 1)],
  round("", <<"a", "b", "c">>, <<"a", "b", "c">>),
  [a |-> "Send", c |-> "c", f |-> sub(SUBSCRIBE, 3, ALL)],
  [a |-> "Send", c |-> "b", f |-> sub(SUBSCRIBE, 2, FAILED)],
  round("", <<"b", "c">>, <<"a", "b", "c">>) >>

Id(c) == CASE c = "a" -> 1 [] c = "b" -> 2 [] c = "c" -> 3

RAlpha(c) ==
  {sub(ty, Id(c), mt) : ty \in {SUBSCRIBE, UNSUBSCRIBE}, mt \in {T1, ALL}}
  \cup {sub(ty, Id(c), T1) : ty \in {PAUSE, RESUME}}
  \cup {data(T1, Id(c), dst, 0, 1) : dst \in {0, 2, 201}}
  \cup {data(T1, Id(c), 0, 6, 2)}
  \cup {data(FAILED, Id(c), 0, 0, 3)}
=============================================================================
