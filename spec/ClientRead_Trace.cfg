SPECIFICATION TSpec
CONSTANTS
  Types = {26, 34}
  MaxFrames = 100
  MaxReads = 100
  GenOn = FALSE
CHECK_DEADLOCK FALSE
