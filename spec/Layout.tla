------------------------------- MODULE Layout -------------------------------
(***************************************************************************)
(* The alignment / padding function of the definition compiler             *)
(* (parser.py check_alignment) as a function on field sequences, and the   *)
(* theorems that make a padded layout equal to the natural C layout.       *)
(*                                                                         *)
(* A field kind is a record [a |-> alignment, s |-> element size, n |->    *)
(* element count (0 = scalar), k |-> tag].  Natural alignment of a native  *)
(* element is its size; of a struct its strictest member alignment.        *)
(*                                                                         *)
(* Pad(fs) inserts explicit char padding exactly where a C compiler would  *)
(* insert hidden padding: before a field whose offset is not a multiple of *)
(* its alignment, and at the end up to a multiple of the strictest         *)
(* alignment (array stride).                                               *)
(*                                                                         *)
(* TLC checks the theorems for EVERY sequence over the kind alphabet up to *)
(* MaxLen, and exports each sequence with its expected layout so that the  *)
(* real parser (and gcc) can be compared with it (C11).                    *)
(***************************************************************************)
EXTENDS LayoutOps, TLC, Json

CONSTANTS Kinds,      \* set of field kinds (records, see above)
          MaxLen,     \* sequences of length 1..MaxLen
          Export      \* BOOLEAN: print every sequence with its layout

NeedsPadding(fs) == Pad(fs).npad > 0

(* outcome of the compiler for a field sequence *)
Outcome(fs, autoPad) ==
  LET L == Pad(fs) IN
  IF ~autoPad /\ L.npad > 0 THEN "AlignmentError"
  ELSE IF L.size > 65535 THEN "InvalidMessageSize"
  ELSE "ok"

(***************************************************************************)
(* enumeration                                                             *)
(***************************************************************************)
VARIABLE fs
Seqs == UNION {[1..n -> Kinds] : n \in 1..MaxLen}
Init == fs \in Seqs
Next == UNCHANGED fs
Spec == Init /\ [][Next]_fs

L == Pad(fs)
(* C11 theorems *)
Natural ==
  /\ \A i \in DOMAIN L.lay : L.lay[i].off % L.lay[i].f.a = 0               \* every field naturally aligned
  /\ L.size % L.align = 0                                                   \* stride keeps arrays aligned
  /\ \A i \in DOMAIN L.lay :                                                \* contiguous: no hidden gaps
        L.lay[i].off = (IF i = 1 THEN 0 ELSE L.lay[i - 1].off + FSize(L.lay[i - 1].f))
  /\ L.size = L.lay[Len(L.lay)].off + FSize(L.lay[Len(L.lay)].f)            \* size = sum of declared fields
OnlyCharPadding == \A i \in DOMAIN L.lay : L.lay[i].pad => (L.lay[i].f.s = 1 /\ L.lay[i].f.a = 1 /\ L.lay[i].f.n >= 1)
UserFieldsPreserved ==
  LET user == SelectSeq(L.lay, LAMBDA e : ~e.pad) IN
  Len(user) = Len(fs) /\ \A i \in DOMAIN fs : user[i].f = fs[i]
Minimal ==      \* padding is inserted only where needed: removing any pad entry breaks alignment
  \A i \in DOMAIN L.lay : L.lay[i].pad =>
     (IF i < Len(L.lay) THEN L.lay[i].f.n < L.lay[i + 1].f.a ELSE L.lay[i].f.n < L.align)
NoPadIffAccepted == (Outcome(fs, FALSE) = "ok") <=> (L.npad = 0 /\ L.size <= 65535)

ExportInv == ~Export \/ PrintT("LAY " \o ToJson([fs |-> fs, lay |-> L.lay, size |-> L.size, align |-> L.align,
                                                  auto |-> Outcome(fs, TRUE), noauto |-> Outcome(fs, FALSE), npad |-> L.npad]))
=============================================================================
