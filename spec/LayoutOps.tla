------------------------------ MODULE LayoutOps ------------------------------
(* The natural-alignment padding function on field sequences (no state): shared by Layout.tla (C11)
   and Defs.tla (C04, C15, C16).  A field kind is [a |-> alignment, s |-> element size, n |-> count (0 = scalar), k |-> tag]. *)
EXTENDS Integers, Sequences, FiniteSets

FSize(f) == f.s * (IF f.n = 0 THEN 1 ELSE f.n)
Gap(off, a) == (a - (off % a)) % a
MaxOf(S) == CHOOSE x \in S : \A y \in S : y <= x
PadKind(n) == [a |-> 1, s |-> 1, n |-> n, k |-> "pad"]

(* layout entries: [f |-> kind, off |-> offset, pad |-> BOOLEAN] *)
RECURSIVE Place(_, _, _)
Place(fs, off, acc) ==
  IF Len(fs) = 0 THEN [lay |-> acc, end |-> off]
  ELSE LET f == Head(fs)
           g == Gap(off, f.a)
           acc1 == IF g = 0 THEN acc ELSE Append(acc, [f |-> PadKind(g), off |-> off, pad |-> TRUE])
       IN Place(Tail(fs), off + g + FSize(f), Append(acc1, [f |-> f, off |-> off + g, pad |-> FALSE]))

StructAlign(fs) == MaxOf({fs[i].a : i \in DOMAIN fs})

Pad(fs) ==
  LET p == Place(fs, 0, <<>>)
      A == StructAlign(fs)
      t == Gap(p.end, A)
  IN [lay |-> IF t = 0 THEN p.lay ELSE Append(p.lay, [f |-> PadKind(t), off |-> p.end, pad |-> TRUE]),
      size |-> p.end + t, align |-> A, npad |-> Cardinality({i \in DOMAIN p.lay : p.lay[i].pad}) + (IF t = 0 THEN 0 ELSE 1)]

=============================================================================
