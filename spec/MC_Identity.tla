----------------------------- MODULE MC_Identity -----------------------------
(* Family "identity": connections a, b (accepted, not yet connected) and a later connection d
   run every connect / disconnect / close history over requested id, allow-multiple flag, name and
   protocol version, observed by a connected monitor c.  Decides C06 and the read-side clauses of
   C07 on the specification.  With DynStart = 3, MaxModules = 6 the dynamic cursor wraps. *)
EXTENDS MCBase

T1 == 100
con(id, lg) == [k |-> "f", t |-> CONNECT, src |-> id, dst |-> 0, dhost |-> 0, p |-> [k |-> "con", logger |-> lg, daemon |-> 0]]
con2(id, multi, name) == [k |-> "f", t |-> CONNECT_V2, src |-> id, dst |-> 0, dhost |-> 0,
                          p |-> [k |-> "con2", logger |-> 0, daemon |-> 0, multi |-> multi, id |-> id, pid |-> 7, name |-> name]]
sub(ty, src, mt) == [k |-> "f", t |-> ty, src |-> src, dst |-> 0, dhost |-> 0, p |-> [k |-> "sub", mt |-> mt]]
sig(t, src) == [k |-> "f", t |-> t, src |-> src, dst |-> 0, dhost |-> 0, p |-> [k |-> "none"]]
data(t, src, dst, id) == [k |-> "f", t |-> t, src |-> src, dst |-> dst, dhost |-> 0, p |-> [k |-> "d", id |-> id]]
round(acc, R, W) == [a |-> "Round", acc |-> acc, R |-> R, W |-> W]

MonId == 2
ISetup == <<
  [a |-> "Open", c |-> "c"], round("c", <<>>, <<>>),
  [a |-> "Send", c |-> "c", f |-> con(MonId, 0)], round("", <<"c">>, <<"c">>),
  [a |-> "Send", c |-> "c", f |-> sub(SUBSCRIBE, MonId, CLIENT_INFO)], round("", <<"c">>, <<"c">>),
  [a |-> "Send", c |-> "c", f |-> sub(SUBSCRIBE, MonId, CLIENT_CLOSED)], round("", <<"c">>, <<"c">>),
  [a |-> "Open", c |-> "a"], round("a", <<>>, <<>>),
  [a |-> "Open", c |-> "b"], round("b", <<>>, <<>>) >>

IdSet == {0, 1, DynStart, DynStart + 1}

IAlpha(c) ==
  IF c = "c" THEN {}
  ELSE {con(id, 0) : id \in IdSet}
       \cup {con2(id, m, n) : id \in IdSet, m \in {0, 1}, n \in {"", "n"}}
       \cup {sig(DISCONNECT, 1)}
       \cup {data(T1, 1, 1, 1)}

(* C06: what a connect request must lead to, stated on the step *)
PConnectOutcome ==
  [][(ServicingFrame /\ SvcItem.t \in {CONNECT, CONNECT_V2} /\ SvcItem.p.k \in {"con", "con2"} /\ H.mods[SvcConn].st = "acc") =>
      LET c == SvcConn
          v2 == SvcItem.p.k = "con2"
          rid == IF v2 THEN SvcItem.p.id ELSE SvcItem.src
          runiq == IF v2 THEN SvcItem.p.multi = 0 ELSE TRUE
          rname == IF v2 THEN SvcItem.p.name ELSE ""
          others == Live(H) \ {c}
          idclash == \E m \in others : H.mods[m].id = rid /\ (H.mods[m].uniq \/ runiq)
          nameclash == rname # "" /\ (rname = ManagerName \/ \E m \in others : H.mods[m].name = rname /\ (H.mods[m].uniq \/ runiq))
          mustRefuse == rid # 0 /\ (rid < 1 \/ rid > DynStart \/ idclash \/ nameclash)
      IN IF mustRefuse
         THEN c \notin Live(H') /\ c \in H'.closed /\ AckCount(H', c) = 0
              /\ \A m \in others \ H.dead : m \in Live(H') /\ H'.mods[m].id = H.mods[m].id /\ H'.mods[m].subs = H.mods[m].subs
         ELSE IF c \in H.dead THEN c \notin Live(H')      \* the acknowledgement cannot be written: it leaves
         ELSE IF rid # 0
         THEN c \in Live(H') /\ H'.mods[c].st = "con" /\ H'.mods[c].id = rid /\ H'.mods[c].uniq = runiq /\ H'.mods[c].name = rname
         ELSE \/ (c \in Live(H') /\ H'.mods[c].st = "con" /\ H'.mods[c].id >= DynStart /\ H'.mods[c].id < MaxModules
                   /\ \A m \in others : H.mods[m].id # H'.mods[c].id)
              \/ (c \notin Live(H') /\ \A i \in DynStart..(MaxModules - 1) : \E m \in others : H.mods[m].id = i)]_vars

(* C06: the CLIENT_INFO published for an accepted connect carries the options as requested *)
PInfoHonest ==
  [][(ServicingFrame /\ SvcItem.t \in {CONNECT, CONNECT_V2} /\ SvcItem.p.k \in {"con", "con2"} /\ H.mods[SvcConn].st = "acc"
        /\ SvcConn \in Live(H') /\ H'.mods[SvcConn].st = "con" /\ "c" \in Live(H') /\ "c" \in H.wl) =>
      \E i \in 1..Len(H'.emit["c"]) :
          LET f == H'.emit["c"][i] IN
          f.t = CLIENT_INFO /\ f.p.id = H'.mods[SvcConn].id /\ f.p.logger = SvcItem.p.logger
          /\ f.p.uniq = (IF SvcItem.p.k = "con2" THEN 1 - SvcItem.p.multi ELSE 1)
          /\ f.p.name = (IF SvcItem.p.k = "con2" THEN SvcItem.p.name ELSE "")]_vars

(* C07: after any departure the id and the name are free again at once *)
PReusable ==
  [][phase = "round" => \A m \in H'.closed : m \notin Live(H') /\ \A x \in Live(H') : x # m]_vars
=============================================================================
