----------------------------- MODULE HashCanon -----------------------------
(***************************************************************************)
(* What the version hash of a message definition may depend on (C13).      *)
(*                                                                         *)
(* A definition is [name, id, fields] with fields a sequence of            *)
(* <<field name, type text>> (empty = signal).  Its canonical key Canon is *)
(* exactly that.  EDIT actions change the definition (rename, id change,   *)
(* field rename / retype / insert / delete / swap, signal <-> message);    *)
(* NOISE actions change only where and how it is written (comments, blank  *)
(* lines, unrelated definitions, another file, a sub-directory, import     *)
(* order, hexadecimal id spelling, recompilation in another process, an    *)
(* edit of the BODY of a struct the definition uses as a field type - the  *)
(* type text in the definition stays the same).                            *)
(* The hash is an uninterpreted injective function of Canon, so:           *)
(*    every edit changes the hash, no noise does,                          *)
(* and two versions of a behaviour have equal hashes iff equal Canon.      *)
(* TLC checks this on the spec and exports behaviours (sequences of        *)
(* versions); the real compiler is run on every version.                   *)
(***************************************************************************)
EXTENDS Integers, Sequences, FiniteSets, TLC, Json

CONSTANTS MaxSteps, GenOn

Names == {"MSGA", "MSGB", "MSG_WITH_A_NAME_THAT_GOES_PAST_COLUMN_FORTY_EIGHT_CHARS"}
Ids == {1010, 1011}
FNames == {"a", "b", "c"}
FTypes == {"int32", "uint32", "char[8]", "double[2]", "OTHER_S", "OTHER_S[2]"}     \* OTHER_S: a struct defined in another file
Field(n, t) == <<n, t>>

VARIABLES def, place, steps, hist
vars == <<def, place, steps, hist>>

(* place: how/where the definition is written - never part of Canon *)
Place0 == [file |-> "root", comments |-> 0, blanks |-> 0, unrelated |-> 0, hexid |-> FALSE, imporder |-> 0, proc |-> 0, structbody |-> 0, keyorder |-> 0, noalign |-> 0, reuseid |-> 0]
Canon(d) == <<d.name, d.id, d.fields>>

FieldNames(d) == {d.fields[i][1] : i \in DOMAIN d.fields}
Version == [def |-> def, place |-> place]
Log(a) == IF GenOn THEN Append(hist, [a |-> a, v |-> [def |-> def', place |-> place']]) ELSE hist

Edit(a, d2) == /\ steps < MaxSteps /\ def' = d2 /\ UNCHANGED place /\ steps' = steps + 1 /\ hist' = Log(a)
Noise(a, p2) == /\ steps < MaxSteps /\ place' = p2 /\ UNCHANGED def /\ steps' = steps + 1 /\ hist' = Log(a)

Rename == \E n \in Names \ {def.name} : Edit("Rename", [def EXCEPT !.name = n])
ChangeId == \E i \in Ids \ {def.id} : Edit("ChangeId", [def EXCEPT !.id = i])
RenameField == \E i \in DOMAIN def.fields : \E n \in FNames \ FieldNames(def) :
                  Edit("RenameField", [def EXCEPT !.fields[i] = Field(n, def.fields[i][2])])
RetypeField == \E i \in DOMAIN def.fields : \E t \in FTypes \ {def.fields[i][2]} :
                  Edit("RetypeField", [def EXCEPT !.fields[i] = Field(def.fields[i][1], t)])
InsertField == /\ Len(def.fields) < 3
               /\ \E pos \in 1..(Len(def.fields) + 1) : \E n \in FNames \ FieldNames(def) : \E t \in FTypes :
                    Edit(IF Len(def.fields) = 0 THEN "ToMessage" ELSE "InsertField",
                         [def EXCEPT !.fields = SubSeq(@, 1, pos - 1) \o <<Field(n, t)>> \o SubSeq(@, pos, Len(@))])
DeleteField == \E i \in DOMAIN def.fields :
                  Edit(IF Len(def.fields) = 1 THEN "ToSignal" ELSE "DeleteField",
                       [def EXCEPT !.fields = SubSeq(@, 1, i - 1) \o SubSeq(@, i + 1, Len(@))])
SwapFields == \E i \in 1..(Len(def.fields) - 1) :
                 Edit("SwapFields", [def EXCEPT !.fields = [j \in DOMAIN @ |-> IF j = i THEN @[i + 1] ELSE IF j = i + 1 THEN @[i] ELSE @[j]]])

AddComment   == Noise("AddComment", [place EXCEPT !.comments = @ + 1])
AddBlank     == Noise("AddBlankLines", [place EXCEPT !.blanks = @ + 1])
AddUnrelated == Noise("AddUnrelatedDef", [place EXCEPT !.unrelated = @ + 1])
Move         == \E f \in {"root", "imported", "subdir", "nested"} \ {place.file} : Noise("MoveTo_" \o f, [place EXCEPT !.file = f])
HexId        == Noise("HexId", [place EXCEPT !.hexid = ~@])
ReorderImp   == Noise("ReorderImports", [place EXCEPT !.imporder = 1 - @])
Recompile    == Noise("RecompileOtherProcess", [place EXCEPT !.proc = @ + 1])
EditStruct   == Noise("EditUsedStruct", [place EXCEPT !.structbody = 1 - @])
NoAlign      == Noise("AddNoAlignOption", [place EXCEPT !.noalign = 1 - @])    \* compiled with alignment validation / auto padding off
ReuseId      == Noise("AddReuseIdChange", [place EXCEPT !.reuseid = 1 - @])   \* the id of the message that REUSES the field list is edited (an edit of that other message)
KeyOrder     == Noise("AddKeyOrder", [place EXCEPT !.keyorder = 1 - @])      \* `fields:` written before `id:` inside the definition

EditStep == Rename \/ ChangeId \/ RenameField \/ RetypeField \/ InsertField \/ DeleteField \/ SwapFields
NoiseStep == AddComment \/ AddBlank \/ AddUnrelated \/ Move \/ HexId \/ ReorderImp \/ Recompile \/ EditStruct \/ KeyOrder \/ NoAlign \/ ReuseId
Next == EditStep \/ NoiseStep

Init == /\ def \in {[name |-> "MSGA", id |-> 1010, fields |-> fs] :
                      fs \in {<<>>, <<Field("a", "int32")>>, <<Field("a", "int32"), Field("b", "char[8]")>>,
                              <<Field("a", "int32"), Field("b", "OTHER_S")>>, <<Field("a", "OTHER_S[2]")>>,
                              <<Field("a", "int32"), Field("b", "double[2]")>>}}        \* needs padding: the compiler inserts it (or not)
        /\ place = Place0 /\ steps = 0
        /\ hist = IF GenOn THEN <<[a |-> "Init", v |-> [def |-> def, place |-> Place0]]>> ELSE <<>>
Spec == Init /\ [][Next]_vars

(* C13 on the specification *)
EditChanges == [][EditStep => Canon(def') # Canon(def)]_vars
NoiseKeeps == [][NoiseStep => Canon(def') = Canon(def)]_vars
(* no edit sequence of the bound is the identity unless it really restores the definition *)
Terminal == steps = MaxSteps
GenInv == ~(GenOn /\ Terminal) \/ PrintT("BEH " \o ToJson(hist))
=============================================================================
