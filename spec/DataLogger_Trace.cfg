SPECIFICATION TSpec
CONSTANTS
  DS = {"d1", "d2"}
  Types = {"A", "B"}
  MaxMsgs = 1000
  MaxNone = 1000
  MaxTicks = 1000
  MaxPause = 1000
  MaxRec = 1000
  EaccReset = FALSE
  Dts = {16}
  WriterOrder = "clear_then_set"
  I1 = 30
  I2 = 0
  GenOn = FALSE
  EdgeOn = FALSE
CHECK_DEADLOCK FALSE
