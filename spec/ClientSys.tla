------------------------------ MODULE ClientSys ------------------------------
(***************************************************************************)
(* One pyrtma Client (its subscription API and client-side mirror of the   *)
(* subscription state, client.py) composed with the manager of Manager.tla *)
(* over a FIFO channel that is drained after every API call.               *)
(*                                                                         *)
(* Actions are the public API calls with their argument SHAPES as          *)
(* parameters: lists with duplicates, entries already in the target state, *)
(* ALL_MESSAGE_TYPES alone or mixed, the bulk variants and the two scoped  *)
(* contexts.  Each call either is refused (InvalidSubscription, nothing    *)
(* sent) or updates the mirror and puts one control frame per type on the  *)
(* wire; the manager side is the REAL ServiceOp of Manager.tla.            *)
(*                                                                         *)
(* C02: SubsAgree, PausedNotDelivered, RefusedWhileAll, CtxRestores.       *)
(***************************************************************************)
EXTENDS Manager, Json

CONSTANTS Types,        \* individual message types the client uses
          Outside,      \* a type never named in any call
          MaxLen,       \* max length of an argument list
          MaxOps,       \* max number of API calls
          GenOn         \* BOOLEAN record hist / print behaviours

VARIABLES csub, cpause, suball,    \* the client's mirror
          H,                       \* the hub (connection "k" is the client)
          ctx,                     \* stack of open contexts
          nops, last, hist
cvars == <<csub, cpause, suball, H, ctx, nops, last, hist>>

K == "k"
KId == 10
Universe == Types \cup {Outside}
Lists == UNION {[1..n -> Types \cup {ALL}] : n \in 0..MaxLen}
SetOf(L) == {L[i] : i \in DOMAIN L}
HasAll(L) == ALL \in SetOf(L)
MsgSet(L) == IF HasAll(L) THEN {ALL} ELSE SetOf(L)

Mirror == [sub |-> csub, pause |-> cpause, all |-> suball]

(* client.py _subscription_control: the set algebra per control message *)
Algebra(S, kind, L) ==
  LET ms == MsgSet(L) IN
  CASE kind = "Subscribe" \/ kind = "Resume" ->
         IF HasAll(L) THEN [sub |-> {ALL}, pause |-> {}, all |-> TRUE]
         ELSE [sub |-> S.sub \cup ms, pause |-> S.pause \ ms, all |-> S.all]
    [] kind = "Unsubscribe" ->
         IF HasAll(L) THEN [sub |-> {}, pause |-> {}, all |-> FALSE]
         ELSE [sub |-> S.sub \ ms, pause |-> S.pause \ ms, all |-> S.all]
    [] kind = "Pause" ->
         IF HasAll(L) THEN [sub |-> {}, pause |-> {}, all |-> FALSE]
         ELSE [sub |-> S.sub \ ms, pause |-> S.pause \cup ms, all |-> S.all]

Refused(S, L) == S.all /\ ~HasAll(L)

WireType(kind) == CASE kind = "Subscribe" -> SUBSCRIBE [] kind = "Unsubscribe" -> UNSUBSCRIBE
                    [] kind = "Pause" -> PAUSE [] kind = "Resume" -> RESUME

Frame(kind, t) == [k |-> "f", t |-> WireType(kind), src |-> KId, dst |-> 0, dhost |-> 0, p |-> [k |-> "sub", mt |-> t]]

(* the manager services the call's control frames (one per type; their order is the iteration order
   of a Python set and does not matter: they are all of one kind) *)
RECURSIVE Deliver2Mgr(_, _, _)
Deliver2Mgr(X, kind, ts) ==
  IF ts = {} THEN X
  ELSE LET t == CHOOSE t \in ts : TRUE
           X1 == CHOOSE Y \in ServiceOp([BeginOp(X, "", 1, Live(X)) EXCEPT !.mode = "deferred"], K, Frame(kind, t)) : TRUE
       IN Deliver2Mgr(X1, kind, ts \ {t})

(* one primitive control call applied to (mirror, hub) *)
Apply(S, X, kind, L) ==
  IF Refused(S, L) THEN [s |-> S, h |-> X, raised |-> TRUE]
  ELSE [s |-> Algebra(S, kind, L), h |-> Deliver2Mgr(X, kind, MsgSet(L)), raised |-> FALSE]

(* what the manager delivers to the client: the probe types it is entitled to *)
Probe(t) == Hdr(t, 77, 0, 0, [k |-> "d", id |-> 1])
Delivering(X) == {t \in Universe : K \in Eligible([X EXCEPT !.wl = Live(X)], Probe(t))}
Reported(S) == S.sub

Filter(L, P(_)) == SelectSeq(L, P)

(***************************************************************************)
(* API calls                                                               *)
(***************************************************************************)
Commit(r, name, arg, c) ==
  /\ csub' = r.s.sub /\ cpause' = r.s.pause /\ suball' = r.s.all /\ H' = r.h
  /\ nops' = IF name = "ExitCtx" THEN nops ELSE nops + 1       \* leaving is not a new call budget-wise
  /\ last' = [op |-> name, raised |-> r.raised, pre |-> Mirror, L |-> arg, c |-> c]
  /\ hist' = IF GenOn THEN Append(hist, [op |-> name, L |-> arg]) ELSE hist

NoCtx == [kind |-> "none", lf |-> <<>>, wasp |-> {}, entry |-> [sub |-> {}, pause |-> {}, all |-> FALSE], dirty |-> TRUE, indiv |-> FALSE]

Dirty(c) == [c EXCEPT !.dirty = TRUE]
MarkDirty == [i \in DOMAIN ctx |-> Dirty(ctx[i])]

Control(kind, L) ==
  /\ nops < MaxOps
  /\ Commit(Apply(Mirror, H, kind, L), kind, L, NoCtx)
  /\ ctx' = MarkDirty

SeqOfSet(S) == SetToSeq(S)
UnsubscribeFromAll == nops < MaxOps /\ Commit(Apply(Mirror, H, "Unsubscribe", SeqOfSet(csub)), "UnsubscribeFromAll", <<>>, NoCtx) /\ ctx' = MarkDirty
PauseAll           == nops < MaxOps /\ Commit(Apply(Mirror, H, "Pause", SeqOfSet(csub)), "PauseAll", <<>>, NoCtx) /\ ctx' = MarkDirty
ResumeAll          == nops < MaxOps /\ Commit(Apply(Mirror, H, "Resume", SeqOfSet(cpause)), "ResumeAll", <<>>, NoCtx) /\ ctx' = MarkDirty

(* scoped subscription context: subscribe what is not subscribed yet; on exit undo exactly that,
   putting back on pause what was paused on entry *)
EnterSubCtx(L) ==
  /\ nops < MaxOps /\ Len(ctx) < 2
  /\ LET Lf == Filter(L, LAMBDA x : x \notin csub)
         r == Apply(Mirror, H, "Subscribe", Lf)
     IN /\ Commit(r, "EnterSubCtx", L, NoCtx)
        /\ ctx' = IF r.raised THEN MarkDirty
                  ELSE Append(MarkDirty, [kind |-> "sub", lf |-> Lf, wasp |-> SetOf(Lf) \cap cpause,
                                          entry |-> Mirror, dirty |-> FALSE, indiv |-> ~HasAll(L)])

EnterPauseCtx(L) ==
  /\ nops < MaxOps /\ Len(ctx) < 2
  /\ LET Lf == Filter(L, LAMBDA x : x \in csub)
         r == Apply(Mirror, H, "Pause", Lf)
     IN /\ Commit(r, "EnterPauseCtx", L, NoCtx)
        /\ ctx' = IF r.raised THEN MarkDirty
                  ELSE Append(MarkDirty, [kind |-> "pause", lf |-> Lf, wasp |-> {}, entry |-> Mirror,
                                          dirty |-> FALSE, indiv |-> ~HasAll(L)])

ExitCtx ==
  /\ Len(ctx) > 0
  /\ LET c == ctx[Len(ctx)]
         r == IF c.kind = "pause" THEN Apply(Mirror, H, "Resume", c.lf)
              ELSE LET keep == Filter(c.lf, LAMBDA x : x \notin c.wasp)
                       back == Filter(c.lf, LAMBDA x : x \in c.wasp)
                       r1 == Apply(Mirror, H, "Unsubscribe", keep)
                   IN IF r1.raised \/ Len(back) = 0 THEN r1 ELSE Apply(r1.s, r1.h, "Pause", back)
     IN /\ Commit(r, "ExitCtx", <<>>, c)
        /\ ctx' = SubSeq(ctx, 1, Len(ctx) - 1)

Next ==
  \/ \E kind \in {"Subscribe", "Unsubscribe", "Pause", "Resume"} : \E L \in Lists : Control(kind, L)
  \/ UnsubscribeFromAll \/ PauseAll \/ ResumeAll
  \/ \E L \in Lists : EnterSubCtx(L) \/ EnterPauseCtx(L)
  \/ ExitCtx

(* initial hub: the client and a probe publisher are connected *)
con(id) == [k |-> "f", t |-> CONNECT, src |-> id, dst |-> 0, dhost |-> 0, p |-> [k |-> "con", logger |-> 0, daemon |-> 0]]
H0 == LET A == BeginOp(BeginOp(InitHub, K, 0, {}), "p", 0, {})
          B == CHOOSE Y \in ServiceOp([A EXCEPT !.wl = {K, "p"}], K, con(KId)) : TRUE
      IN CHOOSE Y \in ServiceOp(B, "p", con(77)) : TRUE

Init == /\ csub = {} /\ cpause = {} /\ suball = FALSE /\ H = H0 /\ ctx = <<>> /\ nops = 0
        /\ last = [op |-> "none", raised |-> FALSE, pre |-> [sub |-> {}, pause |-> {}, all |-> FALSE], L |-> <<>>, c |-> NoCtx]
        /\ hist = <<>>

Spec == Init /\ [][Next]_cvars

(***************************************************************************)
(* C02                                                                     *)
(***************************************************************************)
MgrSubs == H.mods[K].subs
(* reported = delivered *)
SubsAgree == /\ csub = MgrSubs
             /\ Delivering(H) = (IF ALL \in csub THEN Universe ELSE csub \cap Universe)
             /\ suball = (ALL \in csub)
PausedNotDelivered == cpause \cap Delivering(H) = {}
(* an individual request while subscribed to all is refused and changes nothing on either side *)
RefusedWhileAll ==
  (last.raised) => (/\ Mirror = last.pre)
PRefusedNoFrames == [][(last'.raised /\ nops' # nops) => H'.mods[K] = H.mods[K]]_cvars
PMustRefuse ==
  [][(nops' # nops /\ last'.op \in {"Subscribe", "Unsubscribe", "Pause", "Resume"} /\ suball
        /\ ~HasAll(last'.L)) => last'.raised]_cvars
(* leaving a context entered with individual types and an untouched body restores the entry state *)
CtxRestores ==
  (last.op = "ExitCtx" /\ ~last.c.dirty /\ last.c.indiv /\ ~last.raised)
     => (csub = last.c.entry.sub /\ cpause = last.c.entry.pause /\ suball = last.c.entry.all)

Terminal == nops = MaxOps /\ Len(ctx) = 0
GenInv == ~(GenOn /\ Terminal) \/ PrintT("BEH " \o ToJson(hist))
=============================================================================
