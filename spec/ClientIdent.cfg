SPECIFICATION Spec
CONSTANTS
  DynStart = 100
  DynEnd = 199
  Static = 11
  MaxSteps = 7
  GenOn = FALSE
INVARIANT RequestsNameWhatTheCallerAsked
INVARIANT LearnsIdFromAck
INVARIANT DynamicIdIsFree
CHECK_DEADLOCK FALSE
