SPECIFICATION Spec
CONSTANTS
  MaxModules = 200
  DynStart = 100
  MaxHosts = 5
  MaxMsgTypes = 10000
  TrafficChunk = 64
  MaxActive = 256
  TimingOn = TRUE
  Modes = {"inline", "deferred", "detach"}
  Conns = {"a", "b", "c"}
  Setup <- RSetup
  Alpha <- RAlpha
  MaxQ = 2
  MaxDeaths = 1
  MaxEnv = 6
  TickSteps = {}
  MaxNow = 0
  AllowOpen = FALSE
  AllowFin = TRUE
  AllowRst = FALSE
  HistOn = TRUE
  GenDepth = 100
INVARIANT GenInv
CHECK_DEADLOCK FALSE
