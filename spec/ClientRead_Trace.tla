-------------------------- MODULE ClientRead_Trace --------------------------
(* Trace validation for C08: a REAL pyrtma Client reads from a scripted socket; every
   read_message call is recorded with its arguments, its result (which frame came back and whether
   header and payload are byte-identical to what was put on the wire, None, or the exception class),
   the connected flag and which whole frames are still unread.  ReadOp of ClientRead.tla predicts
   each call; the C08 clauses are evaluated at every read. *)
EXTENDS ClientRead, IOUtils, TLCExt

Traces == ndJsonDeserialize(IOEnv.TRACE_FILE)
VARIABLES tid, l, st, bad
tvars == <<vars, tid, l, st, bad>>

Ev(i) == Traces[tid].ev[i]
NEv == Len(Traces[tid].ev)
S(x) == {x[i] : i \in DOMAIN x}
DecodeErrors == {"UnknownMessageType", "InvalidMessageDefinition"}

Clauses(ev, exp) ==
  LET o == ev.res
      oraise == o.k = "raise"
      omsg == o.k = "msg"
      expLoss == exp.res = "raise" /\ exp.exc = "ConnectionLost"
  IN (IF omsg /\ ~o.faithful THEN {"C08.NotFaithful"} ELSE {})
\cup (IF ~ev.earlier THEN {"C08.NotFaithful"} ELSE {})       \* a message handed out by an earlier call changed under the caller's hands
\cup (IF omsg /\ o.id \in Ids(q) /\ ~(Subscribed(State, FrameById(q, o.id)) \/ (ev.ack /\ FrameById(q, o.id).t = ACKT))
      THEN {"C08.UnsubscribedReturned"} ELSE {})
\cup (IF (exp.res = "raise" /\ exp.exc \in DecodeErrors /\ ~(oraise /\ o.exc = exp.exc))
         \/ (oraise /\ o.exc \in DecodeErrors /\ ~(exp.res = "raise" /\ exp.exc = o.exc))
      THEN {"C08.WrongError"} ELSE {})
\cup (IF ev.desync \/ (exp.res = o.k /\ ~expLoss /\ S(ev.left) # Ids(exp.q)) THEN {"C08.FrameNotConsumed"} ELSE {})
\cup (IF expLoss /\ ~(oraise /\ o.exc = "ConnectionLost") THEN {"C08.LossNotReported"} ELSE {})
\cup (IF expLoss /\ ev.connected THEN {"C08.StillConnected"} ELSE {})

Same(ev, exp) ==
  /\ exp.res = ev.res.k
  /\ (exp.res = "msg" => exp.id = ev.res.id)
  /\ (exp.res = "raise" => exp.exc = ev.res.exc)
  /\ exp.connected = ev.connected

Out(r) == PrintT("VERDICT " \o ToJson(r))

TInit == Init /\ tid \in 1..Len(Traces) /\ l = 1 /\ st = "run" /\ bad = {}

TNext ==
  /\ st = "run" /\ UNCHANGED <<tid, nfr, nrd, last, hist>>
  /\ IF l > NEv
     THEN /\ Out([tid |-> Traces[tid].tid, res |-> IF bad = {} THEN "ok" ELSE "fail", step |-> l - 1, props |-> bad])
          /\ st' = "done" /\ UNCHANGED <<q, cut, csub, suball, connected, l, bad>>
     ELSE LET ev == Ev(l) IN
       CASE ev.a = "Arrive" -> /\ q' = Append(q, Frame(ev.cls, ev.t, ev.id)) /\ l' = l + 1
                               /\ UNCHANGED <<cut, csub, suball, connected, st, bad>>
         [] ev.a = "Reconnect" -> /\ q' = <<>> /\ cut' = "open" /\ csub' = {} /\ suball' = FALSE /\ connected' = TRUE /\ l' = l + 1
                                  /\ UNCHANGED <<st, bad>>
         [] ev.a = "Cut" -> /\ cut' = ev.kind /\ l' = l + 1 /\ UNCHANGED <<q, csub, suball, connected, st, bad>>
         [] ev.a = "Sub" ->
              /\ CASE ev.op = "sub" -> csub' = csub \cup {ev.t} /\ UNCHANGED suball
                   [] ev.op = "unsub" -> csub' = csub \ {ev.t} /\ UNCHANGED suball
                   [] ev.op = "suball" -> csub' = {ALLT} /\ suball' = TRUE
                   [] ev.op = "unsuball" -> csub' = {} /\ suball' = FALSE
              /\ l' = l + 1 /\ UNCHANGED <<q, cut, connected, st, bad>>
         [] ev.a = "Read" ->
              LET exp == ReadOp(State, ev.tm, ev.ack, ev.sync)
                  cl == Clauses(ev, exp)
              IN /\ bad' = bad \cup {<<l, x>> : x \in cl} \cup (IF cl = {} /\ ~Same(ev, exp) THEN {<<l, "drift">>} ELSE {})
                 /\ IF ev.desync
                    THEN /\ Out([tid |-> Traces[tid].tid, res |-> "fail", step |-> l, props |-> bad'])
                         /\ st' = "done" /\ UNCHANGED <<q, connected, l>>
                    ELSE /\ q' = SelectSeq(q, LAMBDA f : f.id \in S(ev.left))
                         /\ connected' = ev.connected
                         /\ l' = l + 1 /\ UNCHANGED st
                 /\ UNCHANGED <<cut, csub, suball>>

TSpec == TInit /\ [][TNext]_tvars
=============================================================================
