SPECIFICATION Spec
CONSTANTS
  MaxMsgs = 8
  MinLen = 0
  GenOn = FALSE
INVARIANT RecordingConfigured
INVARIANT FlagsAgree
INVARIANT Controllable
INVARIANT IdleSubscription
INVARIANT WriterAlive
INVARIANT OneOpenRecording
INVARIANT AfterRun
INVARIANT KnownCrashes
PROPERTY DisconnectsLast
PROPERTY ErrorReplies
PROPERTY NoSpuriousError
PROPERTY ErrorStopsRecording
PROPERTY StartReplies
PROPERTY StopRepliesOk
PROPERTY LogGrowth
PROPERTY LogComplete
PROPERTY FreshFiles
VIEW View
CHECK_DEADLOCK FALSE
