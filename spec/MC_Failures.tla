---------------------------- MODULE MC_Failures ----------------------------
(* Family "failures": four connected modules, several of them subscribed to the notices the
   manager publishes when a delivery fails (FAILED_MESSAGE, CLIENT_CLOSED), two loggers' worth of
   waiting, up to two peers dead at the same instant, every writable subset and service order.
   Decides the multi-failure clauses of C07 / C14 and the total-order clause of C05. *)
EXTENDS MCBase

T1 == 100
con(id, lg) == [k |-> "f", t |-> CONNECT, src |-> id, dst |-> 0, dhost |-> 0, p |-> [k |-> "con", logger |-> lg, daemon |-> 0]]
sub(ty, src, mt) == [k |-> "f", t |-> ty, src |-> src, dst |-> 0, dhost |-> 0, p |-> [k |-> "sub", mt |-> mt]]
data(t, src, dst, dhost, id) == [k |-> "f", t |-> t, src |-> src, dst |-> dst, dhost |-> dhost, p |-> [k |-> "d", id |-> id]]
round(acc, R, W) == [a |-> "Round", acc |-> acc, R |-> R, W |-> W]
All4 == <<"a", "b", "c", "d">>

FSetup == <<
  [a |-> "Open", c |-> "a"], [a |-> "Open", c |-> "b"], [a |-> "Open", c |-> "c"], [a |-> "Open", c |-> "d"],
  round("a", <<>>, <<>>), round("b", <<>>, <<>>), round("c", <<>>, <<>>), round("d", <<>>, <<>>),
  [a |-> "Send", c |-> "a", f |-> con(1, 0)], [a |-> "Send", c |-> "b", f |-> con(2, 0)],
  [a |-> "Send", c |-> "c", f |-> con(3, 1)], [a |-> "Send", c |-> "d", f |-> con(4, 0)],
  round("", All4, All4),
  [a |-> "Send", c |-> "a", f |-> sub(SUBSCRIBE, 1, T1)], [a |-> "Send", c |-> "b", f |-> sub(SUBSCRIBE, 2, T1)],
  [a |-> "Send", c |-> "c", f |-> sub(SUBSCRIBE, 3, ALL)], [a |-> "Send", c |-> "d", f |-> sub(SUBSCRIBE, 4, FAILED)],
  round("", All4, All4),
  [a |-> "Send", c |-> "b", f |-> sub(SUBSCRIBE, 2, FAILED)], [a |-> "Send", c |-> "d", f |-> sub(SUBSCRIBE, 4, CLIENT_CLOSED)],
  round("", <<"b", "d">>, All4),
  [a |-> "Send", c |-> "b", f |-> sub(SUBSCRIBE, 2, CLIENT_CLOSED)],
  round("", <<"b">>, All4) >>

Id(c) == CASE c = "a" -> 1 [] c = "b" -> 2 [] c = "c" -> 3 [] c = "d" -> 4

FAlpha(c) ==
  IF c \in {"a", "d"} THEN {data(T1, Id(c), 0, 0, 1), data(T1, Id(c), 2, 0, 2)}
  ELSE {sub(UNSUBSCRIBE, Id(c), T1)}
=============================================================================
