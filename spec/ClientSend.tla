------------------------------ MODULE ClientSend ------------------------------
(***************************************************************************)
(* The send side of a pyrtma Client (client.py send_message / send_signal  *)
(* / forward_message): what each call puts on the wire and when it must    *)
(* refuse.  Not one of the listed properties on its own - it extends the   *)
(* specification to the sender half that C01 / C05 / C13 rely on:          *)
(*   - a destination module or host id outside the valid range is refused  *)
(*     BEFORE anything is written (InvalidDestinationModule / Host) and    *)
(*     does not consume a message count;                                   *)
(*   - every frame carries the client's module id and host id, the         *)
(*     destination as given, the number of frames sent before it as        *)
(*     msg_count, and - for send_message, also of a definition that has no *)
(*     fields - the definition's version hash;                             *)
(*   - a call on a disconnected client raises NotConnectedError and writes *)
(*     nothing.                                                            *)
(***************************************************************************)
EXTENDS Integers, Sequences, TLC, Json

CONSTANTS MaxModules, MaxHosts, MaxCalls, GenOn

VARIABLES count, connected, wire, ncalls, last, hist
vars == <<count, connected, wire, ncalls, last, hist>>

Kinds == {"message", "message0", "signal", "forward"}     \* message0: send_message() of a definition without fields
Dsts == {0, 1, MaxModules, MaxModules + 1, -1}
DHosts == {0, MaxHosts, MaxHosts + 1, -1}

InRange(dst, dhost) == dst >= 0 /\ dst <= MaxModules /\ dhost >= 0 /\ dhost <= MaxHosts

(* outcome of one call *)
SendOp(kind, dst, dhost) ==
  IF ~connected THEN [res |-> "raise", exc |-> "NotConnectedError", frame |-> <<>>]
  ELSE IF kind # "forward" /\ (dst < 0 \/ dst > MaxModules) THEN [res |-> "raise", exc |-> "InvalidDestinationModule", frame |-> <<>>]
  ELSE IF kind # "forward" /\ (dhost < 0 \/ dhost > MaxHosts) THEN [res |-> "raise", exc |-> "InvalidDestinationHost", frame |-> <<>>]
  ELSE [res |-> "sent", exc |-> "",
        frame |-> <<[kind |-> kind, dst |-> dst, dhost |-> dhost, count |-> count, stamped |-> kind \in {"message", "message0"}]>>]

Call(kind, dst, dhost) ==
  /\ ncalls < MaxCalls
  /\ LET r == SendOp(kind, dst, dhost) IN
     /\ wire' = wire \o r.frame
     /\ count' = IF r.res = "sent" THEN count + 1 ELSE count
     /\ last' = r
  /\ ncalls' = ncalls + 1
  /\ hist' = IF GenOn THEN Append(hist, [a |-> "Call", kind |-> kind, dst |-> dst, dhost |-> dhost,
                                          exp |-> [res |-> SendOp(kind, dst, dhost).res, exc |-> SendOp(kind, dst, dhost).exc, count |-> count]])
             ELSE hist
  /\ UNCHANGED connected

Disconnect ==
  /\ connected /\ connected' = FALSE
  /\ hist' = IF GenOn THEN Append(hist, [a |-> "Disconnect"]) ELSE hist
  /\ UNCHANGED <<count, wire, ncalls, last>>

Next == (\E k \in Kinds : \E d \in Dsts : \E h \in DHosts : Call(k, d, h)) \/ Disconnect

Init == count = 0 /\ connected = TRUE /\ wire = <<>> /\ ncalls = 0 /\ last = [res |-> "none", exc |-> "", frame |-> <<>>] /\ hist = <<>>
Spec == Init /\ [][Next]_vars

(* the counts on the wire are 0, 1, 2, ... : a refused call consumes nothing *)
CountsGapFree == \A i \in DOMAIN wire : wire[i].count = i - 1
OnlyValidDestinations == \A i \in DOMAIN wire : wire[i].kind = "forward" \/ InRange(wire[i].dst, wire[i].dhost)
RefusalWritesNothing == [][(last'.res = "raise" /\ ncalls' # ncalls) => wire' = wire]_vars

Terminal == ncalls = MaxCalls
GenInv == ~(GenOn /\ Terminal) \/ PrintT("BEH " \o ToJson(hist))
=============================================================================
