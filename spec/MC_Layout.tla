------------------------------ MODULE MC_Layout ------------------------------
EXTENDS Layout
Nat1(w, n) == [a |-> w, s |-> w, n |-> n, k |-> "nat"]
Str(tag, a, s, n) == [a |-> a, s |-> s, n |-> n, k |-> tag]
(* native widths x {scalar, [1], [2], [3], [5]}; nested structs of alignment 1, 2, 4, 8 (one whose size is
   not a power of two) as scalars and as array elements *)
MCKinds == {Nat1(w, n) : w \in {1, 2, 4, 8}, n \in {0, 1, 2, 3, 5}}
           \cup {Str("S1", 1, 3, n) : n \in {0, 2}} \cup {Str("S2", 2, 6, n) : n \in {0, 3}}
           \cup {Str("S4", 4, 12, n) : n \in {0, 3}} \cup {Str("S8", 8, 16, n) : n \in {0, 2}}
(* around the 65535 byte limit *)
BigKinds == {Nat1(1, n) : n \in {65519, 65526, 65529, 65531, 65533, 65534, 65535}}
            \cup {Nat1(w, 0) : w \in {1, 2, 4, 8}} \cup {Str("S8", 8, 16, 4094), Str("S8", 8, 16, 4095), Str("S4", 4, 12, 5461)}
=============================================================================
