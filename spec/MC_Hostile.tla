----------------------------- MODULE MC_Hostile -----------------------------
(* Family "hostile": one connection h sends hostile frame classes (undecodable control payloads,
   impossible payload lengths, out-of-range type ids and subscription requests, cuts and resets)
   next to a publisher a and a subscriber s.  The specification answers a hostile frame by closing
   the offender or ignoring it - nothing else.  Decides on the spec that no sequence of such inputs
   reaches a state in which a fresh publisher/subscriber pair is not served (C03 ProbeServed). *)
EXTENDS MCBase

T1 == 100
T9 == 4321
con(id, lg) == [k |-> "f", t |-> CONNECT, src |-> id, dst |-> 0, dhost |-> 0, p |-> [k |-> "con", logger |-> lg, daemon |-> 0]]
con2(id, multi, name) == [k |-> "f", t |-> CONNECT_V2, src |-> id, dst |-> 0, dhost |-> 0,
                          p |-> [k |-> "con2", logger |-> 0, daemon |-> 0, multi |-> multi, id |-> id, pid |-> 7, name |-> name]]
sub(ty, src, mt) == [k |-> "f", t |-> ty, src |-> src, dst |-> 0, dhost |-> 0, p |-> [k |-> "sub", mt |-> mt]]
data(t, src, dst, id) == [k |-> "f", t |-> t, src |-> src, dst |-> dst, dhost |-> 0, p |-> [k |-> "d", id |-> id]]
bad(t) == [k |-> "f", t |-> t, src |-> 0, dst |-> 0, dhost |-> 0, p |-> [k |-> "bad", size |-> 0]]
round(acc, R, W) == [a |-> "Round", acc |-> acc, R |-> R, W |-> W]

HSetup == <<
  [a |-> "Open", c |-> "a"], [a |-> "Open", c |-> "s"], [a |-> "Open", c |-> "h"],
  round("a", <<>>, <<>>), round("s", <<>>, <<>>), round("h", <<>>, <<>>),
  [a |-> "Send", c |-> "a", f |-> con(1, 0)], [a |-> "Send", c |-> "s", f |-> con(2, 0)],
  round("", <<"a", "s">>, <<"a", "s", "h">>),
  [a |-> "Send", c |-> "s", f |-> sub(SUBSCRIBE, 2, T1)], round("", <<"s">>, <<"a", "s", "h">>) >>

HAlpha(c) ==
  IF c = "h" THEN
       {[k |-> "badlen"]} \cup {bad(t) : t \in {CONNECT, CONNECT_V2, SUBSCRIBE, SET_NAME}}
       \cup {con2(0, 1, ""), con(0, 1), con2(1, 0, "")}
       \cup {data(t, 0, d, 1) : t \in {T1, 10000, -7, TIMING, CLIENT_CLOSED}, d \in {0, -1}}
       \cup {sub(SUBSCRIBE, 0, mt) : mt \in {T1, -1, 10000, ALL, CLIENT_CLOSED}}
  ELSE IF c = "a" THEN {data(T1, 1, 0, 2)} ELSE {}

(* a fresh publisher / subscriber pair is served *)
ProbeOK(X0) ==
  LET X == [X0 EXCEPT !.mode = "inline"]
      A1 == BeginOp(X, "p1", 0, {})
      A2 == BeginOp(A1, "p2", 0, {})
      W == Live(A2)
      A3 == [A2 EXCEPT !.wl = W]
  IN \A B1 \in ServiceOp(A3, "p1", con2(0, 1, "")) :
       /\ "p1" \in Live(B1) /\ B1.mods["p1"].st = "con" /\ AckCount(B1, "p1") = 1
       /\ \A B2 \in ServiceOp(B1, "p2", con2(0, 1, "")) :
            /\ "p2" \in Live(B2) /\ B2.mods["p2"].st = "con" /\ AckCount(B2, "p2") = 1
            /\ \A B3 \in ServiceOp(B2, "p2", sub(SUBSCRIBE, B2.mods["p2"].id, T9)) :
                 /\ AckCount(B3, "p2") = 1
                 /\ \A B4 \in ServiceOp(B3, "p1", data(T9, B3.mods["p1"].id, 0, 9)) :
                      Copies(B4, "p2", Hdr(T9, B3.mods["p1"].id, 0, 0, [k |-> "d", id |-> 9])) = 1

IProbeServed == (phase = "idle" /\ Cardinality(DynOffsets(H)) >= 2) => ProbeOK(H)

(* bystanders are never closed by somebody else's hostile frame *)
PBystanders ==
  [][(ServicingFrame /\ SvcConn = "h") => (H'.closed \subseteq {"h"} \cup H.dead)]_vars
=============================================================================
