------------------------------ MODULE Imports ------------------------------
(***************************************************************************)
(* Conflict detection of the definition compiler across an import closure  *)
(* (parser.py parse_file / handle_* / check_duplicate_name).               *)
(*                                                                         *)
(* A program is an import graph over at most four files (ordered import    *)
(* lists: chains, trees, diamonds, repeated imports, cycles, self import)   *)
(* in which every file carries conflict-free background items and two       *)
(* PLANTED items are placed in any two files, of any two kinds, related by  *)
(* name, by id, by both or not at all.                                      *)
(*                                                                         *)
(* Traverse is the operational reading: depth-first, a visited set keyed    *)
(* by file, global registries, first error wins.  Declared is the           *)
(* declarative meaning on the closure (set semantics).  TLC proves they     *)
(* agree for every case of the catalogue ("read once, never invented") and  *)
(* exports the cases; the real parser is run on each (C12).                 *)
(***************************************************************************)
EXTENDS Integers, Sequences, FiniteSets, TLC, Json

CONSTANTS Graphs,     \* set of [name, imp] : imp maps each file to its ordered import list
          Export

Files == {"r", "a", "b", "c"}
Root == "r"
Kinds == {"const", "str", "alias", "struct", "msg", "sig", "res", "mid", "hid"}
SharedNS == {"const", "str", "alias", "struct", "msg", "sig"}
MsgIdKinds == {"msg", "sig", "res"}
Rels == {"none", "name", "id", "both"}

(* which relations make sense between two kinds *)
NameClash(k1, k2) == (k1 \in SharedNS /\ k2 \in SharedNS) \/ (k1 = "mid" /\ k2 = "mid") \/ (k1 = "hid" /\ k2 = "hid")
IdClash(k1, k2) == (k1 \in MsgIdKinds /\ k2 \in MsgIdKinds) \/ (k1 = "mid" /\ k2 = "mid") \/ (k1 = "hid" /\ k2 = "hid")
IdErr(k) == IF k \in MsgIdKinds THEN "MessageIDError" ELSE IF k = "mid" THEN "ModuleIDError" ELSE "HostIDError"

VARIABLE case     \* [g, f1, k1, f2, k2, rel]
Cases == {[g |-> G.name, f1 |-> f1, k1 |-> k1, f2 |-> f2, k2 |-> k2, rel |-> rel] :
             G \in Graphs, f1 \in Files, f2 \in Files, k1 \in Kinds, k2 \in Kinds, rel \in Rels}
GraphOf(c) == (CHOOSE G \in Graphs : G.name = c.g).imp

(* the planted items; a name of kind "res" is not a user name *)
Item(c, i) == IF i = 1 THEN [f |-> c.f1, k |-> c.k1, name |-> "P", id |-> 50, n |-> 1]
              ELSE [f |-> c.f2, k |-> c.k2, name |-> IF c.rel \in {"name", "both"} THEN "P" ELSE "Q",
                    id |-> IF c.rel \in {"id", "both"} THEN 50 ELSE 60, n |-> 2]

(***************************************************************************)
(* operational: depth-first traversal with a visited set                   *)
(***************************************************************************)
(* order in which a file's sections are processed *)
SectionRank(k) == CASE k = "const" -> 1 [] k = "str" -> 2 [] k = "alias" -> 3 [] k = "hid" -> 4 [] k = "mid" -> 5
                    [] k = "struct" -> 6 [] k \in {"msg", "sig", "res"} -> 7

RECURSIVE Visit(_, _, _)
(* st: [seen, order]  order = sequence of files in the order their own items are registered *)
Visit(imp, f, st) ==
  IF f \in st.seen THEN st
  ELSE LET st1 == [st EXCEPT !.seen = @ \cup {f}]
           RECURSIVE Each(_, _)
           Each(lst, s) == IF Len(lst) = 0 THEN s ELSE Each(Tail(lst), Visit(imp, Head(lst), s))
           st2 == Each(imp[f], st1)
       IN [st2 EXCEPT !.order = Append(@, f)]

FileOrder(c) == Visit(GraphOf(c), Root, [seen |-> {}, order |-> <<>>]).order
Pos(s, x) == CHOOSE i \in DOMAIN s : s[i] = x
Reached(c) == {FileOrder(c)[i] : i \in DOMAIN FileOrder(c)}

(* the planted items in registration order *)
Registered(c) ==
  LET its == {Item(c, i) : i \in {1, 2}}
      live == {it \in its : it.f \in Reached(c)}
      before(x, y) == \/ Pos(FileOrder(c), x.f) < Pos(FileOrder(c), y.f)
                      \/ (x.f = y.f /\ (SectionRank(x.k) < SectionRank(y.k) \/ (SectionRank(x.k) = SectionRank(y.k) /\ x.n < y.n)))
  IN IF Cardinality(live) < 2 THEN [items |-> live, first |-> {}]
     ELSE [items |-> live, first |-> {x \in live : \A y \in live \ {x} : before(x, y)}]

(* first error the traversal meets: the second registered item against the first *)
Traverse(c) ==
  LET R == Registered(c) IN
  IF Cardinality(R.items) < 2 THEN [ok |-> TRUE, errs |-> {}]
  ELSE LET a == Item(c, 1)  b == Item(c, 2)
           nameHit == NameClash(a.k, b.k) /\ a.name = b.name /\ a.k # "res" /\ b.k # "res"
           idHit == IdClash(a.k, b.k) /\ a.id = b.id
       IN IF nameHit THEN [ok |-> FALSE, errs |-> {"DuplicateNameError"}]        \* the name is checked before the id
          ELSE IF idHit THEN [ok |-> FALSE, errs |-> {IdErr(a.k)}]
          ELSE [ok |-> TRUE, errs |-> {}]

(***************************************************************************)
(* declarative: conflicts on the closure, set semantics                    *)
(***************************************************************************)
RECURSIVE Closure(_, _)
Closure(imp, S) == LET T == S \cup UNION {{imp[f][i] : i \in DOMAIN imp[f]} : f \in S} IN IF T = S THEN S ELSE Closure(imp, T)

Declared(c) ==
  LET C == Closure(GraphOf(c), {Root})
      a == Item(c, 1)  b == Item(c, 2)
      both == a.f \in C /\ b.f \in C
      nameHit == both /\ NameClash(a.k, b.k) /\ a.name = b.name /\ a.k # "res" /\ b.k # "res"
      idHit == both /\ IdClash(a.k, b.k) /\ a.id = b.id
  IN [conflict |-> nameHit \/ idHit,
      classes |-> (IF nameHit THEN {"DuplicateNameError"} ELSE {}) \cup (IF idHit THEN {IdErr(a.k)} ELSE {}),
      closure |-> C]

(* same file, same section, same key: the YAML loader itself refuses the file *)
SameKey(c) == c.f1 = c.f2 /\ c.rel \in {"name", "both"} /\
              (c.k1 = c.k2 \/ ({c.k1, c.k2} \subseteq {"msg", "sig"}))

Init == case \in Cases
Next == UNCHANGED case
Spec == Init /\ [][Next]_case

(* C12: the traversal detects exactly the conflicts of the closure, and a file is read once *)
ReadOnce == Reached(case) = Declared(case).closure /\ Len(FileOrder(case)) = Cardinality(Reached(case))
DetectsExactly == Traverse(case).ok = ~Declared(case).conflict
RightClass == ~Traverse(case).ok => (Traverse(case).errs \subseteq Declared(case).classes /\ Traverse(case).errs # {})

(***************************************************************************)
(* permitted id ranges (with the core definitions imported)                *)
(***************************************************************************)
MaxMessageTypes == 10000
InRange(k, id) ==
  CASE k \in MsgIdKinds -> id >= 0 /\ id <= MaxMessageTypes
    [] k = "mid" -> (id >= 10 /\ id <= 99) \/ id >= 200 \/ id = 0
    [] k = "hid" -> id >= 1 /\ id <= 32767
Boundary == {-1, 0, 1, 9, 10, 99, 100, 199, 200, 9999, 10000, 10001, 32767, 32768}
CoreMsgIds == {0, 1, 2, 4, 6, 8, 13, 14, 15, 16, 26} \cup (30..34) \cup (40..45) \cup (54..80) \cup {82, 85, 86, 87, 88, 89, 96}
CoreMids == {0, 4, 5}
CoreHids == {0, 32767}
RangeOutcome(k, id) ==
  IF ~InRange(k, id) THEN "RTMASyntaxError"
  ELSE IF k \in MsgIdKinds /\ id \in CoreMsgIds THEN "MessageIDError"
  ELSE IF k = "mid" /\ id \in CoreMids THEN "ModuleIDError"
  ELSE IF k = "hid" /\ id \in CoreHids THEN "HostIDError"
  ELSE "ok"
RangeTable == {[k |-> k, id |-> id, out |-> RangeOutcome(k, id)] : k \in {"msg", "sig", "res", "mid", "hid"}, id \in Boundary}

ExportInv == ~Export \/ PrintT("CASE " \o ToJson([case |-> case, imp |-> GraphOf(case), order |-> FileOrder(case),
                               ok |-> Traverse(case).ok, classes |-> Declared(case).classes, samekey |-> SameKey(case),
                               reached |-> Reached(case)]))
RangeExport == ~Export \/ (case # (CHOOSE c \in Cases : TRUE)) \/ PrintT("RANGE " \o ToJson(RangeTable))
=============================================================================
