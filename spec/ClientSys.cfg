SPECIFICATION Spec
CONSTANTS
  MaxModules = 200
  DynStart = 100
  MaxHosts = 5
  MaxMsgTypes = 10000
  TrafficChunk = 64
  MaxActive = 256
  TimingOn = TRUE
  Modes = {"deferred"}
  Types = {101, 102, 103}
  Outside = 199
  MaxLen = 2
  MaxOps = 3
  GenOn = FALSE
INVARIANT SubsAgree
INVARIANT PausedNotDelivered
INVARIANT RefusedWhileAll
INVARIANT CtxRestores
PROPERTY PRefusedNoFrames
PROPERTY PMustRefuse
CHECK_DEADLOCK FALSE
