----------------------------- MODULE ClientIdent -----------------------------
(***************************************************************************)
(* The identity life cycle of one pyrtma Client object (client.py connect  *)
(* / _connect_helper / disconnect, and the loss of the connection noticed  *)
(* by a read or a write) against the manager's id assignment - the client  *)
(* half of C06: "a client asking for id 0 receives an id from the dynamic  *)
(* range that no live module holds and learns it from the                  *)
(* acknowledgement ... through every public way of connecting", for every  *)
(* sequence of connects, disconnects and connection losses of the SAME     *)
(* client object.                                                          *)
(*                                                                         *)
(*   asked   the id the caller named when the object was made (0 = dynamic)*)
(*   cur     the id the client reports (module_id)                         *)
(*   conn    "down" (never connected / disconnected), "up", "lost" (the    *)
(*           peer went away; the client noticed it in a read)              *)
(*   held    ids held by OTHER live modules at the manager                 *)
(*   nextdyn the manager's next dynamic id                                 *)
(*   wire    the CONNECT requests this client has sent: the id each named  *)
(***************************************************************************)
EXTENDS Integers, Sequences, FiniteSets, TLC, Json

CONSTANTS DynStart, DynEnd, Static, MaxSteps, GenOn

VARIABLES asked, cur, conn, held, nextdyn, wire, acks, steps, hist
vars == <<asked, cur, conn, held, nextdyn, wire, acks, steps, hist>>

Log(e) == IF GenOn THEN Append(hist, e) ELSE hist

(* the manager's choice of a dynamic id: the first id from nextdyn on (wrapping) that no live module holds *)
RECURSIVE FreeFrom(_, _, _)
FreeFrom(i, H, n) == IF n = 0 THEN 0 ELSE IF i \notin H THEN i ELSE FreeFrom(IF i = DynEnd THEN DynStart ELSE i + 1, H, n - 1)
DynChoice(H) == FreeFrom(nextdyn, H, DynEnd - DynStart + 1)

(* connect() on a client that is not connected: the request names `asked` - never a leftover of an earlier connection *)
Connect ==
  /\ conn # "up" /\ steps < MaxSteps
  /\ LET given == IF asked = 0 THEN DynChoice(held) ELSE asked IN
     /\ given # 0
     /\ wire' = Append(wire, asked)
     /\ acks' = Append(acks, given)
     /\ cur' = given
     /\ nextdyn' = IF asked = 0 THEN (IF given = DynEnd THEN DynStart ELSE given + 1) ELSE nextdyn
     /\ hist' = Log([a |-> "Connect", exp |-> [req |-> asked, id |-> given]])
  /\ conn' = "up" /\ steps' = steps + 1
  /\ UNCHANGED <<asked, held>>

(* an orderly disconnect *)
Disconnect ==
  /\ conn = "up" /\ steps < MaxSteps
  /\ conn' = "down" /\ steps' = steps + 1
  /\ hist' = Log([a |-> "Disconnect"])
  /\ UNCHANGED <<asked, cur, held, nextdyn, wire, acks>>

(* the connection is lost (manager restarted, network gone); the client notices it in its next read: ConnectionLost *)
Lose ==
  /\ conn = "up" /\ steps < MaxSteps
  /\ conn' = "lost" /\ steps' = steps + 1
  /\ hist' = Log([a |-> "Lose"])
  /\ UNCHANGED <<asked, cur, held, nextdyn, wire, acks>>

(* another module takes / releases a dynamic id meanwhile *)
OtherJoins ==
  /\ steps < MaxSteps /\ Cardinality(held) < 2
  /\ LET g == DynChoice(held \cup (IF conn = "up" THEN {cur} ELSE {})) IN
     /\ g # 0
     /\ held' = held \cup {g}
     /\ nextdyn' = IF g = DynEnd THEN DynStart ELSE g + 1
     /\ hist' = Log([a |-> "OtherJoins", exp |-> [id |-> g]])
  /\ steps' = steps + 1
  /\ UNCHANGED <<asked, cur, conn, wire, acks>>

Next == Connect \/ Disconnect \/ Lose \/ OtherJoins

Init ==
  /\ asked \in {0, Static} /\ cur = asked /\ conn = "down" /\ held = {} /\ nextdyn = DynStart
  /\ wire = <<>> /\ acks = <<>> /\ steps = 0
  /\ hist = IF GenOn THEN <<[a |-> "Make", asked |-> asked]>> ELSE <<>>
Spec == Init /\ [][Next]_vars

(* C06, client half *)
RequestsNameWhatTheCallerAsked == \A i \in DOMAIN wire : wire[i] = asked
LearnsIdFromAck == conn = "up" => (cur = acks[Len(acks)] /\ (asked # 0 => cur = asked) /\ (asked = 0 => (cur >= DynStart /\ cur <= DynEnd)))
DynamicIdIsFree == conn = "up" => cur \notin held

Terminal == steps = MaxSteps
GenInv == ~(GenOn /\ Terminal) \/ PrintT("BEH " \o ToJson(hist))
=============================================================================
