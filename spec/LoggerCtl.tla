------------------------------ MODULE LoggerCtl ------------------------------
(***************************************************************************)
(* The control state machine of the pyrtma data logger                     *)
(* (data_logger/data_logger.py, class DataLogger): the run() loop, one     *)
(* action per dispatch branch, the error path (except DataLoggerError ->   *)
(* send_error, stop_logging if recording) and the `finally` of run().      *)
(*                                                                         *)
(* The module says what the code DOES, branch by branch; it is not an      *)
(* idealisation.  Places where the code differs from what a reader of the  *)
(* protocol would expect are marked DEVIATION.  The methods of DataLogger  *)
(* are operators over a state record `s` (StartLogging(s), StopLogging(s), *)
(* ...); a raised exception is the field s.exc, sequencing is Then(..).    *)
(*                                                                         *)
(* Environment: a script of at most MaxMsgs incoming messages, chosen      *)
(* freely from the control kinds (with their variants) and data messages   *)
(* of two types, followed by EXIT addressed to the logger.  The message    *)
(* manager forwards a message to the logger only if the logger's           *)
(* subscription covers its type (manager.py add_/remove_subscription, the  *)
(* logger is a `logger_status` module: the destination is ignored): a data *)
(* message reaches the logger only while ALL_MESSAGE_TYPES is subscribed,  *)
(* a control message while the control types or ALL are subscribed.        *)
(*                                                                         *)
(* Content (property C17 seen from the control side): `recs[r].log` is the *)
(* sequence of script positions that must be in the files of recording r:  *)
(* exactly the messages delivered while recording and not paused, in       *)
(* order.  collection.update(msg) runs BEFORE the dispatch, so the STOP /  *)
(* PAUSE message (and every request that fails while recording) is itself  *)
(* logged, the START message is not, a RESUME message is not.  A data set  *)
(* holds the entries its selection covers (ALL, or one type).              *)
(*                                                                         *)
(* Checked (TLC, 16 workers, VIEW View): LoggerCtl.cfg MaxMsgs = 8:        *)
(* 658 764 distinct / 2 518 641 generated states, depth 10, 16-26 s;       *)
(* MaxMsgs = 9: 2 990 749 distinct, about 1 min; MaxMsgs = 10 (thorough    *)
(* tier): 13 373 347 distinct / 52 325 746 generated, depth 12, 4-6 min.   *)
(* `-coverage 1` does not get past TLC's cost-model construction on this   *)
(* module (operators nested through Then(..) / LAMBDA); the per-action and *)
(* per-outcome counts come from `-dump dot,actionlabels` of the MaxMsgs =  *)
(* 6 graph instead: every dispatch branch is taken with every outcome it   *)
(* has (ok / each DataLoggerError / each escape / undelivered), the only   *)
(* unreachable branch being DataCollectionThreadError (WriterAlive).       *)
(* LoggerCtl_Gen.cfg exports behaviours (-simulate); vf/loggerctl_drv.py   *)
(* replays them on the real DataLogger.run(), vf/props/c17ctl.py is the    *)
(* entry.                                                                  *)
(***************************************************************************)
EXTENDS Integers, Sequences, FiniteSets, TLC, Json

CONSTANTS MaxMsgs,    \* length of the script before the closing EXIT
          MinLen,     \* EXIT to the logger is not sent before this many messages (0 in the exhaustive check)
          GenOn       \* TRUE: record the behaviour in hist and print it at the end (export)

VARIABLES L,        \* the logger + its collection + the hub's view of its subscription + the file system (a record)
          n,        \* messages of the script consumed so far
          running,  \* run() has not returned
          last,     \* what the last step was (ghost, for the properties) + the replies it produced
          prof,     \* export only: how the environment is biased ("free": not at all = the exhaustive check; see Biased)
          hist
vars == <<L, n, running, last, prof, hist>>

(***************************************************************************)
(* Data set templates (what a DATA_SET struct of a request says).          *)
(*   sel: the one selected message type, or ALL                            *)
(*   fmt "nosuch": no formatter of that name is registered                 *)
(***************************************************************************)
DS == [a  |-> [name |-> "dA", fmt |-> "raw",         sel |-> "T1"],
       b  |-> [name |-> "dB", fmt |-> "json",        sel |-> "ALL"],
       c  |-> [name |-> "dA", fmt |-> "quicklogger", sel |-> "ALL"],   \* same NAME as template a
       h  |-> [name |-> "dH", fmt |-> "msg_header",  sel |-> "T2"],
       x  |-> [name |-> "dX", fmt |-> "nosuch",      sel |-> "ALL"],
       s3 |-> [name |-> "d3", fmt |-> "quicklogger", sel |-> "T2"],
       s4 |-> [name |-> "d4", fmt |-> "msg_header",  sel |-> "ALL"],
       s5 |-> [name |-> "d5", fmt |-> "json",        sel |-> "T1"],
       s6 |-> [name |-> "d6", fmt |-> "raw",         sel |-> "ALL"]]

MaxSets == 6   \* DataCollection.MAX_DATA_SETS = size of the data_sets array of the request

(***************************************************************************)
(* ADD_DATA_COLLECTION variants.  naming "fixed": dir_fmt "rec" (every     *)
(* recording of every collection goes to the same directory, file name =   *)
(* data set name); naming "run": dir_fmt "rec_$(run)" (needs the metadata  *)
(* key `run`).  path FALSE: base_path does not exist.  over TRUE:          *)
(* num_data_sets = 7 (one more than the array holds).                      *)
(***************************************************************************)
CV == [one    |-> [sets |-> <<"a">>,                              naming |-> "fixed", path |-> TRUE,  over |-> FALSE],
       two    |-> [sets |-> <<"a", "b">>,                         naming |-> "run",   path |-> TRUE,  over |-> FALSE],
       badfmt |-> [sets |-> <<"x", "b">>,                         naming |-> "fixed", path |-> TRUE,  over |-> FALSE],
       dup    |-> [sets |-> <<"a", "c">>,                         naming |-> "fixed", path |-> TRUE,  over |-> FALSE],
       six    |-> [sets |-> <<"a", "b", "s3", "s4", "s5", "s6">>, naming |-> "run",   path |-> TRUE,  over |-> FALSE],
       nopath |-> [sets |-> <<"a">>,                              naming |-> "fixed", path |-> FALSE, over |-> FALSE],
       seven  |-> [sets |-> <<"a", "b", "s3", "s4", "s5", "s6">>, naming |-> "run",   path |-> TRUE,  over |-> TRUE]]
CollVariants == {"one", "two", "badfmt", "dup", "six", "nopath", "seven"}
ValidCollVariants == {"one", "two", "dup", "six"}

\* ADD_DATA_SET variants: template h / b / c / x, and template h sent with the name of ANOTHER collection
SetVariants == {"h", "b", "c", "x", "wrongcoll"}
SetTemplate(v) == IF v = "wrongcoll" THEN "h" ELSE v
\* REMOVE_DATA_SET variants: two names the usual collections have / a name nobody has
RmVariants == {"dA", "dB", "dZ"}
\* METADATA_UPDATE variants: {"run": 1}, {"run": 2}, text that is not JSON, JSON that is not an object
MetaVariants == {"r1", "r2", "badjson", "nonobject"}

LoggerErrs == {"DataCollectionInProgress", "DataCollectionNotConfigured", "InvalidFormatter", "DataCollectionFullError",
               "BasePathNotFound", "MissingMetadata", "DataSetExistsError", "DataCollectionThreadError", "InvalidMetadata"}
\* exceptions that are NOT DataLoggerError: they leave run() (through its finally)
OtherErrs == {"InvalidSubscription", "IndexError", "AttributeError"}

\* --------------------------------------------------------------------------------------------------------------
\* helpers on the state record
Send(s, r)  == [s EXCEPT !.out = Append(@, r)]
Raise(s, e) == [s EXCEPT !.exc = e]
Then(s, F(_)) == IF s.exc # "" THEN s ELSE F(s)

Err(e) == [t |-> "ERROR", exc |-> e]
SetInfo(sets) == [i \in DOMAIN sets |-> [name |-> DS[sets[i]].name, fmt |-> DS[sets[i]].fmt]]
SetCfg(sets)  == [i \in DOMAIN sets |-> [name |-> DS[sets[i]].name, fmt |-> DS[sets[i]].fmt, sel |-> DS[sets[i]].sel]]

\* send_status(): is_recording / is_paused are the LOGGER's flags
SendStatus(s) == Send(s, [t |-> "STATUS", rec |-> s.rec, paused |-> s.paused])

(***************************************************************************)
(* Subscription calls: Client._subscription_control + the manager.         *)
(* The client refuses to touch individual types while it is subscribed to  *)
(* ALL_MESSAGE_TYPES (InvalidSubscription, a ClientError - not a           *)
(* DataLoggerError); the manager would silently ignore the request.        *)
(* SUBSCRIBE ALL replaces everything by {ALL}; UNSUBSCRIBE ALL clears      *)
(* everything.  "ctrl" stands for the 14 control types, which are always   *)
(* (un)subscribed together.                                                *)
(***************************************************************************)
UnsubCtrl(s) == IF "ALL" \in s.subs THEN Raise(s, "InvalidSubscription") ELSE [s EXCEPT !.subs = @ \ {"ctrl"}]
SubCtrl(s)   == IF "ALL" \in s.subs THEN Raise(s, "InvalidSubscription") ELSE [s EXCEPT !.subs = @ \cup {"ctrl"}, !.stuck = FALSE]
SubAll(s)    == [s EXCEPT !.subs = {"ALL"}]
UnsubAll(s)  == [s EXCEPT !.subs = {}, !.stuck = FALSE]

(***************************************************************************)
(* DataCollection                                                          *)
(***************************************************************************)
Dir(s) == IF s.naming = "run" THEN s.meta ELSE 0          \* 0: "rec", k: "rec_k"
Key(s, d) == <<Dir(s), DS[d].name, DS[d].fmt>>            \* one output file

\* DataCollection.start(): thread check, expand dir_fmt, then DataSet.start() for each data set in order - a data set
\* whose file exists raises DataSetExistsError AFTER the earlier data sets have created (and keep open) their files.
CollStart(s) ==
  IF ~s.alive THEN Raise(s, "DataCollectionThreadError")
  ELSE IF s.naming = "run" /\ s.meta = 0 THEN Raise(s, "MissingMetadata")
  ELSE LET bad  == {i \in DOMAIN s.sets : Key(s, s.sets[i]) \in s.files}
           fb   == IF bad = {} THEN Len(s.sets) + 1 ELSE CHOOSE i \in bad : \A j \in bad : i <= j
           made == {Key(s, s.sets[i]) : i \in 1..(fb - 1)}
       IN IF bad = {}
          THEN [s EXCEPT !.files = @ \cup made, !.crec = TRUE, !.cpaused = FALSE,
                         !.recs = Append(@, [sets |-> s.sets, dir |-> Dir(s), log |-> <<>>, open |-> TRUE])]
          ELSE Raise([s EXCEPT !.files = @ \cup made], "DataSetExistsError")

\* DataCollection.stop(): flush + finalize + close every data set file
CollStop(s) == [s EXCEPT !.crec = FALSE, !.cpaused = FALSE, !.recs[Len(s.recs)].open = FALSE]

\* DataCollection.close(): joins the writer thread (idempotent: add_data_collection calls it twice on the old collection)
CollClose(s) == [s EXCEPT !.alive = FALSE]

\* DataCollection.add_data_set(): a data set with a known NAME replaces the old one and moves to the end
\* (DEVIATION: no DataSetExistsError for a duplicate name, although add_data_collection catches that exception)
HasName(sets, nm) == \E i \in DOMAIN sets : DS[sets[i]].name = nm
PutSet(sets, d) == Append(SelectSeq(sets, LAMBDA e : DS[e].name # DS[d].name), d)

\* DataCollection.update(msg), called by run() before the dispatch when the LOGGER is recording
CollUpdate(s, pos, cls) ==
  IF s.cpaused \/ ~s.crec THEN s
  ELSE [s EXCEPT !.recs[Len(s.recs)].log = Append(@, [i |-> pos, c |-> cls])]

(***************************************************************************)
(* DataLogger methods                                                      *)
(***************************************************************************)
StartLogging(s) ==
  IF s.has
  THEN IF s.rec THEN Raise(s, "DataCollectionInProgress")
       ELSE LET s1 == UnsubCtrl(s)
                s2 == Then(s1, SubAll)
                s3 == Then(s2, CollStart)
                \* DEVIATION: when collection.start() raises, the subscription stays at ALL although nothing is recording
                s3s == IF s2.exc = "" /\ s3.exc # "" THEN [s3 EXCEPT !.stuck = TRUE] ELSE s3
                s4 == Then(s3s, LAMBDA z : Send(z, [t |-> "STARTED", sets |-> SetInfo(z.sets)]))
                s5 == Then(s4, LAMBDA z : [z EXCEPT !.rec = TRUE, !.paused = FALSE])
            IN Then(s5, SendStatus)
  ELSE Raise(Then(UnsubAll(s), SubCtrl), "DataCollectionNotConfigured")

StopLogging(s) ==
  IF s.has
  THEN LET s1 == IF s.rec
                 THEN LET u1 == UnsubAll(s)
                          u2 == CollStop(u1)
                          u3 == SubCtrl(u2)
                          u4 == Then(u3, LAMBDA z : Send(z, [t |-> "STOPPED", sets |-> SetInfo(z.sets)]))
                      IN Then(u4, LAMBDA z : Send(z, [t |-> "SAVED"]))
                 ELSE s                          \* "Logger not recording. Stop ignored." - but a STATUS is sent
           s2 == Then(s1, LAMBDA z : [z EXCEPT !.rec = FALSE, !.paused = FALSE])
       IN Then(s2, SendStatus)
  ELSE Raise(s, "DataCollectionNotConfigured")

\* DEVIATION: pause/resume do not look at _recording: PAUSE while idle sets _paused, a later STATUS says
\* is_recording = 0, is_paused = 1
PauseLogging(s)  == IF s.has THEN [s EXCEPT !.cpaused = TRUE,  !.paused = TRUE]  ELSE Raise(s, "DataCollectionNotConfigured")
ResumeLogging(s) == IF s.has THEN [s EXCEPT !.cpaused = FALSE, !.paused = FALSE] ELSE Raise(s, "DataCollectionNotConfigured")

RmCollection(s) ==
  IF s.rec THEN Raise(s, "DataCollectionInProgress")
  ELSE IF s.has THEN [CollClose(s) EXCEPT !.has = FALSE, !.sets = <<>>, !.crec = FALSE, !.cpaused = FALSE] ELSE s

RECURSIVE AddAll(_, _)
AddAll(s, seq) ==
  IF seq = <<>> THEN s
  ELSE LET d == Head(seq) IN
       IF DS[d].fmt = "nosuch"
       THEN AddAll(Send(s, Err("InvalidFormatter")), Tail(seq))     \* caught per data set: ERROR, continue
       ELSE AddAll([s EXCEPT !.sets = PutSet(@, d)], Tail(seq))

AddCollection(s, v) ==
  IF s.rec THEN Raise(s, "DataCollectionInProgress")
  ELSE LET s1 == IF s.has THEN RmCollection(CollClose(s)) ELSE s        \* the old collection goes first ...
       IN IF ~CV[v].path THEN Raise(s1, "BasePathNotFound")             \* DEVIATION: ... even if the new one cannot be made
          ELSE LET s2 == [s1 EXCEPT !.has = TRUE, !.sets = <<>>, !.naming = CV[v].naming, !.alive = TRUE,
                                    !.crec = FALSE, !.cpaused = FALSE]
                   s3 == AddAll(s2, CV[v].sets)
               \* DEVIATION: num_data_sets beyond the array: IndexError after the six data sets were added
               IN IF CV[v].over THEN Raise(s3, "IndexError") ELSE s3

AddSet(s, v) ==
  LET d == SetTemplate(v) IN
  IF s.rec THEN Raise(s, "DataCollectionInProgress")
  ELSE IF ~s.has THEN Raise(s, "DataCollectionNotConfigured")
  \* DEVIATION: a wrong collection_name builds a DataCollectionNotFound but does not raise it: the set is added
  ELSE IF DS[d].fmt = "nosuch" THEN Raise(s, "InvalidFormatter")
  ELSE IF HasName(s.sets, DS[d].name) THEN [s EXCEPT !.sets = PutSet(@, d)]
  ELSE IF Len(s.sets) = MaxSets THEN Raise(s, "DataCollectionFullError")
  ELSE [s EXCEPT !.sets = Append(@, d)]

\* DEVIATION: no collection, or no such data set: silently nothing
RmSet(s, nm) ==
  IF s.rec THEN Raise(s, "DataCollectionInProgress")
  ELSE IF s.has THEN [s EXCEPT !.sets = SelectSeq(@, LAMBDA e : DS[e].name # nm)] ELSE s

Reset(s) ==
  LET s1 == IF s.has
            THEN Then(IF s.rec THEN StopLogging(s) ELSE s, RmCollection)
            ELSE s
  IN Then(s1, LAMBDA z : [z EXCEPT !.meta = 0, !.rec = FALSE, !.paused = FALSE])

UpdateMetadata(s, v) ==
  IF s.rec THEN Raise(s, "DataCollectionInProgress")
  ELSE IF v = "badjson" THEN Raise(s, "InvalidMetadata")
  ELSE IF v = "nonobject" THEN Raise(s, "AttributeError")     \* DEVIATION: json.loads gives a list: .values() fails
  ELSE [s EXCEPT !.meta = IF v = "r1" THEN 1 ELSE 2]

SendConfig(s)   == Send(s, [t |-> "CONFIG", has |-> s.has, sets |-> SetCfg(s.sets)])
SendMetadata(s) == Send(s, [t |-> "METADATA", run |-> s.meta])

\* the dispatch of run(): one branch per message type
Handle(s, m) ==
  CASE m.k = "START"      -> StartLogging(s)
    [] m.k = "STOP"       -> StopLogging(s)
    [] m.k = "PAUSE"      -> PauseLogging(s)
    [] m.k = "RESUME"     -> ResumeLogging(s)
    [] m.k = "ADDC"       -> AddCollection(s, m.v)
    [] m.k = "ADDS"       -> AddSet(s, m.v)
    [] m.k = "RMC"        -> RmCollection(s)
    [] m.k = "RMS"        -> RmSet(s, m.v)
    [] m.k = "RESET"      -> Reset(s)
    [] m.k = "STATUS_REQ" -> SendStatus(s)
    [] m.k = "CONFIG_REQ" -> SendConfig(s)
    [] m.k = "META_UPD"   -> UpdateMetadata(s, m.v)
    [] m.k = "META_REQ"   -> SendMetadata(s)
    [] m.k = "EXIT"       -> s              \* _running = False if addressed to the logger (see Msg)
    [] m.k = "DATA"       -> s              \* no branch: only logged

\* except DataLoggerError: send_error, and a running recording is stopped
Caught(s) ==
  LET s1 == Send([s EXCEPT !.exc = ""], Err(s.exc))
  IN IF s1.rec THEN StopLogging(s1) ELSE s1

\* the finally of run(); an exception on its way out survives it
Finally(s) ==
  LET s0 == [s EXCEPT !.exc = ""]
      s1 == IF s0.has /\ s0.rec THEN StopLogging(s0) ELSE s0
      s2 == IF s1.has THEN CollClose(s1) ELSE s1
      s3 == Send(s2, [t |-> "DISCONNECT"])
  IN [s3 EXCEPT !.exc = IF s.exc # "" THEN s.exc ELSE s3.exc]

\* --------------------------------------------------------------------------------------------------------------
\* delivery by the hub
Cls(m) == IF m.k = "DATA" THEN m.v ELSE "CTL"
Delivered(s, m) ==
  CASE m.k \in {"NONE"}          -> TRUE                    \* read_message timed out: msg = None
    [] m.k \in {"DATA", "UNK"}   -> "ALL" \in s.subs
    [] OTHER                     -> s.subs # {}

\* one pass through the loop body of run() for message m at script position pos.
\*   .e    the state after it; e.out = the replies in order = THE EXPECTED REPLY SEQUENCE the replay compares,
\*         e.exc = the exception that left run(), if any
\*   .d    the hub delivered the message        .err  the DataLoggerError the dispatch raised and run() caught
\*   .ends run() returned (EXIT for the logger, or an exception that is not a DataLoggerError) - through its finally
Step(s, m, pos) ==
  LET s0   == [s EXCEPT !.out = <<>>, !.exc = ""]
      d    == Delivered(s0, m)
      skip == ~d \/ m.k \in {"NONE", "UNK"}     \* UNK: UnknownMessageType -> warn, continue (before update());  NONE: update(None), continue
      u    == IF ~skip /\ s0.has /\ s0.rec THEN CollUpdate(s0, pos, Cls(m)) ELSE s0        \* update() BEFORE the dispatch
      h    == IF skip THEN u ELSE Handle(u, m)
      err  == IF h.exc \in LoggerErrs THEN h.exc ELSE ""
      c    == IF err # "" THEN Caught(h) ELSE h
      ends == d /\ ((m.k = "EXIT" /\ m.v = "me") \/ c.exc # "")
  IN [e |-> IF ends THEN Finally(c) ELSE c, d |-> d, err |-> err, ends |-> ends]

(***************************************************************************)
(* Export only (GenOn): uniformly random scripts mostly bounce off         *)
(* "not configured" and end recordings with the next request, so two of    *)
(* the three profiles steer the simulation (they RESTRICT the environment, *)
(* they add nothing):                                                      *)
(*   warm  starts with METADATA_UPDATE {"run": 1}, a usable                *)
(*         ADD_DATA_COLLECTION, START; never sends the two malformed       *)
(*         requests that end run() (num_data_sets = 7, non-object JSON)    *)
(*   rec   like warm, and while a recording is on only messages that do    *)
(*         not fail are sent (data, timeouts, PAUSE / RESUME, the three    *)
(*         queries, EXIT for somebody else, STOP): long recordings         *)
(***************************************************************************)
Hostile(m) == (m.k = "ADDC" /\ m.v = "seven") \/ (m.k = "META_UPD" /\ m.v = "nonobject")
RecFriendly == {"DATA", "NONE", "UNK", "PAUSE", "RESUME", "STATUS_REQ", "CONFIG_REQ", "META_REQ", "EXIT", "STOP"}
Biased(m) ==
  prof # "free" =>
     /\ (n = 0 => m.k = "META_UPD" /\ m.v = "r1")
     /\ (n = 1 => m.k = "ADDC" /\ m.v \in ValidCollVariants)
     /\ (n = 2 => m.k = "START")
     /\ ~Hostile(m)
     /\ (prof = "rec" /\ L.rec => m.k \in RecFriendly)

Msg(m) ==
  /\ running
  /\ IF m.k = "EXIT" /\ m.v = "me" THEN n >= MinLen /\ n <= MaxMsgs ELSE n < MaxMsgs
  /\ Biased(m)
  /\ LET r == Step(L, m, n + 1)
         e == r.e
     IN /\ L' = e
        /\ n' = n + 1
        /\ running' = ~r.ends
        /\ last' = [k |-> m.k, v |-> m.v, deliv |-> r.d, err |-> r.err, wasrec |-> L.rec, crash |-> e.exc]
        /\ hist' = IF GenOn
                   THEN Append(hist, [i |-> n + 1, k |-> m.k, v |-> m.v, deliv |-> r.d, exp |-> e.out, crash |-> e.exc,
                                      rec |-> e.rec, paused |-> e.paused, has |-> e.has, crec |-> e.crec, cpaused |-> e.cpaused,
                                      subs |-> e.subs, sets |-> SetCfg(e.sets), meta |-> e.meta, nrec |-> Len(e.recs)])
                   ELSE hist
  /\ UNCHANGED prof

M(k, v) == [k |-> k, v |-> v]

DoStart     == Msg(M("START", ""))
DoStop      == Msg(M("STOP", ""))
DoPause     == Msg(M("PAUSE", ""))
DoResume    == Msg(M("RESUME", ""))
DoReset     == Msg(M("RESET", ""))
DoAddColl   == \E v \in CollVariants : Msg(M("ADDC", v))
DoAddSet    == \E v \in SetVariants : Msg(M("ADDS", v))
DoRmColl    == Msg(M("RMC", ""))
DoRmSet     == \E v \in RmVariants : Msg(M("RMS", v))
DoStatusReq == Msg(M("STATUS_REQ", ""))
DoConfigReq == Msg(M("CONFIG_REQ", ""))
DoMetaUpd   == \E v \in MetaVariants : Msg(M("META_UPD", v))
DoMetaReq   == Msg(M("META_REQ", ""))
DoExitMe    == Msg(M("EXIT", "me"))
DoExitOther == Msg(M("EXIT", "other"))
DoData      == \E v \in {"T1", "T2"} : Msg(M("DATA", v))
DoTimeout   == Msg(M("NONE", ""))
DoUnknown   == Msg(M("UNK", ""))

Next == \/ DoStart \/ DoStop \/ DoPause \/ DoResume \/ DoReset \/ DoAddColl \/ DoAddSet \/ DoRmColl \/ DoRmSet
        \/ DoStatusReq \/ DoConfigReq \/ DoMetaUpd \/ DoMetaReq \/ DoExitMe \/ DoExitOther \/ DoData \/ DoTimeout \/ DoUnknown

L0 == [has |-> FALSE, sets |-> <<>>, naming |-> "fixed", alive |-> FALSE, crec |-> FALSE, cpaused |-> FALSE,
       rec |-> FALSE, paused |-> FALSE, subs |-> {"ctrl"}, meta |-> 0, files |-> {}, recs |-> <<>>,
       stuck |-> FALSE, out |-> <<>>, exc |-> ""]

Init == /\ L = L0 /\ n = 0 /\ running = TRUE /\ hist = <<>>
        /\ last = [k |-> "", v |-> "", deliv |-> FALSE, err |-> "", wasrec |-> FALSE, crash |-> ""]
        /\ prof \in (IF GenOn THEN {"free", "warm", "rec"} ELSE {"free"})

Spec == Init /\ [][Next]_vars

\* --------------------------------------------------------------------------------------------------------------
\* Properties
StopReplies(sets) == <<[t |-> "STOPPED", sets |-> SetInfo(sets)], [t |-> "SAVED"], [t |-> "STATUS", rec |-> FALSE, paused |-> FALSE]>>

\* recording => a collection is configured, it records too, and every message type is subscribed
RecordingConfigured == L.rec => L.has /\ L.crec /\ L.alive /\ L.subs = {"ALL"} /\ L.recs # <<>> /\ L.recs[Len(L.recs)].open
\* the logger and its collection agree on the flags that decide what is logged
FlagsAgree == /\ L.has => (L.crec = L.rec)
              /\ L.rec => (L.cpaused = L.paused)
              /\ ~L.has => ~L.rec /\ ~L.crec
\* while run() is alive the control types reach the logger
Controllable == running => ("ctrl" \in L.subs \/ "ALL" \in L.subs)
\* idle: exactly the control types - EXCEPT after a START whose collection.start() raised (DEVIATION: stays at ALL)
IdleSubscription == running /\ ~L.rec => (L.subs = {"ctrl"} \/ (L.subs = {"ALL"} /\ L.stuck))
\* a configured collection always has a live writer thread while run() is alive: the DataCollectionThreadError branch of
\* DataCollection.start() cannot be reached through the control protocol
WriterAlive == running /\ L.has => L.alive
\* only the open recording is the last one; at most one is open
OneOpenRecording == \A r \in DOMAIN L.recs : L.recs[r].open => (r = Len(L.recs) /\ L.rec)
\* after run() returned: nothing records, every recording is closed, the writer thread is joined ...
AfterRun == ~running => /\ ~L.rec /\ ~L.crec
                        /\ \A r \in DOMAIN L.recs : ~L.recs[r].open
                        /\ ~L.alive
\* ... and the last thing the logger did was to disconnect
DisconnectsLast == [][~running' => L'.out # <<>> /\ L'.out[Len(L'.out)].t = "DISCONNECT"]_vars
\* exceptions that leave run() are exactly the three known escapes (DEVIATION: they should not exist at all - see NoCrash)
KnownCrashes == L.exc \in {""} \cup OtherErrs
\* NOT in LoggerCtl.cfg - violated by the code; TLC's counterexamples are the shortest scripts (see vf/props/c17ctl.py counterexamples()):
NoCrash == L.exc = ""
NoSubscriptionCrash == L.exc # "InvalidSubscription"   \* ADD_DATA_COLLECTION(one) START STOP START START: the 2nd START fails on
                                                       \* the existing file and leaves ALL subscribed, the 3rd dies in unsubscribe()
NoIndexCrash == L.exc # "IndexError"                   \* ADD_DATA_COLLECTION with num_data_sets = 7
NoAttributeCrash == L.exc # "AttributeError"           \* METADATA_UPDATE "[1, 2]"
\* a STATUS that says "paused" while nothing records (ADD_DATA_COLLECTION(one) PAUSE STATUS_REQUEST)
NoPausedWhileIdle == [][\A j \in DOMAIN L'.out : L'.out[j].t = "STATUS" => (L'.out[j].paused => L'.out[j].rec)]_vars
\* every output file belongs to a recording: violated - a START that fails at its 2nd data set leaves the file of the 1st
\* behind (and open), and that file makes the next START fail even when the conflict is gone
NoDebris == \A f \in L.files : \E r \in DOMAIN L.recs : \E i \in DOMAIN L.recs[r].sets :
               f = <<L.recs[r].dir, DS[L.recs[r].sets[i]].name, DS[L.recs[r].sets[i]].fmt>>
\* the logger is subscribed to ALL_MESSAGE_TYPES only while it records
AllOnlyWhileRecording == running /\ "ALL" \in L.subs => L.rec

\* every failing request: exactly one ERROR naming the exception, then - if it was recording - STOPPED, SAVED, STATUS(idle)
ErrorReplies ==
  [][last'.err # "" /\ last'.crash = "" /\ ~(last'.k = "ADDC")
       => /\ L'.out = <<Err(last'.err)>> \o (IF last'.wasrec THEN StopReplies(L.sets) ELSE <<>>)
          /\ ~L'.rec
          /\ (last'.wasrec => ~L'.paused)]_vars
\* ... and a request that does not fail sends no ERROR, except ADD_DATA_COLLECTION (one ERROR per unusable data set, collection kept)
NoSpuriousError ==
  [][last'.err = "" /\ last'.k # "ADDC" => \A j \in DOMAIN L'.out : L'.out[j].t # "ERROR"]_vars
\* a request that fails while recording ends the recording (DEVIATION worth knowing: e.g. METADATA_UPDATE while recording)
ErrorStopsRecording == [][last'.err # "" => ~L'.rec]_vars
\* START on an idle, configured logger whose collection can start: STARTED, then STATUS(recording, not paused)
StartReplies ==
  [][last'.k = "START" /\ last'.deliv /\ last'.err = "" /\ last'.crash = ""
       => /\ L'.out = <<[t |-> "STARTED", sets |-> SetInfo(L.sets)], [t |-> "STATUS", rec |-> TRUE, paused |-> FALSE]>>
          /\ L'.rec /\ ~L'.paused /\ Len(L'.recs) = Len(L.recs) + 1]_vars
\* STOP: recording -> STOPPED, SAVED, STATUS(idle); configured but idle -> STATUS(idle) only
StopRepliesOk ==
  [][last'.k = "STOP" /\ last'.deliv /\ last'.err = ""
       => L'.out = (IF L.rec THEN StopReplies(L.sets) ELSE <<[t |-> "STATUS", rec |-> FALSE, paused |-> FALSE]>>)]_vars
\* the content of a recording only grows, only by the message just delivered, only while recording and not paused;
\* a closed recording never changes
LogGrowth ==
  [][\A r \in DOMAIN L.recs :
        /\ r \in DOMAIN L'.recs
        /\ L'.recs[r].sets = L.recs[r].sets /\ L'.recs[r].dir = L.recs[r].dir
        /\ (~L.recs[r].open => L'.recs[r] = L.recs[r])
        /\ (L'.recs[r].log # L.recs[r].log
              => /\ L.rec /\ ~L.cpaused /\ r = Len(L.recs) /\ last'.deliv
                 /\ L'.recs[r].log = Append(L.recs[r].log, [i |-> n', c |-> Cls([k |-> last'.k, v |-> last'.v])]))]_vars
\* ... and nothing that must be logged is skipped: delivered while recording and not paused => appended (UnknownMessageType
\* never reaches update(): DEVIATION - such a message is not logged at all)
LogComplete ==
  [][L.rec /\ ~L.cpaused /\ last'.deliv /\ last'.k \notin {"NONE", "UNK"}
       => Len(L'.recs[Len(L.recs)].log) = Len(L.recs[Len(L.recs)].log) + 1]_vars
\* files are never written twice: a recording's files are new
FreshFiles ==
  [][Len(L'.recs) > Len(L.recs)
       => \A i \in DOMAIN L.sets : <<L'.recs[Len(L'.recs)].dir, DS[L.sets[i]].name, DS[L.sets[i]].fmt>> \notin L.files]_vars

(***************************************************************************)
(* `last` and the replies L.out describe the step that led to a state;     *)
(* nothing reads them afterwards (Step clears out first).  The VIEW of the *)
(* exhaustive check identifies states that differ only there; the action   *)
(* properties above speak about last' and L'.out and are evaluated by TLC  *)
(* on every generated transition, also those into a known state.           *)
(***************************************************************************)
View == <<[L EXCEPT !.out = <<>>], n, running, prof, hist>>

Terminal == ~running
\* the exported behaviour carries the tables DS / CV, so that the replay builds its requests from the specification
GenInv == ~(GenOn /\ Terminal) \/ PrintT("BEH " \o ToJson([steps |-> hist, recs |-> L.recs, prof |-> prof, ds |-> DS, cv |-> CV]))
=============================================================================
