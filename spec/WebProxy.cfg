SPECIFICATION Spec
CONSTANTS
  MaxMsgs = 7
  GenOn = FALSE
  ProxyId = 100
  WebSrc = 55
  PubId = 20
  Hostile = TRUE
  WConnect = 1
  WDeliver = 1
  WPub = 1
INVARIANT TypeOK
INVARIANT SubsAgree
INVARIANT PausedApart
INVARIANT ModuleIdKnown
INVARIANT ReplyDocumented
INVARIANT OnlyLoopWritesData
INVARIANT DeliveredOnceInOrder
INVARIANT FailedReported
INVARIANT FailedNamesProxy
INVARIANT ForwardKeepsSource
INVARIANT LoopEndsAfterDisconnect
INVARIANT NoWedge
INVARIANT FinishedIsDisconnected
INVARIANT LateDocumented
PROPERTY EndedOnlyFinishes
CHECK_DEADLOCK FALSE
