----------------------------- MODULE Codec_Trace -----------------------------
(* Trace validation for C10.  One record per (kind, value class, conversion path): the driver executed the path
   on every applicable message / struct class of the real code and reports, per step, the SET of observations
     "ok"       every class: the conversion succeeded (and at an object state the bytes equal the original)
     "differs"  some class: bytes differ at an object state        "raised"  some class: the conversion raised
     "refused"  some class: InvalidMessageDefinition (version refusal) was raised
     "shares"   some class: writing into the copy changed the source
     "skipped"  not executed (an earlier step of the path already failed)
   TLC follows the path with the actions of Codec.tla and evaluates the C10 clauses at every step. *)
EXTENDS Codec, IOUtils, TLCExt

Traces == ndJsonDeserialize(IOEnv.TRACE_FILE)
VARIABLES tid, l, st, bad
tvars == <<vars, tid, l, st, bad>>
Tr == Traces[tid]
Out(r) == PrintT("VERDICT " \o ToJson(r))

Act(e) ==
  CASE e.a = "ToBytes" -> AToBytes
    [] e.a = "FromBytes" -> AFromBytes
    [] e.a = "ToDict" -> AToDict
    [] e.a = "FromDict" -> AFromDict
    [] e.a = "ToJson" -> AToJson(e.p)
    [] e.a = "FromJson" -> AFromJson
    [] e.a = "DictToJson" -> ADictToJson
    [] e.a = "JsonToDict" -> AJsonToDict
    [] e.a = "MsgToJson" -> AMsgToJson(e.p)
    [] e.a = "MsgFromJson" -> AMsgFromJson
    [] e.a \in {"Copy", "MsgCopy"} -> ACopy(e.a)
    [] e.a = "MutateCopy" -> AMutateCopy
    [] e.a = "EditDict" -> AEditDict

TInit ==
  /\ tid \in 1..Len(Traces) /\ l = 1 /\ st = "run" /\ bad = {}
  /\ kind = Traces[tid].k /\ vcl = Traces[tid].v
  /\ rep = "obj" /\ cur = "v" /\ src = "none" /\ vc = "zero" /\ hist = <<>>

TNext ==
  /\ st = "run" /\ UNCHANGED tid
  /\ IF l > Len(Tr.path)
     THEN /\ Out([tid |-> Tr.tid, res |-> IF bad = {} THEN "ok" ELSE "fail", step |-> l - 1, props |-> bad])
          /\ st' = "done" /\ UNCHANGED <<vars, l, bad>>
     ELSE /\ Act(Tr.path[l])
          /\ bad' = bad \cup {<<l, x>> : x \in UNION {StepClauses(Tr.path[l].a, rep', Tr.obs[l][j]) : j \in DOMAIN Tr.obs[l]}}
          /\ l' = l + 1 /\ UNCHANGED st

TSpec == TInit /\ [][TNext]_tvars
=============================================================================
