SPECIFICATION Spec
CONSTANTS
  Graphs <- MCGraphs
  Export = FALSE
INVARIANT ReadOnce
INVARIANT DetectsExactly
INVARIANT RightClass
CHECK_DEADLOCK FALSE
