SPECIFICATION Spec
CONSTANTS
  MaxModules = 200
  MaxHosts = 5
  MaxCalls = 8
  GenOn = TRUE
INVARIANT GenInv
CHECK_DEADLOCK FALSE
