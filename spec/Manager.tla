------------------------------ MODULE Manager ------------------------------
(***************************************************************************)
(* The RTMA message manager (pyrtma/manager.py) as a state machine.        *)
(*                                                                         *)
(* One action per critical section of the code:                            *)
(*   BeginOp    - top of run(): accept at most one connection, take the    *)
(*                writability snapshot (wlist) for the round               *)
(*   ServiceOp  - read ONE frame from one ready connection and handle it   *)
(*                (connect / subscribe family / set-name / ready /         *)
(*                disconnect / short read / reset / forward)               *)
(*   EndOp      - bottom of run(): TIMING_MESSAGE, MESSAGE_TRAFFIC,        *)
(*                ACTIVE_CLIENTS timers                                    *)
(* Forwarding, removal, failure notices and acknowledgements are one       *)
(* family of mutually recursive set-valued operators mirroring             *)
(* forward_message / remove_module / send_failed_message / send_ack /      *)
(* send_to_loggers.  They return the SET of possible outcomes: the order   *)
(* in which one forward visits subscribers is an open choice.              *)
(*                                                                         *)
(* The hub state is ONE record H so that the same operators serve the      *)
(* model-checking modules (MC_*.tla), the behaviour generator and the      *)
(* trace validator (Manager_Trace.tla).                                    *)
(***************************************************************************)
EXTENDS Integers, Sequences, FiniteSets, SequencesExt, FiniteSetsExt, Functions, TLC

CONSTANTS
  MaxModules,     \* 200   highest valid destination module id
  DynStart,       \* 100   first dynamic id; explicit ids are 1..DynStart
  MaxHosts,       \* 5
  MaxMsgTypes,    \* 10000 size of the TIMING_MESSAGE count array
  TrafficChunk,   \* 64    entries per MESSAGE_TRAFFIC sub-message
  MaxActive,      \* 256   slots in ACTIVE_CLIENTS
  TimingOn,       \* BOOLEAN  manager started with send_msg_timing
  Modes           \* subset of {"inline","deferred","detach"}: when failure notices are published

(* protocol constants (core_defs.yaml) *)
ALL          == 2147483647
ACK          == 2
CONNECT_V2   == 4
FAILED       == 8
CONNECT      == 13
DISCONNECT   == 14
SUBSCRIBE    == 15
UNSUBSCRIBE  == 16
READY        == 26
TRAFFIC      == 30
ACTIVE       == 31
CLIENT_INFO  == 32
CLIENT_CLOSED == 33
SET_NAME     == 34
LOG_TYPES    == 40..45
TIMING       == 80
PAUSE        == 85
RESUME       == 86
NoNotice     == {FAILED} \cup LOG_TYPES
ControlTypes == {CONNECT, CONNECT_V2, DISCONNECT, SUBSCRIBE, UNSUBSCRIBE, PAUSE, RESUME, READY, SET_NAME}
ManagerName  == "message_manager"
TimingTicks  == 2     \* > 0.9 s   in ticks of 0.5 s
TrafficTicks == 3     \* > 1.0 s
InfoTicks    == 11    \* > 5.0 s
MaxDyn       == MaxModules - DynStart

B2I(b) == IF b THEN 1 ELSE 0
NoPay  == [k |-> "none"]

Hdr(t, src, dst, dhost, p) == [t |-> t, src |-> src, dst |-> dst, dhost |-> dhost, p |-> p]

(***************************************************************************)
(* Hub record                                                              *)
(*   mods   : connection -> module record                                  *)
(*   ord    : connections in registration order                            *)
(*   wl     : writability snapshot of the current round                    *)
(*   dead   : connections on which a write now fails                       *)
(*   mc, tc : per-type counters of the TIMING / TRAFFIC intervals          *)
(*   emit   : frames written in this step, per connection, in order        *)
(*   closed : connections closed in this step                              *)
(***************************************************************************)
NewMod(uid) == [st |-> "acc", id |-> 0, uniq |-> TRUE, name |-> "", logger |-> FALSE,
                daemon |-> FALSE, pid |-> 0, subs |-> {}, cnt |-> 0, uid |-> uid]

InitHub == [mods |-> <<>>, ord |-> <<>>, nextDyn |-> 0, uidc |-> 0, wl |-> {}, dead |-> {},
            mc |-> <<>>, tc |-> <<>>, tseq |-> 1, lastT |-> 0, lastTr |-> 0, lastI |-> 0,
            quiet |-> FALSE, mode |-> "inline", emit |-> <<>>, closed |-> {}]

Live(H) == DOMAIN H.mods
Loggers(H) == {m \in Live(H) : H.mods[m].st = "con" /\ H.mods[m].logger}
ClearObs(H) == [H EXCEPT !.emit = <<>>, !.closed = {}]

Inc(f, t) == IF t \in DOMAIN f THEN [f EXCEPT ![t] = @ + 1] ELSE f @@ (t :> 1)
Put(f, k, v) == IF k \in DOMAIN f THEN [f EXCEPT ![k] = v] ELSE f @@ (k :> v)
Drop(f, k) == [x \in (DOMAIN f) \ {k} |-> f[x]]

Count(H, h) == IF H.quiet THEN H
               ELSE [H EXCEPT !.mc = IF TimingOn THEN Inc(@, h.t) ELSE @, !.tc = Inc(@, h.t)]

InRange(h) == h.dst >= 0 /\ h.dst <= MaxModules /\ h.dhost >= 0 /\ h.dhost <= MaxHosts

Recips(H, h) == {m \in Live(H) : h.t \in H.mods[m].subs \/ ALL \in H.mods[m].subs}
PassFilter(H, m, h) == h.dst = 0 \/ H.mods[m].id = h.dst \/ H.mods[m].logger
CanAccept(H, m) == m \in H.wl \/ H.mods[m].logger

Deliver(H, m, h) ==
  LET f == [t |-> h.t, src |-> h.src, dst |-> h.dst, dhost |-> h.dhost,
            seq |-> H.mods[m].cnt + 1, p |-> h.p]
  IN [H EXCEPT !.mods[m].cnt = @ + 1,
               !.emit = IF m \in DOMAIN @ THEN [@ EXCEPT ![m] = Append(@, f)] ELSE @ @@ (m :> <<f>>)]

InfoPay(r) == [k |-> "ci", id |-> r.id, logger |-> B2I(r.logger), uniq |-> B2I(r.uniq),
               name |-> r.name, pid |-> r.pid, uid |-> r.uid]

(* notice discipline "detach": like "deferred", but every module whose write failed in this delivery is taken out of
   the subscription index BEFORE the first notice is published, so no notice about one of them is offered to another
   (C07: "stops treating it as a recipient at once").  Admitted next to "inline" and "deferred" (open choice 2.9).      *)
Detached(H, pend) ==
  LET D == {pend[i][2] : i \in {j \in DOMAIN pend : pend[j][1] = "dead"}} \cap Live(H)
  IN [H EXCEPT !.mods = [m \in DOMAIN @ |-> IF m \in D THEN [@[m] EXCEPT !.subs = {}] ELSE @[m]]]

RECURSIVE FwdAll(_, _), FwdSeq(_, _, _, _), Post(_, _, _), RemoveMod(_, _), Notify(_, _, _), Attempt(_, _, _)

(* forward_message *)
FwdAll(H0, h) ==
  LET H == Count(H0, h) IN
  IF ~InRange(h) THEN {H}
  ELSE LET R == Recips(H, h)
           risky == {m \in R : m \in H.dead \/ ~CanAccept(H, m)}
       IN IF risky = {} THEN FwdSeq(H, h, SetToSeq(R), <<>>)
          ELSE UNION {FwdSeq(H, h, p, <<>>) : p \in SetToSeqs(R)}

FwdSeq(H, h, p, pend) ==
  IF Len(p) = 0 THEN Post(IF H.mode = "detach" THEN Detached(H, pend) ELSE H, h, pend)
  ELSE LET m == Head(p)  rest == Tail(p) IN
    IF m \notin Live(H) THEN FwdSeq(H, h, rest, pend)                       \* removed meanwhile
    ELSE LET mid == H.mods[m].id IN
      IF ~CanAccept(H, m)
      THEN (* not ready, not a logger: dropped and reported.  If the destination filter would
              have excluded it anyway the report is optional (open choice).                  *)
           LET reported == IF H.mode = "inline"
                           THEN UNION {FwdSeq(H2, h, rest, pend) : H2 \in Notify(H, mid, h)}
                           ELSE FwdSeq(H, h, rest, Append(pend, <<"drop", m, mid>>))
           IN IF PassFilter(H, m, h) THEN reported ELSE reported \cup FwdSeq(H, h, rest, pend)
      ELSE IF ~PassFilter(H, m, h) THEN FwdSeq(H, h, rest, pend)
      ELSE IF m \in H.dead
           THEN IF H.mode = "inline"
                THEN UNION {FwdSeq(H2, h, rest, pend) : H2 \in Attempt(H, m, h)}
                ELSE FwdSeq(H, h, rest, Append(pend, <<"dead", m, mid>>))
           ELSE FwdSeq(Deliver(H, m, h), h, rest, pend)

(* a write to m failed: remove it, then report *)
Attempt(H, m, h) ==
  LET mid == H.mods[m].id IN UNION {Notify(H2, mid, h) : H2 \in RemoveMod(H, m)}

(* deferred notices, published after the delivery loop in loop order *)
Post(H, h, pend) ==
  IF Len(pend) = 0 THEN {H}
  ELSE LET e == Head(pend)  rest == Tail(pend) IN
    IF e[1] = "dead" /\ e[2] \in Live(H)
    THEN UNION {Post(H2, h, rest) : H2 \in Attempt(H, e[2], h)}
    ELSE UNION {Post(H2, h, rest) : H2 \in Notify(H, e[3], h)}

(* remove_module + send_client_close: erase everywhere, close, publish exactly one CLIENT_CLOSED *)
RemoveMod(H, m) ==
  LET r == H.mods[m]
      H1 == [H EXCEPT !.mods = Drop(@, m), !.ord = SelectSeq(@, LAMBDA x : x # m),
                      !.closed = @ \cup {m}, !.dead = @ \ {m}]
  IN FwdAll(H1, Hdr(CLIENT_CLOSED, 0, 0, 0, InfoPay(r)))

(* send_failed_message with its recursion guard *)
Notify(H, mid, h) ==
  IF h.t \in NoNotice THEN {H}
  ELSE FwdAll(H, Hdr(FAILED, 0, 0, 0, [k |-> "failed", mid |-> mid, ft |-> h.t, fsrc |-> h.src, fdst |-> h.dst]))

(* send_to_loggers: same notice timing as forward_message *)
RECURSIVE LogSeq(_, _, _, _)
LogSeq(H, h, p, pend) ==
  IF Len(p) = 0 THEN Post(IF H.mode = "detach" THEN Detached(H, pend) ELSE H, h, pend)
  ELSE LET m == Head(p)  rest == Tail(p) IN
    IF m \notin Live(H) THEN LogSeq(H, h, rest, pend)
    ELSE IF m \in H.dead
         THEN IF H.mode = "inline"
              THEN UNION {LogSeq(H2, h, rest, pend) : H2 \in Attempt(H, m, h)}
              ELSE LogSeq(H, h, rest, Append(pend, <<"dead", m, H.mods[m].id>>))
    ELSE LogSeq(Deliver(H, m, h), h, rest, pend)

ToLoggers(H, h, L) ==
  IF L \cap H.dead = {} THEN LogSeq(H, h, SetToSeq(L), <<>>)
  ELSE UNION {LogSeq(H, h, p, <<>>) : p \in SetToSeqs(L)}

(* MessageManager.send_ack: direct to the requester, then a copy to every logger.  A requester
   that is itself a logger may get one or two (open choice). *)
Ack(H, c) ==
  LET h == Hdr(ACK, 0, H.mods[c].id, 0, NoPay)
      direct == IF c \in H.dead THEN Attempt(H, c, h) ELSE {Deliver(H, c, h)}
  IN UNION {ToLoggers(H2, h, Loggers(H2)) \cup
            (IF c \in Loggers(H2) THEN ToLoggers(H2, h, Loggers(H2) \ {c}) ELSE {}) : H2 \in direct}

ClientInfo(H, r) == FwdAll(H, Hdr(CLIENT_INFO, 0, 0, 0, InfoPay(r)))

(***************************************************************************)
(* Identity                                                                *)
(***************************************************************************)
IdsInUse(H) == {H.mods[m].id : m \in Live(H)} \cup {0}

(* assign_module_id: first free id in cyclic order from the cursor *)
DynOffsets(H) == {o \in 0..(MaxDyn - 1) : (DynStart + o) \notin IdsInUse(H)}
DynDist(H, o) == (o - H.nextDyn + MaxDyn) % MaxDyn
DynPick(H) == CHOOSE o \in DynOffsets(H) : \A o2 \in DynOffsets(H) : DynDist(H, o) <= DynDist(H, o2)

Conflict(H, c) ==
  LET r == H.mods[c] IN
  \/ \E m \in Live(H) \ {c} :
        \/ H.mods[m].id = r.id /\ (H.mods[m].uniq \/ r.uniq)
        \/ r.name # "" /\ (H.mods[m].uniq \/ r.uniq) /\ H.mods[m].name = r.name
  \/ r.name = ManagerName       \* the manager's own module is unique and named

Accept(H, c) ==
  LET H1 == [H EXCEPT !.mods[c].st = "con"]
      r == H1.mods[c]
  IN UNION {ClientInfo(H2, r) : H2 \in Ack(H1, c)}

ConnectOp(H, c, f) ==
  LET r == H.mods[c] IN
  IF r.st = "con" THEN {H}                          \* CONNECT after CONNECT_V2: ignored, no ack
  ELSE
    LET v2 == f.p.k = "con2"
        r1 == [r EXCEPT !.id = IF v2 THEN f.p.id ELSE f.src,
                        !.uniq = IF v2 THEN f.p.multi = 0 ELSE @,
                        !.name = IF v2 THEN f.p.name ELSE @,
                        !.pid = IF v2 THEN f.p.pid ELSE @,
                        !.logger = (f.p.logger = 1), !.daemon = (f.p.daemon = 1)]
        H1 == [H EXCEPT !.mods[c] = r1]
    IN IF r1.id # 0
       THEN IF r1.id < 1 \/ r1.id > DynStart \/ Conflict(H1, c) THEN RemoveMod(H1, c) ELSE Accept(H1, c)
       ELSE IF DynOffsets(H1) = {} THEN RemoveMod(H1, c)
            ELSE LET o == DynPick(H1) IN
                 Accept([H1 EXCEPT !.mods[c].id = DynStart + o, !.nextDyn = (o + 1) % MaxDyn], c)

SubOp(H, c, f) ==
  LET add == f.t \in {SUBSCRIBE, RESUME}
      t == f.p.mt
      s == H.mods[c].subs
      s2 == IF t = ALL THEN (IF add THEN {ALL} ELSE {})
            ELSE IF ALL \in s THEN s                 \* individual requests ignored while subscribed to all
            ELSE IF add THEN s \cup {t} ELSE s \ {t}
  IN Ack([H EXCEPT !.mods[c].subs = s2], c)

(***************************************************************************)
(* The three actions                                                       *)
(***************************************************************************)
BeginOp(H0, acc, nread, W) ==
  LET H == ClearObs(H0)
      H1 == IF acc = "" THEN H
            ELSE [H EXCEPT !.mods = @ @@ (acc :> NewMod(H.uidc + 1)), !.ord = Append(@, acc), !.uidc = @ + 1]
  IN [H1 EXCEPT !.wl = IF acc = "" /\ nread = 0 THEN @ ELSE IF nread > 0 THEN W ELSE {}]

(* item: [k |-> "f", t, src, dst, dhost, p]  |  [k |-> "fin"]  |  [k |-> "rst"]  |  [k |-> "badlen"] *)
ServiceOp(H0, c, item) ==
  LET H == ClearObs(H0) IN
  IF c \notin Live(H) THEN {H}
  ELSE IF item.k \in {"fin", "rst"} THEN RemoveMod(H, c)
  ELSE IF item.k = "badlen" THEN RemoveMod(H, c) \cup {H}      \* hostile: close the offender or ignore it
  ELSE
    CASE item.t \in {CONNECT, CONNECT_V2} /\ item.p.k \in {"con", "con2"} -> ConnectOp(H, c, item)
      [] item.t = DISCONNECT -> RemoveMod(H, c)
      [] item.t \in {SUBSCRIBE, UNSUBSCRIBE, PAUSE, RESUME} /\ item.p.k = "sub" -> SubOp(H, c, item)
      [] item.t = SET_NAME /\ item.p.k = "name" ->
            LET H1 == [H EXCEPT !.mods[c].name = item.p.name] IN ClientInfo(H1, H1.mods[c])
      [] item.t = READY /\ item.p.k = "rdy" ->
            LET H1 == [H EXCEPT !.mods[c].pid = item.p.pid] IN ClientInfo(H1, H1.mods[c])
      [] item.t \in ControlTypes /\ item.p.k = "bad" -> RemoveMod(H, c) \cup {H}
      [] OTHER -> FwdAll(H, Hdr(item.t, item.src, item.dst, item.dhost, item.p))

(* statistics *)
SortedKeys(f) == SortSeq(SetToSeq(DOMAIN f), LAMBDA a, b : a < b)
Pairs(f, keys) == [i \in 1..Len(keys) |-> <<keys[i], f[keys[i]]>>]

TimingPay(H) ==
  LET inr == {t \in DOMAIN H.mc : t >= 0 /\ t < MaxMsgTypes}
      ks == SortSeq(SetToSeq(inr), LAMBDA a, b : a < b)
      ids == {H.mods[m].id : m \in {x \in Live(H) : H.mods[x].id # 0 /\ H.mods[x].pid # 0}}
      ik == SortSeq(SetToSeq(ids), LAMBDA a, b : a < b)
      \* ids shared by several instances: the last registered holder (dict order)
      holder(i) == LET hs == SelectSeq(H.ord, LAMBDA x : H.mods[x].id = i) IN H.mods[hs[Len(hs)]].pid
  IN [k |-> "timing", counts |-> [i \in 1..Len(ks) |-> <<ks[i], H.mc[ks[i]]>>],
      pids |-> [i \in 1..Len(ik) |-> <<ik[i], holder(ik[i])>>]]

Quietly(S) == {[H2 EXCEPT !.quiet = FALSE] : H2 \in S}

SendTiming(H, now) ==
  LET p == TimingPay(H)
      H1 == [H EXCEPT !.mc = <<>>, !.quiet = TRUE, !.lastT = now]
  IN Quietly(FwdAll(H1, Hdr(TIMING, 0, 0, 0, p)))

RECURSIVE TrafficSeq(_, _, _, _)
TrafficSeq(H, ents, j, seqno) ==      \* one sub-message per TrafficChunk entries
  IF (j - 1) * TrafficChunk >= Len(ents) THEN {H}
  ELSE LET lo == (j - 1) * TrafficChunk + 1
           hi == IF j * TrafficChunk < Len(ents) THEN j * TrafficChunk ELSE Len(ents)
           p == [k |-> "traffic", seqno |-> seqno, sub |-> j, ent |-> SubSeq(ents, lo, hi)]
       IN UNION {TrafficSeq(H2, ents, j + 1, seqno) : H2 \in FwdAll(H, Hdr(TRAFFIC, 0, 0, 0, p))}

SendTraffic(H, now) ==
  LET ents == Pairs(H.tc, SortedKeys(H.tc))
      H1 == [H EXCEPT !.quiet = TRUE]
  IN {[H2 EXCEPT !.quiet = FALSE, !.tc = <<>>, !.lastTr = now, !.tseq = @ + 1] :
         H2 \in TrafficSeq(H1, ents, 1, H.tseq)}

RECURSIVE InfoSeq(_, _)
InfoSeq(H, recs) == IF Len(recs) = 0 THEN {H}
                    ELSE UNION {InfoSeq(H2, Tail(recs)) : H2 \in ClientInfo(H, Head(recs))}

MgrRec == [NewMod(0) EXCEPT !.st = "con", !.name = ManagerName]

SendActive(H, now) ==
  LET recs == <<MgrRec>> \o [i \in 1..Len(H.ord) |-> H.mods[H.ord[i]]]
      ids == [i \in 1..Len(H.ord) |-> H.mods[H.ord[i]].id]
      p == [k |-> "active", n |-> Len(H.ord), ids |-> ids]
  IN UNION {FwdAll([H2 EXCEPT !.lastI = now], Hdr(ACTIVE, 0, 0, 0, p)) : H2 \in InfoSeq(H, recs)}

EndOp(H, now) ==
  LET S1 == IF TimingOn /\ now - H.lastT >= TimingTicks THEN SendTiming(H, now) ELSE {H}
      S2 == UNION {IF now - H2.lastTr >= TrafficTicks THEN SendTraffic(H2, now) ELSE {H2} : H2 \in S1}
  IN UNION {IF now - H3.lastI >= InfoTicks THEN SendActive(H3, now) ELSE {H3} : H3 \in S2}

(* all outcomes of a step under every admitted notice timing *)
WithModes(H, Op(_)) == UNION {Op([H EXCEPT !.mode = md]) : md \in Modes}

(***************************************************************************)
(* Properties, stated on one step  H --(c, item)--> H2                     *)
(***************************************************************************)
(* C01: who is entitled to a published frame, written independently of FwdSeq *)
Eligible(H, h) ==
  IF ~InRange(h) THEN {}
  ELSE {m \in Live(H) : /\ (h.t \in H.mods[m].subs \/ ALL \in H.mods[m].subs)
                        /\ (m \in H.wl \/ H.mods[m].logger)
                        /\ m \notin H.dead
                        /\ (h.dst = 0 \/ H.mods[m].id = h.dst \/ H.mods[m].logger)}

Copies(H2, m, h) ==
  IF m \in DOMAIN H2.emit
  THEN Cardinality({i \in 1..Len(H2.emit[m]) :
          LET f == H2.emit[m][i] IN f.t = h.t /\ f.src = h.src /\ f.dst = h.dst /\ f.dhost = h.dhost /\ f.p = h.p})
  ELSE 0

RoutingExact(H, h, H2) ==
  \A m \in Live(H) \cup DOMAIN H2.emit : Copies(H2, m, h) = (IF m \in Eligible(H, h) THEN 1 ELSE 0)

(* C05: sequence numbers continue the pre-state counters without gaps *)
PreCnt(H, m) == IF m \in Live(H) THEN H.mods[m].cnt ELSE 0
SeqGapFree(H, H2) ==
  \A m \in DOMAIN H2.emit : \A i \in 1..Len(H2.emit[m]) : H2.emit[m][i].seq = PreCnt(H, m) + i

(* C05: two receivers see the frames they have in common in the same relative order *)
NoSeq(f) == [t |-> f.t, src |-> f.src, dst |-> f.dst, dhost |-> f.dhost, p |-> f.p]
SameOrder(s1, s2) ==
  \A i, j \in 1..Len(s1) : \A k, l \in 1..Len(s2) :
     (i < j /\ NoSeq(s1[i]) = NoSeq(s2[l]) /\ NoSeq(s1[j]) = NoSeq(s2[k]) /\ NoSeq(s1[i]) # NoSeq(s1[j])) => l < k
TotalOrder(H2) == \A a, b \in DOMAIN H2.emit : a # b => SameOrder(H2.emit[a], H2.emit[b])

(* C06 *)
UniqueIds(H) ==
  \A a, b \in Live(H) : (a # b /\ H.mods[a].st = "con" /\ H.mods[b].st = "con" /\ H.mods[a].id = H.mods[b].id)
                          => (~H.mods[a].uniq /\ ~H.mods[b].uniq)
IdsValid(H) == \A a \in Live(H) : H.mods[a].st = "con" => H.mods[a].id \in 1..(MaxModules - 1)

(* C07 *)
NothingToClosed(H2) == \A m \in H2.closed : m \notin Live(H2) /\ m \notin H2.wl \cap {}
ClosedNoticeFor(H, H2, m) ==   \* number of CLIENT_CLOSED frames describing m that some live monitor got
  LET r == H.mods[m] IN
  {x \in DOMAIN H2.emit : \E i \in 1..Len(H2.emit[x]) : H2.emit[x][i].t = CLIENT_CLOSED /\ H2.emit[x][i].p.uid = r.uid}

(* C19: exactly one ACK to the requester, addressed to it *)
AckCount(H2, c) ==
  IF c \in DOMAIN H2.emit THEN Cardinality({i \in 1..Len(H2.emit[c]) : H2.emit[c][i].t = ACK /\ H2.emit[c][i].src = 0}) ELSE 0

=============================================================================
