SPECIFICATION TSpec
CONSTANTS
  Lens = {2}
  SliceLens = {2}
  StrLens = {2}
  MaxDepth = 1000
  MaxSteps = 1000
  Mode = "trace"
  RestoreOnException = TRUE
  HandleCaptures = FALSE
  SwitchShared = FALSE
CHECK_DEADLOCK FALSE
