SPECIFICATION TSpec
CONSTANTS
  MaxModules = 200
  DynStart = 100
  MaxHosts = 5
  MaxMsgTypes = 10000
  TrafficChunk = 64
  MaxActive = 256
  TimingOn = TRUE
  Modes = {"deferred"}
  Types = {101, 102, 103}
  Outside = 199
  MaxLen = 3
  MaxOps = 100
  GenOn = FALSE
CHECK_DEADLOCK FALSE
