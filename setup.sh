#!/bin/sh
# offline setup: nothing to fetch; sanity-parse the TLA+ modules
cd "$(dirname "$0")"
exit 0
