#!/bin/sh
# Offline setup: nothing is fetched or built.  Sanity: every TLA+ module parses (SANY), the harness imports pyrtma from /repo.
cd "$(dirname "$0")" || exit 1
rc=0
cd spec
jt=$(mktemp -d)
export JAVA_TOOL_OPTIONS="-Djava.io.tmpdir=$jt"
for m in Manager_Trace MC_Routing MC_Identity MC_Failures MC_Stats MC_Hostile ClientSys_Trace ClientRead_Trace MC_Layout MC_Imports HashCanon MC_Defs \
         Validation_Trace Codec_Trace DataLogger_Trace ClientSend ClientIdent WebProxy LoggerCtl; do
  if [ -f "$m.tla" ]; then
    if ! tla-sany "$m.tla" > /tmp/sany_$$.log 2>&1; then echo "SANY failed on $m"; tail -5 /tmp/sany_$$.log; rc=1; fi
  fi
done
rm -f /tmp/sany_$$.log
rm -rf "$jt"
unset JAVA_TOOL_OPTIONS
cd ..
/venv/bin/python -c "import sys; sys.path.insert(0, '/repo/src'); import pyrtma, pyrtma.manager, pyrtma.client, pyrtma.parser" || rc=1
exit $rc
