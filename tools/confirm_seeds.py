#!/usr/bin/env python3
"""Confirm every seeded change in a scratch worktree of /repo (outside /repo and /verif):
demo passes on the clean tree, fails with the patch, existing test suite passes with the patch."""
import json, os, subprocess, sys, shutil, glob
from concurrent.futures import ThreadPoolExecutor
SRC = sys.argv[1] if len(sys.argv) > 1 else "/root/seeds_in"
OUT = SRC + "/confirm.json"

def sh(cmd, cwd, timeout, env=None):
    try:
        r = subprocess.run(cmd, cwd=cwd, capture_output=True, text=True, timeout=timeout, env=env)
        return r.returncode, (r.stdout + r.stderr)[-1500:]
    except subprocess.TimeoutExpired:
        return -9, "timeout"

def one(job):
    sid, d = job
    wt = f"/tmp/confirm{abs(hash(SRC))%1000}_{sid.replace('/', '_')}"
    subprocess.run(["git", "-C", "/repo", "worktree", "add", "-q", "--detach", wt, "HEAD"], check=True)
    res = {"seed": sid}
    try:
        patch = os.path.join(d, "patch.rebased.diff") if os.path.exists(os.path.join(d, "patch.rebased.diff")) else os.path.join(d, "patch.diff")
        demo = os.path.join(d, "demo.rebased.py") if os.path.exists(os.path.join(d, "demo.rebased.py")) else os.path.join(d, "demo.py")
        res["patch"], res["demo"] = os.path.basename(patch), os.path.basename(demo)
        env = dict(os.environ, PYTHONPATH=wt + "/src")
        rc, out = sh(["git", "apply", "--check", patch], wt, 60)
        res["applies"] = rc == 0
        if rc != 0:
            res["apply_err"] = out
            return res
        # demos reference their own location as <worktree>/_seed/<x>/demo.py
        sd = os.path.join(wt, "_seed", sid.split("/")[1])
        os.makedirs(sd, exist_ok=True)
        shutil.copy(demo, os.path.join(sd, "demo.py"))
        res["demo_clean_rc"], res["demo_clean_out"] = sh(["/venv/bin/python", os.path.join(sd, "demo.py")], wt, 300, env)
        sh(["git", "apply", patch], wt, 60)
        res["demo_patched_rc"], res["demo_patched_out"] = sh(["/venv/bin/python", os.path.join(sd, "demo.py")], wt, 300, env)
        for attempt in range(3):
            rc, out = sh(["/venv/bin/python", "-m", "pytest", "-q", "-p", "no:cacheprovider", "--timeout=900"], wt, 900, env)
            res["suite_rc"], res["suite_tail"] = rc, out[-300:]
            if rc == 0:
                break
    finally:
        subprocess.run(["git", "-C", "/repo", "worktree", "remove", "--force", wt])
    return res

jobs = []
for p in sorted(glob.glob(SRC + "/C*/[ab]")):
    jobs.append(("/".join(p.split("/")[-2:]), p))
with ThreadPoolExecutor(max_workers=5) as ex:
    results = list(ex.map(one, jobs))
json.dump(results, open(OUT, "w"), indent=1)
for r in results:
    print(r["seed"], r.get("applies"), r.get("demo_clean_rc"), r.get("demo_patched_rc"), r.get("suite_rc"))
