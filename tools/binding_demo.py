#!/venv/bin/python
"""Demonstrate that the trace specification is bound to the observations: take accepted executions of the real manager,
corrupt ONE recorded field (or drop one frame) and show that TLC rejects the trace and names the right property."""
import copy, json, os, sys
sys.path.insert(0, os.path.dirname(os.path.dirname(os.path.abspath(__file__))))
os.environ.setdefault("PYTHONHASHSEED", "0")
from vf import engine, scenarios
from vf.replay import Profile, replay

beh = scenarios.two_loggers(0, 0)[0]
with engine.Quiet():
    h = replay(beh, Profile(0, log_level=100))
base = h.events

def find(pred):
    global base
    for i, e in enumerate(base):
        for c, fs in (e.get("emit") or {}).items():
            for j, f in enumerate(fs):
                if pred(e, c, f):
                    return i, c, j
    raise SystemExit("no such frame")

cases = []
i, c, j = find(lambda e, c, f: f["t"] == 2)
t = copy.deepcopy(base); t[i]["emit"][c][j]["dst"] += 1
cases.append(("ACK addressed to another module id", t, "C19"))
t = copy.deepcopy(base); del t[i]["emit"][c][j]
cases.append(("one ACK frame dropped from the record (not renumbered)", t, "C"))
i, c, j = find(lambda e, c, f: f["p"].get("k") == "d")
t = copy.deepcopy(base); t[i]["emit"][c][j]["p"]["id"] = -1
cases.append(("payload of a delivered data frame altered", t, "C01"))
t = copy.deepcopy(base); t[i]["emit"][c].append(dict(t[i]["emit"][c][j], seq=t[i]["emit"][c][-1]["seq"] + 1))
cases.append(("data frame delivered twice", t, "C01"))
t = copy.deepcopy(base); t[i]["emit"][c][j]["seq"] += 1
cases.append(("sequence number skipped", t, "C05"))
with engine.Quiet():
    h2 = replay(scenarios.connect_matrix(0, 1)[0], Profile(0, log_level=100))
base_routing, base = base, h2.events
i, c, j = find(lambda e, c, f: f["t"] == 32 and f["p"].get("k") == "ci")
t = copy.deepcopy(base); t[i]["emit"][c][j]["p"]["logger"] = 1 - t[i]["emit"][c][j]["p"]["logger"]
cases.append(("CLIENT_INFO reports the wrong logger flag", t, "C06"))
i, c, j = find(lambda e, c, f: f["t"] == 33 and f["p"].get("k") == "ci") if any(f["t"] == 33 for e in base for fs in (e.get("emit") or {}).values() for f in fs) else (None, None, None)
if i is not None:
    t = copy.deepcopy(base); t[i]["emit"][c].append(copy.deepcopy(t[i]["emit"][c][j])); t[i]["emit"][c][-1]["seq"] = t[i]["emit"][c][-2]["seq"] + 1
    cases.append(("CLIENT_CLOSED published twice", t, "C07"))
base = base_routing
traces = [{"tid": 1, "ev": base}] + [{"tid": k + 2, "ev": t} for k, (_, t, _) in enumerate(cases)]
v = engine.run_and_validate(traces)
ok = v[1]["res"] == "ok"
print(f"unmodified trace: {v[1]['res']} ({v[1]['step']} events)")
for k, (what, _, want) in enumerate(cases):
    r = v[k + 2]
    hit = r["res"] == "fail" and any(p.startswith(want) for p in r["props"])
    ok &= hit
    print(f"{'REJECTED' if r['res'] == 'fail' else 'accepted'} at step {r.get('step')} {r.get('props')}  <- {what} (expected {want})")
sys.exit(0 if ok else 1)
