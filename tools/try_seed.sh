#!/bin/sh
# tools/try_seed.sh <patch.diff> <check id> [more check args]  -- apply a seeded change to /repo, run a check, undo
patch="$1"; shift
cd /repo || exit 2
if ! git apply --check "$patch" 2>/dev/null; then echo "PATCH-DOES-NOT-APPLY $patch"; exit 3; fi
git apply "$patch" || exit 3
cd /verif
./check "$@"; rc=$?
cd /repo && git checkout -q -- . && git status --short | grep -v '^??' 
echo "rc=$rc"
exit $rc
