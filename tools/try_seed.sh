#!/bin/sh
# tools/try_seed.sh <patch.diff> <check id> [more check args]
# apply a seeded change to a scratch worktree of /repo's HEAD (outside /repo and /verif), run the check against it, remove the worktree.
patch="$1"; shift
wt=/tmp/seedwt_$$
git -C /repo worktree add -q --detach "$wt" HEAD || exit 2
if ! git -C "$wt" apply --check "$patch" 2>/dev/null; then echo "PATCH-DOES-NOT-APPLY $patch"; git -C /repo worktree remove --force "$wt"; exit 3; fi
git -C "$wt" apply "$patch"
cd /verif
VF_REPO="$wt" ./check "$@"; rc=$?
git -C /repo worktree remove --force "$wt"
echo "rc=$rc"
exit $rc
