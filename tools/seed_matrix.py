#!/usr/bin/env python3
"""Run every collected seeded change against the check of its property (quick tier), in scratch worktrees, a few at a time."""
import glob, json, os, subprocess, sys
from concurrent.futures import ThreadPoolExecutor
jobs = []
for rnd, base in (("r1", "/root/seeds_in"), ("r2", "/root/seeds_in2"), ("r3", "/root/seeds_in3"), ("r4", "/root/seeds_in4"), ("r5", "/root/seeds_in5"), ("r6", "/root/seeds_in6"), ("r7", "/root/seeds_in7"), ("r8", "/root/seeds_in8"), ("r9", "/root/seeds_in9")):
    for d in sorted(glob.glob(base + "/C*/[ab]")):
        prop, x = d.split("/")[-2:]
        patch = os.path.join(d, "patch.rebased.diff") if os.path.exists(os.path.join(d, "patch.rebased.diff")) else os.path.join(d, "patch.diff")
        jobs.append((rnd, prop, x, patch))
only = sys.argv[1:] 
if only:
    jobs = [j for j in jobs if j[1] in only or j[0] in only or f"{j[0]}:{j[1]}/{j[2]}" in only]

def one(j):
    rnd, prop, x, patch = j
    try:
        r = subprocess.run(["/verif/tools/try_seed.sh", patch, prop], capture_output=True, text=True, timeout=3000)
    except subprocess.TimeoutExpired:
        return {"round": rnd, "seed": f"{prop}/{x}", "patch": os.path.basename(patch), "rc": "timeout", "signatures": [], "tail": ["TIMEOUT"]}
    lines = [l for l in r.stdout.splitlines() if l.startswith(("VIOLATION", prop + ":", "PATCH", "MACHINERY"))]
    sigs = sorted({l.split("signature=")[1] for l in lines if "signature=" in l})
    return {"round": rnd, "seed": f"{prop}/{x}", "patch": os.path.basename(patch), "rc": r.returncode, "signatures": sigs[:6], "tail": lines[-1:] }

with ThreadPoolExecutor(max_workers=int(os.environ.get('SEED_JOBS', '3'))) as ex:
    res = list(ex.map(one, jobs))
# merge with earlier results (a filtered run replaces only its own rows)
old = json.load(open("/root/seed_matrix.json")) if os.path.exists("/root/seed_matrix.json") else []
mine = {(r["round"], r["seed"]) for r in res}
res = [r for r in old if (r["round"], r["seed"]) not in mine] + res
res.sort(key=lambda r: (r["round"], r["seed"]))
json.dump(res, open("/root/seed_matrix.json", "w"), indent=1)
for r in res:
    print(r["round"], r["seed"], r["patch"], "rc=%s" % r["rc"], (r["signatures"] or r["tail"])[:2])
