#!/usr/bin/env python3
"""Regenerate /verif/MANIFEST.json from the table below (single place to edit)."""
import json, os
ROOT = os.path.dirname(os.path.dirname(os.path.abspath(__file__)))
props = [json.loads(l) for l in open(os.path.join(ROOT, "properties.jsonl"))]

HUB_NOTE = ("Trusted base: TLC, Manager.tla/MCBase.tla, the vio virtual I/O layer (in-memory sockets, scripted "
            "select, virtual clock) as a model of the kernel, the frame projection in vf/frames.py. Bounded: "
            "family constants in vf/families.py; replayed behaviours are sampled (TLC -simulate) plus enumerated matrices.")

CHECKS = {
    "C01": ("model_checking", "TLC model checking of Manager.tla (family Routing) + replay of TLC behaviours on the real manager + TLC trace validation",
            "TLC proves RoutingExact (declarative Eligible set vs operational forward) for every service order, writable subset and peer death within the Routing family; TLC-generated behaviours are executed on the real MessageManager over a deterministic virtual network and every recorded execution is validated step by step by TLC against Manager_Trace (per-connection multiset of data copies incl. payload identity and header pass-through).", "DESIGN.md 3/C01", HUB_NOTE),
    "C04": ("translation_validation", "TLC enumerates programs of Defs.tla and computes the expected Signature from its own native type table and LayoutOps!Pad; the real compiler's Python / C / JavaScript / MATLAB outputs are loaded in their language and each extracted signature is compared with the specification's",
            "Each back end is compared with an independent witness (the TLA+ signature), not only with its siblings: ids, hashes, constants (incl. constant expressions with division), module/host ids, field names and order, element class / width / signedness, array lengths, offsets, sizeof / _Alignof from gcc, ctypes sizes and type_size.", "DESIGN.md 3/C04", "Trusted base: TLC, Defs.tla/LayoutOps.tla (own native type table and padding function), vf/defs.py extractors (ctypes import in a subprocess, gcc-built probe, node, interpreter of the MATLAB assignment grammar), gcc 12 x86-64 ABI. Program family: the Defs.tla skeleton with every native name rotated through every role."),
    "C05": ("model_checking", "TLC model checking (Routing, Failures; TotalOrder under deferred notices) + trace validation with sequence-number and order clauses evaluated on every observed step",
            "SeqGapFree and TotalOrder are action properties of the spec checked by TLC over all interleavings in the bound (TLC also shows that publishing notices inline violates TotalOrder); on the real code every observed step is checked for gap-free msg_count per connection, whole frames, and identical relative order of common frames between any two receivers.", "DESIGN.md 3/C05", HUB_NOTE),
    "C06": ("model_checking", "TLC model checking of connect/identity clauses (family Identity, wrapping dynamic cursor) + exhaustive connect-decision matrix replayed on the real manager + trace validation",
            "PConnectOutcome (declarative refusal / acceptance / dynamic-id rule), UniqueIds, InfoHonest checked by TLC on all connect/disconnect histories of the bound; the 16^3 request-class matrix and TLC behaviours are executed on the real manager and validated by TLC (ACK address, CLIENT_INFO content, refusal closes only the requester).", "DESIGN.md 3/C06", HUB_NOTE),
    "C07": ("model_checking", "TLC model checking (Identity, Routing, Failures) + leave-and-reuse matrix + trace validation of CLIENT_CLOSED notices, closures and survivor deliveries",
            "NoTrace / exactly-one CLIENT_CLOSED / reusable id+name are action properties checked by TLC for every way of leaving within the bound; every departure way x protocol stage is executed on the real manager, followed by an immediate reconnect with the same identity and a probe publish, and validated by TLC.", "DESIGN.md 3/C07", HUB_NOTE),
    "C08": ("model_checking", "TLC model checking of ClientRead.tla (ReadOp over frame-class streams, cuts, subscription changes) + TLC-generated behaviours executed with a real Client on a scripted socket + TLC trace validation of every read_message call",
            "NeverUnsubscribed, ErrorConsumesOffender, InOrder, LossReported, NoSilentLoss are invariants checked by TLC over all streams of the bound; on the real Client each call's result is compared byte-for-byte with the frame that was put on the wire (header except recv_time, payload), the exception class, the connected flag and the exact set of whole frames left unread, under several segment sizes and both header layouts.", "DESIGN.md 3/C08",
            "Trusted base: TLC, ClientRead.tla, vf/readdrv.py scripted socket (MSG_WAITALL short read on FIN, ConnectionResetError on RST, segmented non-WAITALL reads). Reads that would block forever are excluded."),
    "C11": ("model_checking", "TLC checks the layout theorems of Layout.tla for every field sequence of the bound and exports the expected padded layout per sequence; one implementation test per exported sequence on the real parser (+ gcc _Static_assert)",
            "Natural / OnlyCharPadding / UserFieldsPreserved / Minimal / NoPadIffAccepted are checked by TLC for all 22k sequences over widths 1/2/4/8 x array shapes x nested structs (alignment 1/2/4/8, incl. field-list reuse) and around the 65535-byte limit; each exported sequence is parsed by the real parser with auto_pad on (field list, offsets, size, alignment must equal the spec's) and off (accepted iff no padding needed); accepted layouts are compiled to C and asserted with gcc.", "DESIGN.md 3/C11", "Trusted base: TLC, the TLA+ module, the YAML materialisation in vf/defs.py and the property module, gcc 12 (x86-64) as reference C layout. The real parser/compiler is run from /repo/src in-process; bounded alphabets as stated in the evidence."),
    "C12": ("model_checking", "TLC proves traversal == declarative closure semantics on Imports.tla for a catalogue of 51k cases and exports them; each case is materialised as YAML files (nested directories, varied import path spellings) and parsed by the real parser",
            "ReadOnce / DetectsExactly / RightClass are invariants over 10 import-graph shapes (diamond, repeated, cyclic, self import, cousins) x placements of two planted items x 9 kinds x {unrelated, same name, same id, both}; the real parser must raise the specified error class or register exactly the items of the reached files (each file once); id-range boundaries are checked with the core definitions loaded.", "DESIGN.md 3/C12", "Trusted base: TLC, the TLA+ module, the YAML materialisation in vf/defs.py and the property module, gcc 12 (x86-64) as reference C layout. The real parser/compiler is run from /repo/src in-process; bounded alphabets as stated in the evidence."),
    "C13": ("model_checking", "TLC checks on HashCanon.tla that edits change the canonical key and noise does not, exports edit/relocation behaviours; every version is compiled by the real compiler: equal hash <=> equal canonical key, same value in all four outputs (also after in-place rebuilds), stamped into header.version by a real Client (also after reloading regenerated definitions)",
            "EditChanges / NoiseKeeps are action properties checked by TLC; versions of one definition (rename, id change, field rename/retype/insert/delete/swap, signal<->message; comments, blank lines, unrelated definitions, moves into imported / sub-directory / nested-import files, import order, hex id, other process with another PYTHONHASHSEED and cwd) are compiled and compared pairwise.", "DESIGN.md 3/C13", "Trusted base: TLC, the TLA+ module, the YAML materialisation in vf/defs.py and the property module, gcc 12 (x86-64) as reference C layout. The real parser/compiler is run from /repo/src in-process; bounded alphabets as stated in the evidence."),
    "C14": ("model_checking", "TLC model checking (Routing, Failures: every writable subset, up to two dead peers) + replay with scripted select / failing writes + trace validation of FAILED_MESSAGE notices",
            "FailureReported, LoggerWaitedFor, NoNoticeForNotices checked by TLC for every readiness schedule in the bound; the harness makes select report exactly the chosen writable set and makes chosen writes fail on the real manager; TLC validates notice content, recipients and that the others still got the message.", "DESIGN.md 3/C14", HUB_NOTE),
    "C19": ("model_checking", "TLC model checking of the four ACK clauses (Routing, Identity) + replay + trace validation of ACK frames on every connection incl. loggers",
            "AckExactlyOnce / AckAddressed / AckCopiedToLoggers / NoAckOtherwise / ConnectAck are action properties checked by TLC over all control/data sequences and service orders in the bound; on the real manager the ACK frames parsed from each connection must match a specification outcome at every step.", "DESIGN.md 3/C19", HUB_NOTE),
    "C02": ("model_checking", "TLC model checking of ClientSys.tla (client set algebra composed with Manager.tla's ServiceOp) + TLC-generated API call sequences executed on a real Client against the real manager + TLC trace validation of reported sets and probe deliveries",
            "SubsAgree, PausedNotDelivered, RefusedWhileAll, CtxRestores are invariants checked by TLC for every call sequence (all argument shapes up to length 2, bulk variants, both contexts, nesting) within the bound; on the real code every call is followed by reading subscribed_types / paused_subscribed_types and by one probe publish per type of the universe whose arrival on the client's socket is the manager-side truth; TLC evaluates the clauses at every step.", "DESIGN.md 3/C02",
            "Trusted base: TLC, ClientSys.tla/Manager.tla, vio, vf/clientdrv.py (the harness empties the client's socket after each probe). Bounded universe: 3 types + 1 outside + ALL."),
    "C03": ("model_checking", "TLC model checking of ProbeServed under hostile frame classes (family Hostile) and of simultaneous failures (Failures) + every hostile input class executed on the real manager with a liveness/probe oracle + trace validation of fault schedules",
            "On the spec TLC shows that no sequence of hostile frames (answered by close-or-ignore), cuts, resets and deaths reaches a state in which a fresh publisher/subscriber pair is not served or a bystander is closed. On the code each header-field boundary, type id class, declared length, control payload (incl. non-ASCII names, also with the manager's logging enabled), FIN/RST at byte offsets, random bytes, and several hundred connections is applied to the real manager; after each the manager thread must be alive, bystanders open and a fresh probe pair served.", "DESIGN.md 3/C03", HUB_NOTE),
    "C15": ("translation_validation", "TLC enumerates the Defs.tla program family in its construct variants; each program is compiled by the real compiler and every output is LOADED in its language (python import + message registry, gcc, node with factory calls and element identity, MATLAB define-before-use)",
            "Variants: alias of an imported struct, struct holding an imported message, message in message (container id below the member id), arrays of aliases, struct arrays of nested structs, diamond import with differently spelled paths; internal (non-ParserError) exceptions are violations.", "DESIGN.md 3/C15", "Trusted base: TLC, Defs.tla/LayoutOps.tla (own native type table and padding function), vf/defs.py extractors (ctypes import in a subprocess, gcc-built probe, node, interpreter of the MATLAB assignment grammar), gcc 12 x86-64 ABI. Program family: the Defs.tla skeleton with every native name rotated through every role."),
    "C16": ("translation_validation", "Defs.tla programs (TLC) compiled twice - in process and in another process with another PYTHONHASHSEED / cwd / path spelling / output directory - and byte-compared; combined-YAML output re-parsed and compared with the original closure and with the specification's Signature; shipped core_defs.py compared with the module regenerated from the shipped core YAML through the same ctypes extractor",
            "Byte identity of all five outputs, signature identity through the combined-YAML round trip, and currency of the shipped generated core definitions.", "DESIGN.md 3/C16", "Trusted base: TLC, Defs.tla/LayoutOps.tla (own native type table and padding function), vf/defs.py extractors (ctypes import in a subprocess, gcc-built probe, node, interpreter of the MATLAB assignment grammar), gcc 12 x86-64 ABI. Program family: the Defs.tla skeleton with every native name rotated through every role."),
    "C18": ("model_checking", "TLC model checking of TimingExact / TrafficPartition with history variables (family Stats, TrafficChunk=2) + interval matrix (0..300 distinct types, out-of-range ids, interval sequences) on the real manager under a virtual clock + trace validation",
            "TLC checks that every TIMING_MESSAGE equals the publishes since the previous report and that the sub-messages of one MESSAGE_TRAFFIC interval partition the types seen; on the real manager the virtual clock fires the timers, the monitor's frames are decoded independently (struct layout from core_defs.yaml) and compared with the specification's report per step (entries compared as multisets per interval).", "DESIGN.md 3/C18", HUB_NOTE),
}

checks = []
for pid, (cat, tech, text, ref, note) in sorted(CHECKS.items()):
    checks.append({
        "property_id": pid,
        "quick_cmd": f"./check {pid} --tier quick",
        "thorough_cmd": f"./check {pid} --tier thorough",
        "evidence_file": f"/verif/evidence/{pid}.json",
        "replay_cmd_template": f"./check {pid} --replay {{path}}",
        "engine": "tlc+vio",
        "level_claimed": {"category": cat, "text": text, "design_ref": ref},
        "level_note": note,
        "technique": tech,
    })
na = [{"property_id": p["id"], "reason": "check not built yet (build in progress, see DESIGN.md section 6)"}
      for p in props if p["id"] not in CHECKS]
m = {
    "version": 1,
    "setup_cmd": "./setup.sh",
    "hooks": {"guard": "PYRTMA_VERIF",
              "enable": "no source hooks: vf/vio.py substitutes the module-level names select/socket/random/time (manager, client) and threading/time (data logger) at run time; /repo is used from its working tree via sys.path",
              "baseline_off_cmd": "cd /repo && /venv/bin/python -m pytest -ra -q -p no:cacheprovider --timeout=900 --continue-on-collection-errors",
              "source_commits": [], "add_only": True},
    "engines": [{"name": "tlc+vio", "path": "/verif/vf", "serves_properties": sorted(CHECKS),
                 "kind_free_text": "TLA+ specs in /verif/spec checked by TLC; behaviours replayed on the real code over a virtual I/O layer; recorded traces validated by TLC"}],
    "checks": checks,
    "notes": "All properties are decided with explicit TLA+ specifications (spec/), TLC and conformance binding; see DESIGN.md.",
    "not_applicable": na,
}
json.dump(m, open(os.path.join(ROOT, "MANIFEST.json"), "w"), indent=1)
print("checks:", len(checks), "not_applicable:", len(na))
