#!/bin/sh
# tools/sweep.sh "<seeds>" "<props>" -- run quick checks over several seeds, report any alarm
cd "$(dirname "$0")/.."
for s in $1; do for p in $2; do
  out=$(timeout 1500 ./check $p --seed $s 2>&1 | tail -3); rc=$?
  echo "seed=$s $p: $(echo "$out" | tail -1)"
  echo "$out" | grep -E "VIOLATION|MACHINERY|KNOWN" | head -3
done; done
