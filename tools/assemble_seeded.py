#!/usr/bin/env python3
"""Assemble /verif/seeded/<id>/ (patch.diff, demo.py, notes.md, meta.json) from the collected seeds, their confirmation
runs (tools/confirm_seeds.py) and the detection matrix (tools/seed_matrix.py); print the markdown table for DESIGN.md."""
import glob
import json
import os
import re
import shutil
import subprocess

ROOT = os.path.dirname(os.path.dirname(os.path.abspath(__file__)))
OUT = os.path.join(ROOT, "seeded")
head = subprocess.run(["git", "-C", "/repo", "rev-parse", "--short", "HEAD"], capture_output=True, text=True).stdout.strip()
matrix = {(r["round"], r["seed"]): r for r in json.load(open("/root/seed_matrix.json"))}
rows = []
for rnd, base in (("r1", "/root/seeds_in"), ("r2", "/root/seeds_in2"), ("r3", "/root/seeds_in3"), ("r4", "/root/seeds_in4"), ("r5", "/root/seeds_in5"), ("r6", "/root/seeds_in6"), ("r7", "/root/seeds_in7"), ("r8", "/root/seeds_in8")):
    conf = {}
    cf = os.path.join(base, "confirm.json")
    if os.path.exists(cf):
        conf = {r["seed"]: r for r in json.load(open(cf))}
    for d in sorted(glob.glob(base + "/C*/[ab]")):
        prop, x = d.split("/")[-2:]
        sid = f"{prop}-{x}" if rnd == "r1" else f"{prop}-{rnd}{x}"
        seed = f"{prop}/{x}"
        patch = os.path.join(d, "patch.rebased.diff") if os.path.exists(os.path.join(d, "patch.rebased.diff")) else os.path.join(d, "patch.diff")
        demo = os.path.join(d, "demo.rebased.py") if os.path.exists(os.path.join(d, "demo.rebased.py")) else os.path.join(d, "demo.py")
        c = conf.get(seed, {})
        m = matrix.get((rnd, seed), {})
        confirmed = c.get("demo_clean_rc") == 0 and c.get("demo_patched_rc") not in (0, None) and c.get("suite_rc") == 0
        notes = open(os.path.join(d, "notes.md")).read() if os.path.exists(os.path.join(d, "notes.md")) else ""
        rb = os.path.join(d, "rebase_notes.md")
        if os.path.exists(rb):
            notes += "\n\n---- rebase notes ----\n" + open(rb).read()
        first = " ".join(l.strip() for l in notes.splitlines() if l.strip() and not l.startswith("#"))[:400]
        status = "kept" if confirmed else ("neutralised-by-fix" if c.get("demo_patched_rc") == 0 else "unconfirmed")
        meta = {
            "id": sid, "property": prop, "round": rnd, "base_commit": head,
            "patch": "patch.diff (rebased onto the fix commits)" if patch.endswith("rebased.diff") else "patch.diff (as delivered)",
            "what_it_breaks_and_needs": first,
            "confirmation": {"tool": "tools/confirm_seeds.py (scratch worktree of /repo HEAD under /tmp, removed afterwards)",
                             "demo_on_clean_tree_rc": c.get("demo_clean_rc"), "demo_with_patch_rc": c.get("demo_patched_rc"),
                             "existing_suite_with_patch_rc": c.get("suite_rc")},
            "status": status,
            "detection": {"cmd": f"tools/try_seed.sh seeded/{sid}/patch.diff {prop}   (quick tier)", "check_exit": m.get("rc"),
                          "signatures": m.get("signatures", [])},
        }
        tgt = os.path.join(OUT, sid)
        if confirmed or status == "neutralised-by-fix":
            os.makedirs(tgt, exist_ok=True)
            shutil.copy(patch, os.path.join(tgt, "patch.diff"))
            shutil.copy(demo, os.path.join(tgt, "demo.py"))
            open(os.path.join(tgt, "notes.md"), "w").write(notes)
            json.dump(meta, open(os.path.join(tgt, "meta.json"), "w"), indent=1)
        rows.append((sid, status, m.get("rc"), (m.get("signatures") or [""])[0], first[:110]))
print("| seed | status | check exit | first signature | what |")
print("|---|---|---|---|---|")
for r in rows:
    print("| " + " | ".join(str(x).replace("|", "/") for x in r) + " |")
