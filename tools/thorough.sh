#!/bin/sh
# tools/thorough.sh "<props>" -- run thorough tiers one after the other, report wall time and alarms
cd "$(dirname "$0")/.."
for p in $1; do
  t0=$(date +%s)
  out=$(timeout 5400 ./check $p --tier thorough 2>&1 | tail -6); 
  echo "$p: $(echo "$out" | tail -1)  [$(( $(date +%s) - t0 )) s]"
  echo "$out" | grep -E "VIOLATION|MACHINERY|NOTE" | head -4
done
